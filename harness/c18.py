"""C18 — A schematic shows the circuit that exists: every block once, wired as built.
See DESIGN.md §5 C18, lean/Py4hwV/Schem/*.lean, lean/Py4hwV/Props/C18.lean, notes/C18.md.

Level: translation_validation.  The place-and-route algorithm is NOT modelled.  Per run, the real
`Schematic(obj, placeAndRoute=True)` is executed (wall-clock budget per design = the termination clause), its
objs / nets / symbol_matrix are exported and validated by the Lean checker `Schem.check` (proved sound AND complete
for the declarative statement `Schem.Holds`, once, for all designs and layouts).  The only modelled piece of
schematic.py is `replaceAsColRow` (Schem.Place), tied by a correspondence stream and carrying the no-overlap theorem."""
import io, os, sys, json, time, signal, contextlib
from common import *
import common
import c18_designs as G

OBLIGATIONS = [
    'C18.checker_sound', 'C18.checker_complete', 'C18.check_iff_holds',
    'C18.connectedB_sound', 'C18.connectedB_complete', 'C18.mem_pins', 'C18.mem_usedList', 'C18.pins_nodup',
    'C18.wellDrivenB_iff', 'C18.touch_iff_common_point', 'C18.on_vertical', 'C18.on_horizontal',
    'C18.apart_iff_no_common_pixel', 'C18.holds_pin_on_figure',
    'C18.xAt_mono', 'C18.yAt_mono', 'C18.placement_apart', 'C18.holds_apart_of_placement', 'C18.std_nonneg',
    'C18.ex_check_ok', 'C18.ex_holds', 'C18.ex_wellDriven', 'C18.ex_missing_symbol_rejected', 'C18.ex_wrong_pin_rejected',
    'C18.ex_overlap_rejected', 'C18.ex_broken_chain_rejected', 'C18.ex_foreign_pin_rejected',
    # columnAssignment (model Schem.Column, stream column-model)
    'C18.level_pos', 'C18.level_edge', 'C18.acyclic_forward', 'C18.colOf_mono', 'C18.forward_net_goes_right',
    'C18.net_never_same_column', 'C18.colMatrixFast_eq', 'C18.groups_col0', 'C18.colOf_pos', 'C18.groups_child', 'C18.child_cell', 'C18.colMatrix_cell',
    # trackAssignment / routeNetSquare (model Schem.Track, stream track-route-model)
    'C18.track_lt', 'C18.track_eq_iff', 'C18.route_shape', 'C18.route_head', 'C18.route_last', 'C18.mpx_in_channel', 'C18.mpx_inj',
    # createNets / insertPassthrough / insertFeedback (model Schem.Pass, stream pass-model)
    'C18.passWire_spec', 'C18.passWire_cells', 'C18.passWire_connected', 'C18.feedWire_spec', 'C18.feedWire_connected',
    'C18.passWire_adjacent', 'C18.feedWire_adjacent', 'C18.passthroughCreation_connected', 'C18.exMC_pass_hyps',
    # non-vacuity on the real ModuloCounter
    'C18.exMC_column', 'C18.exMC_feedback_edge', 'C18.exMC_feedback_is_cycle', 'C18.exMC_pass', 'C18.exMC_passWire_ok', 'C18.ex_tracks',
    # pin geometry of the symbol classes (model Schem.Pins, stream pin-model) and its composition with the placement model
    'C18.lastIdx_nodup', 'C18.pins_injective', 'C18.pins_injective_iff', 'C18.pins_injective_realizable', 'C18.binop3_collision',
    'C18.binop_only_collision', 'C18.same_name_same_pos', 'C18.pins_in_box', 'C18.pins_tidy_realizable', 'C18.pins_in_box_realizable', 'C18.scope_pins_in_box',
    'C18.scope4_outside_old', 'C18.scope4_meets_marker_old', 'C18.std_roomy', 'C18.sym_pins_injective', 'C18.pins_apart_of_placement', 'C18.pinPos_injective',
    'C18.vertical_run_misses_pins', 'C18.ex_addco_injective', 'C18.ex_shapes_ok', 'C18.ex_pinPos_hyps', 'C18.ex_pins_distinct', 'C18.exScopeOld_counterexample', 'C18.exScopeOld_shape', 'C18.exScopeFixed_holds',
]

# proposals for /verif/known_findings.json (the integrator merges them); applied locally until they are listed there.
# class_expr is evaluated over the replay dict r:  r['feat'] = features of the DESIGN (computed from the netlist, not from the
# layout), r['kinds'] = kinds of the checker's errors, r['fp_wires'] = wires with a foreignPin error, r['abort'] = exception text
# printed by placeAndRoute ('' if none)
PROPOSED_FINDINGS = [
    {"id": "C18-binop-third-pin", "property": "C18", "status": "known", "anchor": "py4hw/schematic_symbols.py:165",
     "class_expr": "r.get('stage') == 'check' and r['feat']['binop3'] > 0 and set(r['kinds']) <= {'foreignPin'} and "
                   "set(r['fp_wires']) <= set(r['feat']['binop3_wires'])",
     "witness": {"kind": "lib", "name": "SignedSub", "P": {"w": 8, "n": 2, "k": 0}},
     "what": "Add/Sub/Mul symbol with a third input (carry-in): BinaryOperatorSymbol.getPortSinkPos puts inputs 1 and 2 on the same "
             "pixel, so the figure of wire b touches the pin of wire ci (and vice versa)"},
    {"id": "C18-duplicate-sink-abort", "property": "C18", "status": "known", "anchor": "py4hw/schematic.py:1063",
     "class_expr": "r.get('stage') == 'check' and r['feat']['dupsink'] > 0 and set(r['kinds']) <= {'foreignPin'} and "
                   "('Muliple nets between' in r['abort'] or 'Multiple nets between' in r['abort'])",
     "witness": {"kind": "plan", "w": 8, "nin": 1, "nfree": 0, "outs": [["n", 2, 0]], "nodes": [
         {"k": "Not", "ni": 1, "no": 1, "ins": [["in", 0]], "p": {"v": 0}},
         {"k": "Buf", "ni": 1, "no": 1, "ins": [["n", 0, 0]], "p": {"v": 0}},
         {"k": "Mux2", "ni": 3, "no": 1, "ins": [["in", 0], ["in", 0], ["n", 1, 0]], "p": {"v": 0}}]},
     "what": "one wire feeding two inputs of the same instance more than one column away: insertPassthrough/insertFeedback raise "
             "'Multiple nets between source and sink', placeAndRoute swallows it, pass-through creation stops half way and the remaining "
             "long nets are drawn straight across other symbols, over pins of other wires"},
    {"id": "C18-self-loop", "property": "C18", "status": "known", "anchor": "py4hw/schematic.py:1139",
     "class_expr": "r.get('stage') == 'check' and r['feat']['selfloop'] > 0 and "
                   "set(r['kinds']) <= {'foreignPin', 'notPlaced', 'readerUntouched', 'stray', 'logDisconnected', 'geoDisconnected'} and "
                   "('AssertionError' in r['abort'] or (set(r['kinds']) <= {'foreignPin'} and r.get('self_nets', 0) == 0))",
     "witness": {"kind": "plan", "w": 8, "nin": 1, "nfree": 0, "outs": [["n", 0, 0]], "nodes": [
         {"k": "RegEn", "ni": 2, "no": 1, "ins": [["n", 0, 0], ["in", 0]], "p": {"v": 0}}]},
     "what": "an instance reading its own output: in column 1 insertFeedback hits assert(sinkcol > 0) after deleting the net (the reader is "
             "left unconnected, a marker is left outside the grid); in later columns the last feedback segment is drawn straight "
             "through the neighbouring column, over pins of other wires"},
    # FIXED in /repo 0891c9c (ScopeSymbol.getHeight = max(80, LogicSymbol.getHeight(self))): a fixed entry suppresses nothing; its former
    # witness still runs at every check (corpus stream) and the class is explored by the stream scope-rows: a recurrence is a VIOLATION
    {"id": "C18-scope-pin-below-box", "property": "C18", "status": "fixed", "commit": "0891c9c", "anchor": "py4hw/schematic_symbols.py:700",
     "class_expr": "r.get('stage') == 'check' and r['feat']['scope4'] > 0 and set(r['kinds']) <= {'foreignPin'} and len(r['fp_hits']) > 0 and "
                   "all(h[0] in ('Scope', 'Waveform') and h[1] == 'in' and h[2] >= 3 for h in r['fp_hits'])",
     "witness": {"kind": "plan", "w": 4, "nin": 4, "nfree": 0, "outs": [["n", 1, 0]], "nodes": [
         {"k": "Not", "ni": 1, "no": 1, "ins": [["in", 0]], "p": {"v": 0}},
         {"k": "And2", "ni": 2, "no": 1, "ins": [["in", 1], ["n", 0, 0]], "p": {"v": 0}},
         {"k": "Scope", "ni": 4, "no": 0, "ins": [["in", 0], ["in", 1], ["in", 2], ["in", 3]], "p": {"v": 0}}]},
     "what": "Scope/Waveform symbol with a fourth input: ScopeSymbol.getHeight is 80 whatever the number of inputs, so input pins 3.. are "
             "reported below the symbol's box (pin 3 at y+105); replaceAsColRow puts the next row at y+95, where the sink pin of a "
             "pass-through marker of the same column (y+95+10) meets pin 3: the figure of the passing wire touches a pin of another wire"},
]

BUDGET_S = 30.0          # wall-clock budget for one Schematic(obj): the termination clause (+ n_inst^2/1000 s: the passes are
                         # quadratic and worse; an Or with 380 inputs needs 24 s and 72 000 symbols on the pinned tree)


class Timeout(BaseException):
    """BaseException: placeAndRoute wraps some passes in `except Exception` and must not be able to swallow the budget"""


def _alarm(sig, frm):
    raise Timeout()


class Phases:
    """snapshots of the real intermediate structures, taken by wrapping the passes placeAndRoute calls (no change to /repo):
    symbol_matrix right after columnAssignment, nets right after createNets, the order in which the set-valued helpers
    (getAllInstanceSinks, Intersection) were iterated inside passthroughCreation, objs/matrix/nets right after passthroughCreation"""

    def __init__(self, wid=None):
        self.snap = {'sink_ord': [], 'wire_ord': []}
        self.in_pt = False
        self.pair = None
        self.wid = wid or {}

    @staticmethod
    def port_idx(sym, port, out):
        import py4hw.schematic_symbols as S
        if port is None or sym is None or getattr(sym, 'obj', None) is None:
            return -1
        if isinstance(sym, S.InPortSymbol):
            return 0 if (out and port is sym.obj) else -1
        if isinstance(sym, S.OutPortSymbol):
            return 0 if ((not out) and port is sym.obj) else -1
        return _idx(sym.obj.outPorts if out else sym.obj.inPorts, port)

    def nets_of(self, s):
        idx = {}
        for i, o in enumerate(s.objs):
            idx.setdefault(id(o), i)
        return [[self.wid.get(id(n.wire), -1), idx.get(id(n.source), -1), Phases.port_idx(n.source, n.sourcePort, True),
                 idx.get(id(n.sink), -1), Phases.port_idx(n.sink, n.sinkPort, False)] for n in s.nets]

    @staticmethod
    def kinds_of(s):
        import py4hw.schematic_symbols as S
        out = []
        for o in s.objs:
            out.append(0 if isinstance(o, S.PassthroughSymbol) else 1 if isinstance(o, S.FeedbackStartSymbol)
                       else 2 if isinstance(o, S.FeedbackStopSymbol) else -1)
        return out

    @staticmethod
    def mat(s):
        idx = {}
        for i, o in enumerate(s.objs):
            idx.setdefault(id(o), i)
        nr, nc = s.symbol_matrix.shape
        return [[(-1 if s.symbol_matrix[r, c] is None else idx.get(id(s.symbol_matrix[r, c]), len(s.objs))) for c in range(nc)]
                for r in range(nr)]

    def install(self):
        import py4hw.schematic as M
        S = M.Schematic
        self.saved = [(S, 'columnAssignment', S.columnAssignment)]
        rec = self
        orig_col = S.columnAssignment

        def columnAssignment(self_, *a, **k):
            r = orig_col(self_, *a, **k)
            rec.snap['col_matrix'] = Phases.mat(self_)
            rec.snap['col_nobjs'] = len(self_.objs)
            return r
        S.columnAssignment = columnAssignment
        orig_cn, orig_pt, orig_gs = S.createNets, S.passthroughCreation, S.getAllInstanceSinks
        orig_ip, orig_if, orig_int = S.insertPassthrough, S.insertFeedback, M.Intersection
        self.saved += [(S, 'createNets', orig_cn), (S, 'passthroughCreation', orig_pt), (S, 'getAllInstanceSinks', orig_gs),
                       (S, 'insertPassthrough', orig_ip), (S, 'insertFeedback', orig_if), (M, 'Intersection', orig_int)]

        def oidx(s_, o):
            for i, x in enumerate(s_.objs):
                if x is o:
                    return i
            return -1

        def createNets(self_, *a, **k):
            r = orig_cn(self_, *a, **k)
            rec.snap['nets0'] = rec.nets_of(self_)
            rec.snap['mat0'] = Phases.mat(self_)
            return r

        def passthroughCreation(self_, *a, **k):
            rec.in_pt = True
            try:
                return orig_pt(self_, *a, **k)
            except Exception as e:
                rec.snap['pt_exc'] = f'{type(e).__name__}: {str(e)[:80]}'
                raise
            finally:
                rec.in_pt = False
                rec.snap['pt_kinds'] = Phases.kinds_of(self_)
                rec.snap['pt_mat'] = Phases.mat(self_)
                rec.snap['pt_nets'] = rec.nets_of(self_)

        def getAllInstanceSinks(self_, sym):
            r = orig_gs(self_, sym)
            if rec.in_pt:
                rec.snap['sink_ord'].append([oidx(self_, sym)] + [oidx(self_, t) for t in r])
            return r

        def insertPassthrough(self_, source, sourcecol, sink, sinkcol, *a, **k):
            rec.pair = (oidx(self_, source), oidx(self_, sink))
            try:
                return orig_ip(self_, source, sourcecol, sink, sinkcol, *a, **k)
            finally:
                rec.pair = None

        def insertFeedback(self_, source, sourcecol, sink, sinkcol, *a, **k):
            rec.pair = (oidx(self_, source), oidx(self_, sink))
            try:
                return orig_if(self_, source, sourcecol, sink, sinkcol, *a, **k)
            finally:
                rec.pair = None

        def Intersection(l1, l2):
            r = orig_int(l1, l2)
            if rec.in_pt and rec.pair is not None:
                rec.snap['wire_ord'].append([rec.pair[0], rec.pair[1]] + [rec.wid.get(id(w), -1) for w in r])
            return r
        S.createNets, S.passthroughCreation, S.getAllInstanceSinks = createNets, passthroughCreation, getAllInstanceSinks
        S.insertPassthrough, S.insertFeedback, M.Intersection = insertPassthrough, insertFeedback, Intersection

    def uninstall(self):
        for (o, n, f) in self.saved:
            setattr(o, n, f)


def run_schematic(obj, budget=BUDGET_S, phases=None):
    """the real place-and-route, output captured.  -> (schematic|None, error|None, seconds, captured text)"""
    from py4hw.schematic import Schematic
    buf = io.StringIO()
    if phases is not None:
        phases.install()
    old = signal.signal(signal.SIGALRM, _alarm)
    signal.setitimer(signal.ITIMER_REAL, budget)
    t0 = time.time()
    try:
        with contextlib.redirect_stdout(buf), contextlib.redirect_stderr(buf):
            s = Schematic(obj, placeAndRoute=True)
        return s, None, time.time() - t0, buf.getvalue()
    except Timeout:
        return None, f'no result within {budget}s', time.time() - t0, buf.getvalue()
    except Exception as e:
        return None, f'{type(e).__name__}: {str(e)[:200]}', time.time() - t0, buf.getvalue()
    finally:
        signal.setitimer(signal.ITIMER_REAL, 0)
        signal.signal(signal.SIGALRM, old)
        if phases is not None:
            phases.uninstall()


def _idx(lst, x):
    for i, y in enumerate(lst):
        if y is x:
            return i
    return -1


class NotExportable(Exception):
    pass


def _int(v):
    if isinstance(v, bool):
        raise NotExportable('bool coordinate')
    if hasattr(v, 'item'):
        v = v.item()
    if isinstance(v, float):
        if v != int(v):
            raise NotExportable(f'non-integer coordinate {v}')
        v = int(v)
    if not isinstance(v, int):
        raise NotExportable(f'coordinate {v!r}')
    return v


def export_layout(s, obj, des):
    """objs / symbol_matrix / nets of the finished Schematic, as plain data (identity-based indices)"""
    import py4hw.schematic_symbols as S
    children = list(obj.children.values())
    wid = des['_wid']
    syms = []
    objidx = {}
    for i, o in enumerate(s.objs):
        objidx.setdefault(id(o), i)
    for o in s.objs:
        ins, outs = [], []
        if isinstance(o, S.InPortSymbol):
            kind, ref, outs = 1, _idx(obj.inPorts, o.obj), [o.obj]
        elif isinstance(o, S.OutPortSymbol):
            kind, ref, ins = 2, _idx(obj.outPorts, o.obj), [o.obj]
        elif isinstance(o, S.PassthroughSymbol):
            kind, ref, ins, outs = 3, 0, [None], [None]
        elif isinstance(o, S.FeedbackStartSymbol):
            kind, ref, ins, outs = 4, 0, [None], [None]
        elif isinstance(o, S.FeedbackStopSymbol):
            kind, ref, ins, outs = 5, 0, [None], [None]
        elif isinstance(o, (S.MissingConnectionSymbol, S.InOutPortSymbol)) or getattr(o, 'obj', None) is None:
            kind, ref = 6, 0
        else:
            kind, ref = 0, _idx(children, o.obj)
            if ref >= 0:
                ins, outs = list(o.obj.inPorts), list(o.obj.outPorts)

        def pos(f, p, o=o):
            try:
                d = f(p)
                return (_int(o.x + d[0]), _int(o.y + d[1]))
            except NotExportable:
                raise
            except Exception:
                return None
        nid = {}

        def names(ps, nid=nid):
            return [nid.setdefault(getattr(p, 'name', None), len(nid)) for p in ps]
        r, c = getattr(o, 'r', None), getattr(o, 'c', None)
        syms.append(dict(inames=names(ins), onames=names(outs), kind=kind, ref=ref, cell=(int(r), int(c)) if (r is not None and c is not None) else None,
                         x=_int(o.x), y=_int(o.y), w=_int(o.getWidth()), h=_int(o.getHeight()),
                         ipins=[pos(o.getPortSinkPos, p) for p in ins], opins=[pos(o.getPortSourcePos, p) for p in outs],
                         name=str(getattr(o, 'name', '?')), cls=type(o).__name__))
    nr, nc = s.symbol_matrix.shape
    mat = []
    for r in range(nr):
        row = []
        for c in range(nc):
            e = s.symbol_matrix[r, c]
            row.append(-1 if e is None else objidx.get(id(e), len(s.objs)))
        mat.append(row)
    nets = []
    for n in s.nets:
        def pidx(sym, port, out):
            if port is None or sym is None or getattr(sym, 'obj', None) is None:
                return -1
            if isinstance(sym, S.InPortSymbol):
                return 0 if (out and port is sym.obj) else -1
            if isinstance(sym, S.OutPortSymbol):
                return 0 if ((not out) and port is sym.obj) else -1
            return _idx(sym.obj.outPorts if out else sym.obj.inPorts, port)
        if n.x is not None and n.y is not None and n.routed and len(n.x) == len(n.y):
            path = [(_int(a), _int(b)) for a, b in zip(n.x, n.y)]
        else:
            path = []
        nets.append(dict(wire=wid.get(id(n.wire), -1), src=objidx.get(id(n.source), -1), sp=pidx(n.source, n.sourcePort, True),
                         snk=objidx.get(id(n.sink), -1), tp=pidx(n.sink, n.sinkPort, False), path=path,
                         track=getattr(n, 'track', None)))
    tracks = []
    fbt = 0
    srcw = []
    for ch in s.channels:
        srcw.append(ch.get('sourcewidth'))
        tracks.append(int(ch.get('tracks', 0)))
        fbt += int(ch.get('feedback_tracks', 0) or 0)
    return dict(syms=syms, mat=mat, nets=nets, tracks=tracks, feedback_tracks=fbt, sourcewidth=srcw)


def _lead(l):
    return ','.join(str(v) for v in [0] + list(l))


def encode_chk(des, L):
    def pins(ps):
        out = []
        for p in ps:
            out += [1, p[0], p[1]] if p is not None else [0, 0, 0]
        return out
    syms = []
    for s in L['syms']:
        cell = s['cell']
        v = [s['kind'], s['ref'], 1 if cell else 0, cell[0] if cell else 0, cell[1] if cell else 0, s['x'], s['y'], s['w'], s['h'],
             len(s['ipins']), len(s['opins'])] + pins(s['ipins']) + pins(s['opins'])
        syms.append(','.join(str(x) for x in v))
    nets = []
    for n in L['nets']:
        v = [n['wire'], n['src'], n['sp'], n['snk'], n['tp']]
        for p in n['path']:
            v += [p[0], p[1]]
        nets.append(','.join(str(x) for x in v))
    return ' | '.join(['chk', ';'.join(_lead(i['ins']) for i in des['insts']), ';'.join(_lead(i['outs']) for i in des['insts']),
                       ','.join(str(x) for x in des['inp']), ','.join(str(x) for x in des['outp']),
                       ';'.join(syms), ';'.join(_lead(r) for r in L['mat']), ';'.join(nets)])


def encode_place(L, consts):
    rows = []
    for r, row in enumerate(L['mat']):
        cells = []
        for k in row:
            if 0 <= k < len(L['syms']):
                cells.append(f"{L['syms'][k]['w']}:{L['syms'][k]['h']}")
            else:
                cells.append('_')
        rows.append(','.join(cells))
    return ' | '.join(['place', ','.join(str(c) for c in consts), ','.join(str(t) for t in L['tracks']), ';'.join(rows)])


def track_request(L):
    """what trackAssignment reads: per net the wire, the cell of the source symbol, the row of the sink symbol"""
    out = []
    for n in L['nets']:
        if not (0 <= n['src'] < len(L['syms']) and 0 <= n['snk'] < len(L['syms'])) or n['wire'] < 0:
            return None
        a, b = L['syms'][n['src']]['cell'], L['syms'][n['snk']]['cell']
        if a is None or b is None:
            return None
        out.append(f"{n['wire']},{a[0]},{a[1]},{b[0]}")
    nc = len(L['mat'][0]) if L['mat'] else 0
    return f"trk | {nc} | {';'.join(out)}"


def route_request(L, consts):
    """what routeNetSquare reads: kind of the ends, the two pin positions, x of the source symbol, width of its column, the track"""
    out, idxs = [], []
    for i, n in enumerate(L['nets']):
        if not n['path'] or n['track'] is None or not (0 <= n['src'] < len(L['syms']) and 0 <= n['snk'] < len(L['syms'])):
            continue
        S, T = L['syms'][n['src']], L['syms'][n['snk']]
        if S['cell'] is None or S['cell'][1] >= len(L['sourcewidth']) or L['sourcewidth'][S['cell'][1]] is None:
            continue
        op = S['opins'][0] if S['kind'] in (3, 4, 5) and S['opins'] else (S['opins'][n['sp']] if 0 <= n['sp'] < len(S['opins']) else None)
        ip = T['ipins'][0] if T['kind'] in (3, 4, 5) and T['ipins'] else (T['ipins'][n['tp']] if 0 <= n['tp'] < len(T['ipins']) else None)
        if op is None or ip is None:
            continue
        kind = 0 if S['kind'] == 5 else (1 if T['kind'] == 4 else 2)
        out.append(f"{kind},{op[0]},{op[1]},{ip[0]},{ip[1]},{S['x']},{int(L['sourcewidth'][S['cell'][1]])},{int(n['track'])}")
        idxs.append(i)
    if not out:
        return None, []
    return f"rt | {','.join(str(c) for c in consts)} | {';'.join(out)}", idxs


def features(des):
    f = dict(binop3=0, binop3_wires=[], dupsink=0, selfloop=0, n_inst=len(des['insts']), n_wires=des['nw'],
             max_fanout=0, multi_out=0, scope4=0)
    fan = {}
    for i in des['insts']:
        if i['cls'] in ('Add', 'Sub', 'Mul') and len(i['ins']) >= 3:
            f['binop3'] += 1
            f['binop3_wires'] += i['ins'][1:]
        if i['cls'] in ('Scope', 'Waveform') and len(i['ins']) >= 4:
            f['scope4'] += 1
        if len(set(i['ins'])) < len(i['ins']):
            f['dupsink'] += 1
        if set(i['ins']) & set(i['outs']):
            f['selfloop'] += 1
        if len(i['outs']) > 1:
            f['multi_out'] += 1
        for w in i['ins']:
            fan[w] = fan.get(w, 0) + 1
    for w in des['outp']:
        fan[w] = fan.get(w, 0) + 1
    f['max_fanout'] = max(fan.values()) if fan else 0
    f['binop3_wires'] = sorted(set(f['binop3_wires']))
    return f


def fail_or_known(res, what, replay):
    """res.fail, with the class predicates of PROPOSED_FINDINGS as the authority for this property's findings: a proposal that is not
    yet listed in known_findings.json is applied from here; a LISTED entry whose class_expr is broader than the (sharpened) one here
    must not mask a failure that the sharpened class excludes — such a failure is recorded as a violation"""
    listed = {k.get('id') for k in load_known()}
    mine = {k['id'] for k in PROPOSED_FINDINGS}          # a listed entry that is 'fixed' here no longer excuses anything either
    for k in PROPOSED_FINDINGS:
        if k.get('status') == 'known' and common._matches(k, what, replay):
            if k['id'] not in listed:
                res.known_hits.append((k, what))
                note = f"{k['id']} pending merge into known_findings.json; class predicate applied from harness/c18.py"
                if note not in res.notes:
                    res.notes.append(note)
                return True
            n = len(res.failures)
            res.fail(what, replay)
            return len(res.failures) == n
    for k in load_known():
        if k.get('property') == 'C18' and k.get('id') in mine and common._matches(k, what, replay):
            note = (f"{k['id']}: known_findings.json excuses more than harness/c18.py does (broader class_expr, or fixed here); a failure outside "
                    f"the harness' classes is reported as a violation")
            if note not in res.notes:
                res.notes.append(note)
            res.failures.append({'what': what, 'replay': replay})
            return False
    n = len(res.failures)
    res.fail(what, replay)
    return len(res.failures) == n


# ------------------------------------------------------------------------------------------------
# pin geometry: symbol class of schematic_symbols.py -> class number of the Lean model (Schem.Pins.clsOfNat)
PIN_CLS = {'LogicSymbol': 0, 'VirtualSymbol': 0, 'InstanceSymbol': 0, 'RegSymbol': 1, 'ScopeSymbol': 2, 'BufSymbol': 3,
           'BinaryOperatorSymbol': 4, 'AddSymbol': 4, 'SubSymbol': 4, 'MulSymbol': 4, 'AndSymbol': 5, 'OrSymbol': 6, 'NorSymbol': 7,
           'XorSymbol': 8, 'NotSymbol': 9, 'BitSymbol': 10, 'RangeSymbol': 11, 'Mux2Symbol': 12, 'InPortSymbol': 13, 'OutPortSymbol': 14,
           'InOutPortSymbol': 15, 'PassthroughSymbol': 16, 'FeedbackStartSymbol': 17, 'FeedbackStopSymbol': 18, 'MissingConnectionSymbol': 19}


def pins_request(cls_no, iw, inames, onames):
    return f"pins | {cls_no},{iw} | {','.join(str(v) for v in inames)} | {','.join(str(v) for v in onames)}"


def parse_pins_answer(a):
    """-> dict(w, h, fits, tidy, realizable, sink=[(x,y)|None ...] (one more than in ports: a foreign port), src=[...]) or None"""
    f = [x.strip() for x in a.split('|')]
    if len(f) != 4:
        return None
    try:
        w, h = [int(v) for v in f[0].split(',')]
        fl = [v == '1' for v in f[1].split(',')]

        def pts(t):
            return [None if q.strip() == '_' else tuple(int(v) for v in q.split(',')) for q in t.split(';')]
        return dict(w=w, h=h, fits=fl[0], tidy=fl[1], realizable=fl[2], sink=pts(f[2]), src=pts(f[3]))
    except Exception:
        return None


class _P:
    """stand-in for a port: the symbols only read .name (and compare identity)"""
    def __init__(self, name):
        self.name = name


class _O:
    """stand-in for the drawn object: the symbol classes read inPorts / outPorts / ins / name / getFullPath only"""
    def __init__(self, inames, onames):
        self.name = 'u'
        self.inPorts = [_P(f'i{v}') for v in inames]
        self.outPorts = [_P(f'o{v}') for v in onames]
        self.inOutPorts = []
        self.ins = list(self.inPorts)

    def getFullPath(self):
        return 'standin/u'


def standin_pin_stream(res, tier):
    """T2 correspondence for the model of the symbol classes (Schem.Pins): the REAL getWidth / getHeight / getPortSinkPos /
    getPortSourcePos of every class of schematic_symbols.py, instantiated on stand-in objects with every port count up to a bound
    (repeated port names and a port that is not the object's included), against the model.  Exhaustive in class x nIn x nOut."""
    import inspect
    import py4hw.schematic_symbols as S
    maxi, maxo = (6, 3) if tier == 'quick' else (12, 6)
    cases = []
    for name, c in inspect.getmembers(S, inspect.isclass):
        if c.__module__ != S.__name__ or not issubclass(c, S.LogicSymbol):
            continue
        if name not in PIN_CLS:
            res.broken.append(('coverage', 'pin-model', f'symbol class {name} of schematic_symbols.py has no class in the model Schem.Pins'))
            continue
        no = PIN_CLS[name]
        if no in (16, 17, 18, 19):
            variants = [([0], [0], 'marker')]
        elif no in (13, 14, 15):
            variants = [([], [0], 'port') if no == 13 else ([0], [], 'port') if no == 14 else ([0], [0], 'port')]
        else:
            variants = [(list(range(a)), list(range(b)), 'obj') for a in range(maxi + 1) for b in range(maxo + 1)]
            # repeated names: the lookups compare names and keep the last match
            variants += [([0, 1, 0], [0, 0], 'obj'), ([0, 0, 1, 1], [1, 0, 1], 'obj'), ([2, 2, 2], [0, 1, 1, 0], 'obj')]
        for inames, onames, how in variants:
            cases.append((name, c, no, inames, onames, how))
    lines, obs = [], []
    for name, c, no, inames, onames, how in cases:
        try:
            with contextlib.redirect_stdout(io.StringIO()):
                if how == 'marker':
                    sym = c() if no != 19 else c('w')
                    ip, op = [None], [None]
                elif how == 'port':
                    prt = _P('p')
                    sym = c(prt, 0, 0)
                    ip, op = ([prt] if inames else []), ([prt] if onames else [])
                else:
                    ob = _O(inames, onames)
                    sym = c(ob, 0, 0)
                    ip, op = ob.inPorts, ob.outPorts
        except Exception as e:
            res.disagree('pin-model', dict(what=f'cannot instantiate {name} on a stand-in object: {type(e).__name__}: {e}'))
            continue

        def ask(f, prt):
            try:
                d = f(prt)
                return (_int(d[0]), _int(d[1]))
            except NotExportable:
                return 'non-integer'
            except Exception:
                return None
        foreign = _P('not-a-port-of-this-object')
        real = dict(w=_int(sym.getWidth()), h=_int(sym.getHeight()), sink=[ask(sym.getPortSinkPos, q) for q in ip + [foreign]],
                    src=[ask(sym.getPortSourcePos, q) for q in op + [foreign]])
        iw = _int(getattr(sym, 'instanceWidth', 0))
        lines.append(pins_request(no, iw, inames, onames))
        obs.append((name, inames, onames, iw, real))
    try:
        ans = run_driver('Drv/C18.lean', lines)
    except ToolFailure as e:
        res.broken.append(('correspondence', 'pin-model', f'driver failed: {str(e)[:300]}'))
        return
    for (name, inames, onames, iw, real), a in zip(obs, ans):
        m = parse_pins_answer(a)
        res.cov['pin_standins_compared'] = res.cov.get('pin_standins_compared', 0) + 1
        res.hist('pin_standin_classes', name)
        if m is None:
            res.broken.append(('correspondence', 'pin-model', f'unexpected answer {a[:80]!r}'))
            continue
        model = dict(w=m['w'], h=m['h'], sink=m['sink'], src=m['src'])
        if model != real:
            res.disagree('pin-model', dict(what='symbol class on a stand-in object', cls=name, in_names=inames, out_names=onames,
                                           instanceWidth=iw, real=real, model=model))
        if iw < 50:
            res.disagree('pin-model', dict(what='instanceWidth below 50: hypothesis 50 <= iw of Shape.Realizable fails', cls=name, iw=iw))


def fp_hits(des, L, wires):
    """for the classification of KNOWN findings only (not the oracle): which pins of other wires lie on the figure of the given wires.
    -> [[class of the instance | 'InPort' | 'OutPort', 'in' | 'out', port index], ...]"""
    symof = {}
    for s in L['syms']:
        symof.setdefault((s['kind'], s['ref']), s)
    pins = []
    for i, inst in enumerate(des['insts']):
        s = symof.get((0, i))
        if s is None:
            continue
        for p, w in enumerate(inst['ins']):
            if p < len(s['ipins']) and s['ipins'][p] is not None:
                pins.append((w, s['ipins'][p], [inst['cls'], 'in', p]))
        for p, w in enumerate(inst['outs']):
            if p < len(s['opins']) and s['opins'][p] is not None:
                pins.append((w, s['opins'][p], [inst['cls'], 'out', p]))
    for p, w in enumerate(des['inp']):
        s = symof.get((1, p))
        if s is not None and s['opins'] and s['opins'][0] is not None:
            pins.append((w, s['opins'][0], ['InPort', 'out', 0]))
    for p, w in enumerate(des['outp']):
        s = symof.get((2, p))
        if s is not None and s['ipins'] and s['ipins'][0] is not None:
            pins.append((w, s['ipins'][0], ['OutPort', 'in', 0]))
    hits = []
    for w in wires:
        segs = []
        for n in L['nets']:
            if n['wire'] != w:
                continue
            segs += list(zip(n['path'], n['path'][1:]))
            for k in (n['src'], n['snk']):
                if 0 <= k < len(L['syms']) and L['syms'][k]['kind'] == 3:
                    m = L['syms'][k]
                    if len(m['ipins']) == 1 and len(m['opins']) == 1 and m['ipins'][0] and m['opins'][0]:
                        segs.append((m['ipins'][0], m['opins'][0]))
        for (pw, pt, desc) in pins:
            if pw != w and any(min(a[0], b[0]) <= pt[0] <= max(a[0], b[0]) and min(a[1], b[1]) <= pt[1] <= max(a[1], b[1]) for a, b in segs):
                if desc not in hits:
                    hits.append(desc)
    return hits


# ------------------------------------------------------------------------------------------------
class Batch:
    """collects designs, runs the real place-and-route on each, validates all layouts with ONE driver call"""

    def __init__(self, res, tier):
        self.res, self.tier = res, tier
        self.items = []          # dict(spec, path, des, L, abort, seconds, stream)
        self.seen = set()
        self.tmax = 0.0
        self.timeouts = 0
        self.consts = None
        self.pin_cache = {}      # (class number, iw, in names, out names) -> parsed answer of the pin model
        self.pin_asked = set()
        # the interpreted checker costs about (symbols/500)^2 seconds on a layout: keep its total inside the tier's wall time
        q = tier == 'quick'
        self.cap = 2.5 if q else 25.0                   # per layout
        self.budgets = {'library': 25.0 if q else 130.0, 'random-plain': 25.0 if q else 130.0, 'exhaustive-small': 10.0 if q else 40.0}
        self.other_budget = 10.0 if q else 40.0         # per remaining stream
        self.budgets['selfloop-classes'] = 20.0 if q else 80.0

    def add(self, spec, stream, obj=None, path=(), premise_expected=True):
        res = self.res
        try:
            top = obj if obj is not None else G.build(spec)
        except Exception as e:
            res.hist('build_errors', f'{stream}:{type(e).__name__}')
            return None
        blocks = [(path, top)] if obj is not None else list(G.structural_descendants(top))
        for pth, blk in blocks:
            if not blk.isStructural():
                res.hist('not_structural', stream)
                continue
            try:
                des = G.export_design(blk)
            except G.Unsupported as e:
                res.hist('unsupported_design', str(e))
                continue
            sig = (tuple((i['cls'], tuple(i['ins']), tuple(i['outs'])) for i in des['insts']), tuple(des['inp']), tuple(des['outp']))
            if sig in self.seen:
                res.hist('duplicate_designs_skipped', stream)
                continue
            self.seen.add(sig)
            sp = dict(spec)
            if pth:
                sp['path'] = list(pth)
            if self.timeouts >= 3:
                res.hist('skipped_after_3_timeouts', stream)
                continue
            budget = BUDGET_S + len(des['insts']) ** 2 / 1000.0
            ph = Phases(des['_wid'])
            s, err, secs, out = run_schematic(blk, budget, ph)
            if s is None and err.startswith('no result within'):
                self.timeouts += 1
            self.tmax = max(self.tmax, secs)
            res.hist('pnr_seconds_log10', 'lt0.01' if secs < 0.01 else 'lt0.1' if secs < 0.1 else 'lt1' if secs < 1 else 'ge1')
            feat = features(des)
            abort = ' // '.join(sorted(set(l.strip()[:120] for l in out.split('\n')
                                           if l.startswith('Exception') or l.startswith('AssertionError') or 'Error:' in l or 'Error' == l.strip())))
            if s is None:
                # termination / "yields a schematic" clause
                fail_or_known(res, f'Schematic({type(blk).__name__}) gave no layout: {err}',
                              dict(stage='pnr', spec=sp, block=type(blk).__name__, error=err, feat=feat, abort=abort, kinds=[], fp_wires=[], fp_hits=[]))
                res.count(('pnr-fail', json.dumps(sp, sort_keys=True)), hist={'stream': stream})
                continue
            if self.consts is None:
                self.consts = [int(s.GRID_SIZE), int(s.CELL_MARGIN_VERTICAL), int(s.CELL_MARGIN_HORIZONTAL), int(s.NET_SPACING),
                               int(s.NET_TRACK_SPACING)]
                if min(self.consts[1:]) < 0:
                    res.disagree('place-model', dict(what='a layout constant is negative: hypothesis Cfg.NonNeg of placement_apart fails',
                                                     consts=self.consts))
            if len(s.objs) > 8000 and stream not in ('corpus', 'replay'):
                res.hist('checker_budget_skipped', f"{stream}:{len(s.objs) // 1000 * 1000}+ symbols")
                continue
            try:
                L = export_layout(s, blk, des)
            except NotExportable as e:
                res.disagree('export', dict(spec=sp, error=str(e)))
                continue
            est = 0.01 + (len(L['syms']) / 500.0) ** 2 + len(L['syms']) * len(L['nets']) / 600000.0
            left = self.budgets.setdefault(stream, self.other_budget)
            if (est > left or est > self.cap) and stream not in ('corpus', 'replay'):
                res.hist('checker_budget_skipped', f"{stream}:{len(L['syms']) // 100 * 100}+ symbols")
                continue
            self.budgets[stream] = left - est
            for l in out.split('\n'):
                if l.startswith('WARNING') and 'no source for sink' not in l:
                    res.hist('pnr_warnings', l[:40])
            self.items.append(dict(spec=sp, des=des, L=L, abort=abort, seconds=secs, stream=stream, feat=feat, block=type(blk).__name__,
                                   premise_expected=premise_expected, snap=ph.snap,
                                   pnr_warn=' '.join(l[:60] for l in out.split('\n') if l.startswith('WARNING')), premise=None))
        return top

    def run(self):
        res = self.res
        if not self.items:
            return
        lines, owner = [], []
        for n, it in enumerate(self.items):
            for tag, line in self.requests(it):
                lines.append(line)
                owner.append((n, tag))
        try:
            ans = run_driver('Drv/C18.lean', lines)
        except ToolFailure as e:
            res.broken.append(('correspondence', 'layout-checker', f'driver failed: {str(e)[:300]}'))
            # the oracle must still run: fall back to one driver call per design so that one bad line cannot hide the others
            ans = []
            n0 = 0
            while n0 < len(lines):
                n1 = n0
                while n1 < len(lines) and owner[n1][0] == owner[n0][0]:
                    n1 += 1
                try:
                    ans += run_driver('Drv/C18.lean', lines[n0:n1])
                except ToolFailure:
                    ans += ['tool'] * (n1 - n0)
                n0 = n1
        per = {}
        for (n, tag), a in zip(owner, ans):
            if isinstance(tag, tuple) and tag[0] == 'pins':
                self.pin_cache[tag[1]] = parse_pins_answer(a)
                continue
            per.setdefault(n, {})[tag] = a
        for n, it in enumerate(self.items):
            A = per.get(n, {})
            self.judge(it, A.get('chk', 'tool'), A.get('place', 'tool'))
            self.judge_phases(it, A)
            self.judge_tracks(it, A)
            self.judge_pass(it, A)
            self.judge_pins(it)
        self.items = []

    def requests(self, it):
        des, L = it['des'], it['L']
        reqs = [('chk', encode_chk(des, L)), ('place', encode_place(L, self.consts))]
        dline = ' | '.join([';'.join(_lead(i['ins']) for i in des['insts']), ';'.join(_lead(i['outs']) for i in des['insts']),
                            ','.join(str(x) for x in des['inp']), ','.join(str(x) for x in des['outp'])])
        reqs.append(('col', 'col | ' + dline))
        snap = it['snap']
        so = ';'.join(','.join(str(v) for v in e) for e in snap.get('sink_ord', []))
        wo = ';'.join(','.join(str(v) for v in e) for e in snap.get('wire_ord', []))
        if all(v >= 0 for e in snap.get('sink_ord', []) + snap.get('wire_ord', []) for v in e):
            reqs.append(('pt', 'pt | ' + dline + ' | ' + so + ' | ' + wo))
        tr = track_request(L)
        if tr is not None:
            reqs.append(('trk', tr))
        rt, it['rt_nets'] = route_request(L, self.consts)
        if rt is not None:
            reqs.append(('rt', rt))
        for sy in L['syms']:
            key = self.pin_key(sy)
            if key is not None and key not in self.pin_cache and key not in self.pin_asked:
                self.pin_asked.add(key)
                reqs.append((('pins', key), pins_request(key[0], key[1], key[2], key[3])))
        return reqs

    @staticmethod
    def pin_key(sy):
        """what the geometry of this symbol may depend on: class, instanceWidth (= getWidth for the classes that keep
        LogicSymbol.getWidth; not used by the others), port names"""
        no = PIN_CLS.get(sy['cls'])
        if no is None:
            return None
        return (no, sy['w'] if no == 0 else 0, tuple(sy['inames']), tuple(sy['onames']))

    def judge_pins(self, it):
        """model of the symbol classes vs box and pins of EVERY symbol of this layout (hypothesis `HasShape` of pinPos_injective);
        the port counts must be inside `Realizable` (hypothesis of pins_injective_realizable)"""
        res, sp = self.res, it['spec']
        for k, sy in enumerate(it['L']['syms']):
            key = self.pin_key(sy)
            if key is None:
                res.broken.append(('coverage', 'pin-model', f"symbol class {sy['cls']} has no class in the model Schem.Pins"))
                continue
            m = self.pin_cache.get(key)
            if m is None:
                res.broken.append(('correspondence', 'pin-model', f'no answer of the pin model for {key}'))
                continue
            res.cov['pin_symbols_compared'] = res.cov.get('pin_symbols_compared', 0) + 1

            def off(ps, sy=sy):
                return [None if q is None else (q[0] - sy['x'], q[1] - sy['y']) for q in ps]
            real = dict(w=sy['w'], h=sy['h'], sink=off(sy['ipins']), src=off(sy['opins']))
            model = dict(w=m['w'], h=m['h'], sink=m['sink'][:-1], src=m['src'][:-1])
            if real != model:
                res.disagree('pin-model', dict(spec=sp, what='box / pins of a symbol of a real layout', symbol=k, cls=sy['cls'],
                                               in_names=sy['inames'], out_names=sy['onames'], real=real, model=model))
            if not m['realizable'] and sy['kind'] != 6:
                res.disagree('pin-model', dict(spec=sp, what='port counts outside Shape.Realizable (hypothesis of pins_injective_realizable)',
                                               symbol=k, cls=sy['cls'], n_in=len(sy['inames']), n_out=len(sy['onames']), w=sy['w']))
            if len(set(sy['inames'])) < len(sy['inames']) or len(set(sy['onames'])) < len(sy['onames']):
                res.hist('pin_model_domain', 'repeated port names (outside Nodup)')
            elif not m['fits']:
                res.hist('pin_model_domain', f"outside Fits: {sy['cls']} {len(sy['inames'])} in / {len(sy['onames'])} out")
            elif not m['tidy']:
                res.hist('pin_model_domain', f"outside Tidy: {sy['cls']} {len(sy['inames'])} in / {len(sy['onames'])} out")
            else:
                res.hist('pin_model_domain', 'inside Fits and Tidy')

    def judge_phases(self, it, A):
        """models of the passes vs the real intermediate structures"""
        res, sp, snap, des = self.res, it['spec'], it['snap'], it['des']
        # --- columnAssignment
        a = A.get('col', 'tool')
        f = [x.strip() for x in a.split('|')]
        if len(f) != 2:
            res.broken.append(('correspondence', 'column-model', f'unexpected answer {a[:80]!r}'))
        elif 'col_matrix' not in snap:
            res.disagree('column-model', dict(spec=sp, what='columnAssignment was not called by placeAndRoute'))
        else:
            model = [[int(v) for v in row.split(',') if v.strip()] for row in f[1].split(';')] if f[1] else []
            real = snap['col_matrix']
            nexp = len(des['inp']) + len(des['insts']) + len(des['outp'])
            res.cov['column_matrices_compared'] = res.cov.get('column_matrices_compared', 0) + 1
            if snap.get('col_nobjs') != nexp or model != real:
                res.disagree('column-model', dict(spec=sp, real=real[:6], model=model[:6], nobjs=[snap.get('col_nobjs'), nexp]))
            lv = [int(v) for v in f[0].split(',') if v.strip()]
            if lv:
                res.hist('max_level', min(max(lv), 20))

    def judge_pass(self, it, A):
        """createNets and passthroughCreation: model vs the real structures right after each pass"""
        res, sp, snap = self.res, it['spec'], it['snap']
        if 'pt' not in A:
            res.hist('pass_model_skipped', it['stream'])
            return
        f = [x.strip() for x in A['pt'].split('|')]
        if len(f) != 6:
            res.broken.append(('correspondence', 'pass-model', f"unexpected answer {A['pt'][:80]!r}"))
            return

        def lists(t):
            return [[int(v) for v in row.split(',') if v.strip()] for row in t.split(';')] if t else []
        status, okk, n0 = f[0], f[1], f[2]
        if it['premise'] is False:
            res.hist('pass_model', 'outside premise (MissingConnectionSymbol): not compared')
            return
        res.cov['pass_models_compared'] = res.cov.get('pass_models_compared', 0) + 1
        if okk != '1':
            res.disagree('pass-model', dict(spec=sp, what='a recorded iteration order is not a permutation of the set the model computes',
                                            sink_ord=snap['sink_ord'][:6], wire_ord=snap['wire_ord'][:6]))
            return
        if 'nets0' not in snap or n0 == 'err' or lists(n0) != snap['nets0']:
            res.disagree('pass-model', dict(spec=sp, what='createNets', model=n0[:200], real=str(snap.get('nets0'))[:200]))
            return
        real_abort = snap.get('pt_exc') or ('passthrough' in it['pnr_warn'])
        if status.startswith('err'):
            res.hist('pass_model', status)
            if not real_abort:
                res.disagree('pass-model', dict(spec=sp, what=f'model raises {status}, the real passthroughCreation did not'))
            return
        res.hist('pass_model', 'ok')
        if real_abort:
            res.disagree('pass-model', dict(spec=sp, what='the real passthroughCreation aborted, the model did not', abort=it['abort']))
            return
        nb = len(it['des']['inp']) + len(it['des']['insts']) + len(it['des']['outp'])
        mk = [int(v) for v in f[3].split(',') if v.strip()]
        if mk != snap['pt_kinds'][nb:] or any(k != -1 for k in snap['pt_kinds'][:nb]):
            res.disagree('pass-model', dict(spec=sp, what='markers', model=mk[:20], real=snap['pt_kinds'][nb:][:20]))
        elif lists(f[4]) != snap['pt_mat']:
            res.disagree('pass-model', dict(spec=sp, what='symbol_matrix after passthroughCreation', model=lists(f[4])[:8], real=snap['pt_mat'][:8]))
        elif lists(f[5]) != snap['pt_nets']:
            m, r = lists(f[5]), snap['pt_nets']
            bad = [i for i in range(min(len(m), len(r))) if m[i] != r[i]][:3]
            res.disagree('pass-model', dict(spec=sp, what='nets after passthroughCreation', lens=[len(m), len(r)], first_bad=bad,
                                            model=[m[i] for i in bad], real=[r[i] for i in bad]))

    def judge_tracks(self, it, A):
        res, sp, L = self.res, it['spec'], it['L']
        if 'trk' in A:
            f = [x.strip() for x in A['trk'].split('|')]
            if len(f) != 2:
                res.broken.append(('correspondence', 'track-route-model', f"unexpected answer {A['trk'][:80]!r}"))
            else:
                mt = [int(v) for v in f[0].split(',') if v.strip()]
                mc = [int(v) for v in f[1].split(',') if v.strip()]
                rt_ = [(-1 if n['track'] is None else int(n['track'])) for n in L['nets']]
                res.cov['tracks_compared'] = res.cov.get('tracks_compared', 0) + len(rt_)
                if mt != rt_ or mc != L['tracks']:
                    bad = [i for i, (a, b) in enumerate(zip(mt, rt_)) if a != b][:5]
                    res.disagree('track-route-model', dict(spec=sp, what='tracks', first_bad_nets=bad, model=[mt[i] for i in bad],
                                                           real=[rt_[i] for i in bad], model_counts=mc, real_counts=L['tracks']))
        else:
            res.hist('track_model_skipped', it['stream'])
        if 'rt' in A:
            paths = A['rt'].split(';') if A['rt'].strip() else []
            idxs = it['rt_nets']
            if len(paths) != len(idxs):
                res.broken.append(('correspondence', 'track-route-model', f"route answer has {len(paths)} polylines for {len(idxs)} nets"))
            else:
                for i, ptxt in zip(idxs, paths):
                    v = [int(x) for x in ptxt.split(',') if x.strip()]
                    mp = list(zip(v[0::2], v[1::2]))
                    res.cov['polylines_compared'] = res.cov.get('polylines_compared', 0) + 1
                    if mp != [tuple(q) for q in L['nets'][i]['path']]:
                        res.disagree('track-route-model', dict(spec=sp, what='polyline', net=i, model=mp, real=L['nets'][i]['path']))
                        break

    def judge(self, it, a_chk, a_place):
        res = self.res
        des, L, sp, feat = it['des'], it['L'], it['spec'], it['feat']
        key = json.dumps(sp, sort_keys=True)
        f = [x.strip() for x in a_chk.split('|')]
        if len(f) != 3 or f[0] not in ('0', '1'):
            res.broken.append(('correspondence', 'layout-checker', f'unexpected answer {a_chk[:80]!r} for {key[:200]}'))
            return
        premise = f[0] == '1'
        it['premise'] = premise
        nerr = int(f[1])
        errs = [e for e in f[2].split(';') if e]
        kinds = sorted(set((e.split(':')[2] if e.startswith('wire:') else e.split(':')[0]) for e in errs))
        fp_wires = sorted(set(int(e.split(':')[1]) for e in errs if e.startswith('wire:') and e.endswith(':foreignPin')))
        markers = {3: 'pass', 4: 'fbStart', 5: 'fbStop'}
        hist = {'stream': it['stream'], 'insts': min(len(des['insts']), 40) // 4 * 4, 'symbols': len(L['syms']) // 10 * 10,
                'nets': len(L['nets']) // 10 * 10, 'grid_cols': len(L['mat'][0]) if L['mat'] else 0,
                'max_fanout': min(feat['max_fanout'], 12), 'premise': premise,
                'has_feedback': any(s['kind'] == 4 for s in L['syms']), 'has_passthrough': any(s['kind'] == 3 for s in L['syms'])}
        res.count(('design', key), hist=hist)
        for s in L['syms']:
            res.hist('symbol_classes', s['cls'])
        res.hist('block_classes', it['block'])
        res.sample(dict(spec=sp, block=it['block'], insts=len(des['insts']), symbols=len(L['syms']), nets=len(L['nets']),
                        grid=[len(L['mat']), len(L['mat'][0]) if L['mat'] else 0], checker_errors=nerr, premise=premise), limit=8)
        # --- placement model vs the real coordinates (T2 correspondence for replaceAsColRow)
        if L['feedback_tracks'] != 0:
            res.disagree('place-model', dict(spec=sp, what='channels carry feedback_tracks, which the model of replaceAsColRow assumes absent'))
        pf = [x.strip() for x in a_place.split('|')]
        if len(pf) == 2:
            xs = [int(v) for v in pf[0].split(',') if v.strip()]
            ys = [int(v) for v in pf[1].split(',') if v.strip()]
            for r, row in enumerate(L['mat']):
                for c, k in enumerate(row):
                    if 0 <= k < len(L['syms']):
                        sy = L['syms'][k]
                        res.cov['place_cells_compared'] = res.cov.get('place_cells_compared', 0) + 1
                        if c >= len(xs) or r >= len(ys) or (sy['x'], sy['y']) != (xs[c], ys[r]):
                            res.disagree('place-model', dict(spec=sp, cell=[r, c], real=[sy['x'], sy['y']],
                                                             model=[xs[c] if c < len(xs) else None, ys[r] if r < len(ys) else None]))
                            break
        else:
            res.broken.append(('correspondence', 'place-model', f'unexpected answer {a_place[:80]!r}'))
        # --- the oracle: the Lean checker on the REAL layout
        if not premise:
            res.hist('outside_premise', 'errors' if nerr else 'clean')
            if it['premise_expected']:
                res.hist('outside_premise_blocks', it['block'])
            return
        if nerr:
            replay = dict(stage='check', spec=sp, block=it['block'], errors=errs[:12], n_errors=nerr, kinds=kinds, fp_wires=fp_wires, feat=feat,
                          fp_hits=fp_hits(des, L, fp_wires), self_nets=sum(1 for n in L['nets'] if n['src'] == n['snk'] and n['src'] >= 0),
                          abort=it['abort'], design={k: des[k] for k in ('insts', 'inp', 'outp')},
                          symbols=[[s['cls'], s['name'], s['cell'], s['x'], s['y'], s['w'], s['h']] for s in L['syms']][:40],
                          nets=[[n['wire'], n['src'], n['sp'], n['snk'], n['tp'], n['path']] for n in L['nets']][:60],
                          rerun=f"PYTHONPATH=$PY4HW_REPO:harness /venv/bin/python harness/c18.py --replay '<this file>'")
            known = fail_or_known(res, f"layout of {it['block']} rejected by Schem.check: {', '.join(errs[:4])}", replay)
            res.hist('verdicts', 'known-finding' if known else 'VIOLATION')
        else:
            res.hist('verdicts', 'holds')


# ------------------------------------------------------------------------------------------------
def exhaustive_small(tier):
    """every netlist over {Not, And2, Reg} with <= 2 (quick) / 3 (thorough) instances, 1..2 inputs, every wiring without duplicate sinks
    and self loops (those are the known-finding classes, explored by their own streams), every node output also a block output"""
    kinds = [('Not', 1), ('And2', 2), ('Reg', 1)]
    maxn = 2 if tier == 'quick' else 3
    out = []

    import itertools
    for nin in (1, 2):
        for n in range(1, maxn + 1):
            for ks in itertools.product(kinds, repeat=n):
                srcs = [['in', i] for i in range(nin)] + [['n', j, 0] for j in range(n)]
                slots = []
                for j, (k, ni) in enumerate(ks):
                    for i in range(ni):
                        slots.append(j)
                for choice in itertools.product(range(len(srcs)), repeat=len(slots)):
                    nodes = [{'k': k, 'ni': ni, 'no': 1, 'ins': [], 'p': {'v': 0}} for k, ni in ks]
                    ok = True
                    for slot, ch in zip(slots, choice):
                        ref = srcs[ch]
                        if ref[0] == 'n':
                            if ref[1] == slot:
                                ok = False      # self loop
                                break
                            # feedback only through registers
                            if ref[1] > slot and ks[ref[1]][0] != 'Reg':
                                ok = False
                                break
                        if ref in nodes[slot]['ins']:
                            ok = False          # duplicate sink
                            break
                        nodes[slot]['ins'].append(ref)
                    if not ok:
                        continue
                    out.append({'kind': 'plan', 'w': 2, 'nin': nin, 'nfree': 0, 'nodes': nodes, 'outs': [['n', j, 0] for j in range(n)][-2:]})
    return out


def sanitize_plain(plan):
    """make a random plan fall OUTSIDE the known-finding classes: no duplicate sinks, no self loops (by redirecting the offending input
    to another source; plans that cannot be repaired are returned as None)"""
    nin = plan['nin']
    for j, nd in enumerate(plan['nodes']):
        seen = []
        for i, ref in enumerate(nd['ins']):
            bad = ref in seen or (ref[0] == 'n' and ref[1] == j)
            if bad:
                cands = [['in', q] for q in range(nin)] + [['n', q, 0] for q in range(j)]
                cands = [c for c in cands if c not in seen]
                if not cands:
                    return None
                ref = cands[(i * 7 + j) % len(cands)]
                nd['ins'][i] = ref
            seen.append(ref)
    return plan


# symbol classes that cannot occur in a layout this check judges, with the reason
NOT_DRAWN = {
    'LogicSymbol': 'base class', 'VirtualSymbol': 'base class of the markers', 'BinaryOperatorSymbol': 'base class of Add/Sub/Mul symbols',
    'InOutPortSymbol': 'blocks with inout ports are not exported (BidirWire is outside the modelled netlist)',
    'MissingConnectionSymbol': 'only for undriven wires = outside the premise (stream random-undriven: termination only)',
}
ALWAYS_DRAWN = ['InPortSymbol', 'OutPortSymbol', 'InstanceSymbol', 'PassthroughSymbol', 'FeedbackStartSymbol', 'FeedbackStopSymbol']


def symbol_class_stream(res, B):
    """one small block per logic class that has a symbol of its own (Schematic.mapping, read from the real class) and per
    optional-port variant of it, plus the multi-port classes drawn with the generic InstanceSymbol.  The symbol classes are
    enumerated from the module: a class nobody draws, or a mapped logic class without a plan, is reported.
    -> set of symbol class names that must appear in validated layouts"""
    import inspect
    import py4hw
    import py4hw.schematic_symbols as S
    from py4hw.schematic import Schematic
    try:
        hw = py4hw.HWSystem()
        a = hw.wire('a', 1)
        blk = G._Sub2(hw, 'x', a, a, hw.wire('x', 1), hw.wire('y', 1))
        with contextlib.redirect_stdout(io.StringIO()):
            Schematic(blk, placeAndRoute=False)          # fills Schematic.mapping
    except Exception as e:
        res.broken.append(('coverage', 'symbol-classes', f'cannot read Schematic.mapping: {e}'))
        return set()
    mapping = {k.__name__: v.__name__ for k, v in Schematic.mapping.items()}
    required = set(ALWAYS_DRAWN)
    for lcls, scls in sorted(mapping.items()):
        kinds = G.CLASS_KINDS.get(lcls)
        if not kinds:
            res.broken.append(('coverage', 'symbol-classes', f'logic class {lcls} is drawn with {scls} but harness/c18_designs.CLASS_KINDS has no netlist for it'))
            continue
        required.add(scls)
        for k in kinds:
            for pl in G.single_kind_plans(k):
                B.add(pl, 'symbol-classes')
    for k in G.GENERIC_KINDS:
        for pl in G.single_kind_plans(k):
            B.add(pl, 'symbol-classes')
    for name, c in inspect.getmembers(S, inspect.isclass):
        if c.__module__ != S.__name__ or not issubclass(c, S.LogicSymbol):
            continue
        if name not in required and name not in NOT_DRAWN:
            res.broken.append(('coverage', 'symbol-classes', f'symbol class {name} of schematic_symbols.py is neither mapped to a logic class '
                                                            f'nor known to this check: no netlist draws it'))
    res.cov['symbol_mapping'] = mapping
    return required


def main(res, tier, rng, replay):
    ok, metas, errors, changed = regenerate()
    for e in errors:
        res.broken.append(('translator', 'py2lean', e))
    res.proof_stage('Py4hwV.Props.C18', OBLIGATIONS)
    quick = tier == 'quick'
    B = Batch(res, tier)
    t_start = time.time()

    # ---- replay of a stored failing input
    if replay:
        body = json.load(open(replay))
        for fi in body.get('failing_inputs', []):
            B.add(fi['replay']['spec'], 'replay')
        B.run()
        return

    # ---- corpus first: witnesses of the known findings (re-derived on the real code at every run) + stored past failures
    for k in PROPOSED_FINDINGS + [k for k in load_known() if k.get('property') == 'C18']:
        if isinstance(k.get('witness'), dict) and k['witness'].get('kind') in ('lib', 'plan'):
            B.add(k['witness'], 'corpus')
    cdir = os.path.join(VERIF, 'corpus', 'C18')
    if os.path.isdir(cdir):
        for fn in sorted(os.listdir(cdir)):
            if fn.endswith('.json'):
                try:
                    B.add(json.load(open(os.path.join(cdir, fn))), 'corpus')
                except Exception as e:
                    res.hist('corpus_errors', fn)

    # ---- the model of the symbol classes against the real methods, every class x port counts up to a bound
    standin_pin_stream(res, tier)

    # ---- every symbol class of schematic_symbols.py, enumerated from the module, with every optional-port variant of its logic class
    required = symbol_class_stream(res, B)

    # ---- a monitor (Scope) with 1..6 inputs in a column crossed by pass-through chains: before /repo 0891c9c its pins hung below its box
    #      from the fourth on (theorem scope4_outside_old, finding C18-scope-pin-below-box, now FIXED: every one of these must hold)
    for n in range(1, 7):
        for v in range(2 if quick else 6):
            r = rng.fork(('scope', n, v))
            nin = max(n, 2)
            nodes = [{'k': 'Not', 'ni': 1, 'no': 1, 'ins': [['in', r.randint(0, nin - 1)]], 'p': {'v': 0}}]
            for q in range(r.randint(1, 3)):
                nodes.append({'k': 'And2', 'ni': 2, 'no': 1, 'ins': [['in', r.randint(0, nin - 1)], ['n', len(nodes) - 1, 0]], 'p': {'v': 0}})
            outs = [['n', len(nodes) - 1, 0]]
            nodes.append({'k': r.choice(['Scope', 'Waveform']), 'ni': n, 'no': 0, 'ins': [['in', q] for q in range(n)], 'p': {'v': 0}})
            B.add({'kind': 'plan', 'w': 4, 'nin': nin, 'nfree': 0, 'nodes': nodes, 'outs': outs}, 'scope-rows')

    # ---- every structural block of the library (and every structural block inside it) at sampled widths / arities
    lib = G.library_cases(rng, tier)
    lim_s = 28 if quick else 180
    t0 = time.time()
    for i, sp in enumerate(lib):
        if time.time() - t0 > lim_s:
            res.hist('library_cases_cut_by_time', len(lib) - i)
            break
        with contextlib.redirect_stdout(io.StringIO()):
            B.add(sp, 'library')
        if len(B.items) >= 2500:
            B.run()
    res.cov['library_specs'] = len(lib)

    # ---- exhaustive small netlists
    ex = exhaustive_small(tier)
    if quick:
        ex = ex[:60] + rng.fork('ex').shuffle(ex[60:])[:340]
    for sp in ex:
        B.add(sp, 'exhaustive-small')
        if len(B.items) >= 2500:
            B.run()
    res.cov['exhaustive_small_specs'] = len(ex)

    # ---- seeded random netlists outside the known-finding classes (the main failing-input search)
    n_plain = 800 if quick else 9000
    sizes = [1, 2, 3, 4, 6, 8, 10, 14] if quick else [1, 2, 3, 4, 5, 6, 8, 10, 12, 16, 20, 28, 40]
    profiles = [{}, {'fb': 40}, {'far': 90, 'fan': 60}, {'fb': 0, 'far': 0}, {'fan': 80}]
    lim_s = 25 if quick else 180
    t0 = time.time()
    for i in range(n_plain):
        if time.time() - t0 > lim_s:
            res.hist('random_cut_by_time', n_plain - i)
            break
        r = rng.fork(('plain', i))
        plan = sanitize_plain(G.random_plan(r, r.choice(sizes), dict(r.choice(profiles), self=0, free=0), exclude=G.BINOP3_KINDS))
        if plan is None:
            continue
        B.add(plan, 'random-plain')
        if len(B.items) >= 2500:
            B.run()

    # ---- the known-finding classes: duplicate sinks, self loops (still checked: anything outside the listed class is a violation)
    n_cls = 40 if quick else 400
    for i in range(n_cls):
        r = rng.fork(('dups', i))
        B.add(G.random_plan(r, r.choice(sizes[:8]), {'fan': 70, 'self': 0, 'free': 0}, exclude=G.BINOP3_KINDS), 'random-dupsink')
    for i in range(n_cls):
        r = rng.fork(('self', i))
        B.add(G.random_plan(r, r.choice(sizes[:8]), {'fan': 0, 'self': 35, 'fb': 30, 'free': 0}, exclude=G.BINOP3_KINDS), 'random-selfloop')
    # the self-loop class systematically: every kind x every (output, input) pair wired straight back, in the first instance column and
    # one column further right.  The listed finding C18-self-loop is what the UNCHANGED code does with them (feedback markers, or the
    # assertion in column 1 — after which pass-through creation stops and later self-loops are left untouched; without the assertion never a
    # net from a symbol to itself: r['self_nets'] == 0); anything else is a violation
    sl = G.self_loop_plans()
    if quick:
        multi = [pl for pl in sl if pl['nodes'][-1]['no'] >= 2]
        rest = [pl for pl in sl if pl['nodes'][-1]['no'] < 2]
        sl = multi + rng.fork('selfloop-classes').shuffle(rest)[:40]
    for pl in sl:
        B.add(pl, 'selfloop-classes')
    res.cov['selfloop_class_specs'] = len(sl)
    # Add with a carry-in (third input pin of the round symbol) among other things, otherwise outside the classes above
    got = 0
    for i in range(n_cls * 12):
        if got >= n_cls:
            break
        r = rng.fork(('binop3', i))
        plan = sanitize_plain(G.random_plan(r, r.choice(sizes[:8]), dict(r.choice(profiles), self=0, free=0)))
        if plan is None or not any(nd['k'] in G.BINOP3_KINDS for nd in plan['nodes']):
            continue
        got += 1
        B.add(plan, 'random-binop3')

    # ---- outside the premise (undriven inputs): termination only; the layout is not judged
    n_free = 25 if quick else 400
    for i in range(n_free):
        r = rng.fork(('free', i))
        B.add(G.random_plan(r, r.choice(sizes[:8]), {'free': 15, 'self': 0}), 'random-undriven', premise_expected=False)
    B.run()

    # every symbol class that can be drawn has been drawn and validated at least once in this run
    drawn = set(res.cov['histograms'].get('symbol_classes', {}))
    for cls in sorted(required - drawn):
        res.broken.append(('coverage', 'symbol-classes', f'symbol class {cls} exists in schematic_symbols.py but no validated layout of this run contains it'))
    res.cov['symbol_classes_required'] = sorted(required)
    res.cov['max_pnr_seconds'] = round(B.tmax, 3)
    res.cov['pnr_budget_seconds'] = BUDGET_S
    res.cov['rule'] = ('one case = one distinct structural block (netlist signature) whose real Schematic(obj, placeAndRoute=True) result was '
                       'exported and validated by the Lean checker Schem.check; streams: corpus (witnesses of known findings), every structural '
                       'class of py4hw.logic and every structural block nested in it at small widths/arities exhaustively and larger ones '
                       'sampled, exhaustive netlists over {Not,And2,Reg} up to 2/3 instances, seeded random netlists (fan-out, register '
                       'feedback, long forward edges, dangling ports, nested structural children, multi-output instances), the known-finding '
                       'classes, and undriven inputs (outside the premise: termination only); in parallel the model of replaceAsColRow is compared '
                       'with the real x/y of every placed symbol')
    res.assumptions += [
        'level translation_validation: every explored layout is PROVED to satisfy C18 (checker soundness is a theorem); "for all netlists" and '
        '"terminates" hold only as far as explored (wall-clock budget per design)',
        'the netlist is read from the real Logic object (children / inPorts / outPorts / wire identity); blocks with inout ports are skipped',
        'a pin position is what the symbol\'s own getPortSinkPos/getPortSourcePos reports at the final placement',
        'a wire nobody reads has nothing drawn (the code cannot draw a net with one end); the checker requires exactly that',
        'segments are axis-parallel (routeNets mode "square", the only mode placeAndRoute uses); a diagonal segment is reported as an error kind of its own',
    ]
    res.cov['trusted_base'] += ['harness/c18.py export_layout / c18_designs.export_design (identity-based export of objs, nets, symbol_matrix and of the netlist)',
                                'lean/Drv/C18.lean parser']


if __name__ == '__main__':
    main_wrapper('C18', main, level='translation_validation')
