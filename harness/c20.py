"""C20 — the hardware-in-the-loop UART command codec decodes and encodes exactly.
See DESIGN.md §5 C20, lean/Py4hwV/Proto/Hil.lean (wires + environment + spec vocabulary around the GENERATED
Gen.CMDRequest.step / Gen.CMDResponse.step) and lean/Py4hwV/Props/C20.lean.

S2 streams (all on REAL CMDRequest / CMDResponse instances inside a real HWSystem, one sim.clk(1) per cycle):
  T1            generated step functions vs the real unbound clock() methods on seeded states
  req-open      recorded (valid,c) inputs replayed through the Lean model, every state field and wire every cycle
  req-loop      the Lean producer model closed-loop vs the harness producer + real block
  req-oracle    events(observed strobe/bus wires) == concatenated meaning of the commands, clk pulses isolated
  resp-rows     real CMDResponse vs Lean model every cycle (incl. "raises ValueError" <-> none)
  resp-oracle   characters handed over on valid&ready == '=' ++ upper-case hex MSB first ++ '!', prefix while stalled,
                complete once the consumer has been ready often enough
  sys           CMDRequest.start_resp wired into CMDResponse, host-like stream with '\n' separators
  chain         the closed HIL chain as createHILUART wires it (real CMDRequest -> Reg index_out_r -> Mux pair over the output
                table -> CMDResponse, shared start_resp) with an OPEN-LOOP host (it does not wait for '!'): the gap before a later
                'O<n>?' is swept exhaustively over a window around the end of the previous response for several consumer ready
                patterns; oracle = the session monitor (Hil.monStep: a start pulse seen while nothing is owed must be answered
                completely within 2*size+4 ready cycles, any other start pulse is ignored, no other character) + the sampled
                (vin,size) at every start pulse = table[n] of the corresponding O command; rows vs the Lean chain model
  resp-session  arbitrary start/vin/size/ready sequences on a bare CMDResponse: rows vs model AND the session monitor
The specification functions (Cmd.chars / Cmd.meaning / events / response) are evaluated in Lean through Drv/C20.lean;
a direct Python transcription of the same *specification* (not of the code) is evaluated as well so that the failing
input search still runs when the Lean side does not build; the two are compared with each other on every case."""
import contextlib, io
from common import *
import t1

OBLIGATIONS = [
    # request decoder: per-state symbolic execution of the generated step (bridges), then the property theorems
    'C20.lor_shl4', 'C20.cyc2_digit', 'C20.cyc2_sep', 'C20.wait_accept', 'C20.go_accept', 'C20.go_digit', 'C20.go_hex',
    'C20.go_letter', 'C20.go_eq', 'C20.go_bang', 'C20.go_quest', 'C20.go_clk', 'C20.go_semi', 'C20.go_sep', 'C20.quiet_forever',
    'C20.hex_accumulate', 'C20.hexFold_eq', 'C20.hexVal_cons', 'C20.hex_accumulate_fold', 'C20.req_I', 'C20.req_store',
    'C20.req_O', 'C20.req_K', 'C20.req_sep', 'C20.req_cmd', 'C20.req_stream', 'C20.req_stream_forever',
    'C20.reqInv_step', 'C20.clk_high_isolated', 'C20.req_ready_iff_accepting',
    # response encoder
    'C20.nib_gen', 'C20.hexChar_gen', 'C20.resp_step', 'C20.resp_step_ok', 'C20.resp_run_inv', 'C20.resp_start',
    'C20.resp_run', 'C20.resp_prefix', 'C20.resp_complete', 'C20.resp_live', 'C20.resp_string', 'C20.resp_idle_silent',
    'C20.resp_busy_ignores_inputs', 'C20.resp_size_zero', 'C20.hexUpper_length', 'C20.hexUpper_roundtrip',
    'C20.response_unmasked',
    # sessions (arbitrary start pulses) against the specification monitor; "a start pulse seen in state 0 is always answered"
    'C20.busy_ignores', 'C20.resp_step_any', 'C20.coup_powerup', 'C20.resp_session_step', 'C20.resp_session_run', 'C20.respObs_xfers',
    'C20.resp_answered', 'C20.resp_session', 'C20.resp_query_answered',
    # the chain CMDRequest -> Reg(index_out_r) -> table -> CMDResponse
    'C20.selNext_eq', 'C20.selInv_init', 'C20.selInv_step', 'C20.chain_step_inv', 'C20.chain_run_inv', 'C20.index_out_step',
    'C20.lastSel_evOf', 'C20.index_out_tracks', 'C20.trace_eq_reqRun', 'C20.chainIns_proj', 'C20.queries_of_meaning',
    'C20.chain_any_inputs', 'C20.hil_chain_stream',
]

CMD_ALPHA = [ord(ch) for ch in 'I=OK!?;0123456789ABCDEF']
# separators / junk: outside the command alphabet, incl. the neighbours of every range bound and lower-case hex
SEP_CHARS = [10, 13, 32, 0, 255, 47, 58, 64, 71, 72, 74, 76, 78, 80, 34, 60, 62, 96, 97, 102, 103, 120, 105, 111, 107]
TAG = {'I': 0, 'V': 1, 'O': 2, 'K': 3, 'S': 4}


# ------------------------------------------------------------------------------------------------
# specification, Python transcription (hexChar / Cmd.chars / Cmd.meaning / events / response of Proto/Hil.lean)
def hex_char(d):
    return 48 + d if d < 10 else 55 + d


def hex_val(ds):
    t = 0
    for d in ds:
        t = 16 * t + d
    return t


def cmd_chars(cmd):
    k, ds = cmd
    body = [hex_char(d) for d in ds]
    if k == 'I':
        return [73] + body + [61]
    if k == 'V':
        return body + [33]
    if k == 'O':
        return [79] + body + [63]
    if k == 'K':
        return [75] + body + [59]
    return [ds[0]]


def cmd_meaning(cfg, cmd):
    k, ds = cmd
    if k == 'I':
        return [f'selIn:{hex_val(ds) % (1 << cfg[0])}']
    if k == 'V':
        return [f'store:{hex_val(ds) % (1 << cfg[1])}']
    if k == 'O':
        return [f'selOut:{hex_val(ds) % (1 << cfg[2])}', 'startResp']
    if k == 'K':
        return ['clk'] * hex_val(ds)
    return []


def events_of(rows, limit=None):
    """limit: stop after this many events (a strobe stuck high must not build an unbounded list)"""
    ev = []
    for r in rows:
        if limit is not None and len(ev) > limit:
            break
        rdy, sii, sv, sio, iin, sr, vin, iout, cp = r
        if sii:
            ev.append(f'selIn:{iin}')
        if sv:
            ev.append(f'store:{vin}')
        if sio:
            ev.append(f'selOut:{iout}')
        if sr:
            ev.append('startResp')
        if cp:
            ev.append('clk')
    return ev


def response_spec(wv, s, v):
    return [c % (1 << wv) for c in [61] + [hex_char((v >> (4 * i)) & 15) for i in range(s - 1, -1, -1)] + [33]]


def cmd_str(cmd):
    return ''.join(chr(c) if 32 <= c < 127 else f'\\x{c:02x}' for c in cmd_chars(cmd))


# ------------------------------------------------------------------------------------------------
# real blocks
def _mods():
    import py4hw
    from py4hw.emulation import HILWrapperUART as H
    return py4hw, H


class RealReq:
    def __init__(self, cfg, cw=8, with_resp=None):
        py4hw, H = _mods()
        s = py4hw.HWSystem()
        self.ready, self.valid, self.c = s.wire('ready'), s.wire('valid'), s.wire('c', cw)
        self.index_in, self.v_in, self.index_out = s.wire('index_in', cfg[0]), s.wire('v_in', cfg[1]), s.wire('index_out', cfg[2])
        self.sii, self.sv, self.sio = s.wire('set_index_in'), s.wire('set_v_in'), s.wire('set_index_out')
        self.clkp, self.sr = s.wire('clk_pulse'), s.wire('start_resp')
        self.req = H.CMDRequest(s, 'req', self.ready, self.valid, self.c, self.index_in, self.v_in, self.index_out,
                                self.sii, self.sv, self.sio, self.clkp, self.sr)
        self.resp = None
        if with_resp is not None:
            wv, wvin = with_resp
            self.vin, self.size, self.rr = s.wire('vin', wvin), s.wire('size', 8), s.wire('rr')
            self.rv, self.rc = s.wire('rv'), s.wire('rc', wv)
            self.resp = H.CMDResponse(s, 'resp', self.vin, self.size, self.sr, self.rr, self.rv, self.rc)
        self.sim = s.getSimulator()

    def wires(self):
        return [self.ready.get(), self.sii.get(), self.sv.get(), self.sio.get(), self.index_in.get(), self.sr.get(),
                self.v_in.get(), self.index_out.get(), self.clkp.get()]

    def row(self):
        q = self.req
        return [q.cur_type, q.new_c, q.state, q.temp] + self.wires()

    def resp_row(self):
        q = self.resp
        return [q.aux, q.state, q.temp, q.temp_size, self.rv.get(), self.rc.get()]


class RealResp:
    def __init__(self, wv, wvin, wsize=8):
        py4hw, H = _mods()
        s = py4hw.HWSystem()
        self.vin, self.size, self.sr, self.rr = s.wire('vin', wvin), s.wire('size', wsize), s.wire('sr'), s.wire('rr')
        self.rv, self.rc = s.wire('rv'), s.wire('rc', wv)
        self.resp = H.CMDResponse(s, 'resp', self.vin, self.size, self.sr, self.rr, self.rv, self.rc)
        self.sim = s.getSimulator()

    def row(self):
        q = self.resp
        return [q.aux, q.state, q.temp, q.temp_size, self.rv.get(), self.rc.get()]


class Monitor:
    """Python transcription of the SPECIFICATION monitor Hil.monStep (Proto/HilChain.lean), not of the code: `pend` = characters
    still owed to the consumer ([] = nothing in flight: a start pulse must be accepted now), `bud` = ready cycles left."""

    def __init__(self, wv):
        self.wv, self.pend, self.bud, self.accepted = wv, [], 0, []

    def step(self, start, vin, size, ready, x):
        """x = list of characters handed over at this edge. returns None or the violated clause"""
        if not self.pend:
            if x:
                return 'a character was handed over although no response is owed'
            if start:
                self.pend, self.bud = response_spec(self.wv, size, vin), 2 * size + 4
                self.accepted.append((vin, size))
            return None
        bud = max(self.bud - (1 if ready else 0), 0)
        if not x:
            if bud == 0:
                return 'a start pulse seen by the idle encoder was not answered completely within 2*size+4 ready cycles'
            self.bud = bud
            return None
        if x == [self.pend[0]]:
            if self.pend[1:] and bud == 0:
                return 'a start pulse seen by the idle encoder was not answered completely within 2*size+4 ready cycles'
            self.pend, self.bud = self.pend[1:], bud
            return None
        return 'the character handed over is not the next character of the owed response'


def monitor_run(wv, obs):
    """obs: list of (start, vin, size, ready, x) with x = -1 or the character. returns (first bad cycle or None, clause, monitor)"""
    m = Monitor(wv)
    m.accepted_at = []
    for t, (st, vin, sz, rd, x) in enumerate(obs):
        if st and not m.pend:
            m.accepted_at.append(t)
        e = m.step(st, vin, sz, rd, [] if x < 0 else [x])
        if e:
            return t, e, m
    return None, None, m


class RealChain:
    """the chain of createHILUART: CMDRequest -> Reg(index_out_r, enable=set_index_out) -> Mux(resp_v) / Mux(resp_size) over the
    output table (Constants) -> CMDResponse, start_resp shared. All blocks are the real py4hw ones."""

    def __init__(self, cfg, wv, table, sizes):
        py4hw, H = _mods()
        s = py4hw.HWSystem()
        self.ready, self.valid, self.c = s.wire('ready'), s.wire('valid'), s.wire('c', 8)
        self.index_in, self.v_in, self.index_out = s.wire('index_in', cfg[0]), s.wire('v_in', cfg[1]), s.wire('index_out', cfg[2])
        self.sii, self.sv, self.sio = s.wire('set_index_in'), s.wire('set_v_in'), s.wire('set_index_out')
        self.clkp, self.sr = s.wire('clk_pulse'), s.wire('start_resp')
        self.req = H.CMDRequest(s, 'req', self.ready, self.valid, self.c, self.index_in, self.v_in, self.index_out,
                                self.sii, self.sv, self.sio, self.clkp, self.sr)
        self.sel = s.wire('index_out_r', cfg[2])
        py4hw.Reg(s, 'index_out_r', d=self.index_out, enable=self.sio, q=self.sel)
        nout = 1 << cfg[2]
        reg_out, size_out = s.wires('reg_out', nout, 32), s.wires('size_out', nout, 8)
        for i in range(nout):
            py4hw.Constant(s, f'out_{i}', table[i], reg_out[i])
            py4hw.Constant(s, f'out_size{i}', sizes[i], size_out[i])
        self.vin, self.size = s.wire('resp_v', 32), s.wire('resp_size', 8)
        py4hw.Mux(s, 'resp_v', self.sel, reg_out, self.vin)
        py4hw.Mux(s, 'resp_size', self.sel, size_out, self.size)
        self.rr, self.rv, self.rc = s.wire('rr'), s.wire('rv'), s.wire('rc', wv)
        self.resp = H.CMDResponse(s, 'resp', self.vin, self.size, self.sr, self.rr, self.rv, self.rc)
        self.sim = s.getSimulator()

    def row(self):
        q, p = self.req, self.resp
        return [q.cur_type, q.new_c, q.state, q.temp, self.ready.get(), self.sii.get(), self.sv.get(), self.sio.get(),
                self.index_in.get(), self.sr.get(), self.v_in.get(), self.index_out.get(), self.clkp.get(),
                self.sel.get(), p.aux, p.state, p.temp, p.temp_size, self.rv.get(), self.rc.get()]


class Producer:
    """holds valid and the character until the edge at which ready is 1; junk on c while idle"""

    def __init__(self, items):
        self.items = [(list(j), ch) for j, ch in items]

    def out(self):
        if not self.items:
            return (0, 0)
        j, ch = self.items[0]
        return (0, j[0]) if j else (1, ch)

    def next(self, ready):
        if not self.items:
            return
        j, ch = self.items[0]
        if j:
            j.pop(0)
        elif ready:
            self.items.pop(0)


def cycle_budget(items, cmds=None):
    """upper bound on the cycles a correct decoder needs for this stream, with slack: a character costs at most its idle gap + 3
    cycles (state 0, accept, state 2); command tails: '=' '!' 2, '?' 4, ';' 2n+2, other 1. Everything beyond the budget is a stall."""
    b = sum(len(j) + 4 for j, _ in items) + 64
    if cmds is not None:
        b += sum(6 + (2 * hex_val(ds) if k == 'K' else 0) for k, ds in cmds)
    return b


def run_req_real(cfg, items, tail, cap):
    """bounded by `cap` cycles. returns (inputs, rows, leftover characters, info) with info = dict(handshakes, captures,
    bad_capture = first cycle in which a character was captured without valid&ready (or a handshake was not captured),
    last_handshake = cycle of the last valid&ready edge, stalled = budget exhausted before the stream was through)"""
    R = RealReq(cfg)
    P = Producer(items)
    ins, rows = [], []
    idle = 0
    info = dict(handshakes=0, captures=0, bad_capture=None, last_handshake=None, stalled=False)
    while idle < tail:
        if len(rows) >= cap:
            info['stalled'] = True
            break
        v, c = P.out()
        R.valid.put(v)
        R.c.put(c)
        rdy = R.ready.get()
        pre = R.req.state
        with contextlib.redirect_stdout(io.StringIO()):
            R.sim.clk(1)
        P.next(rdy)
        hs = bool(v and rdy)
        cap_ = (pre == 1 and R.req.state == 2)        # READY -> CONSUME CHAR: the decoder took what is on `c`
        info['handshakes'] += hs
        info['captures'] += cap_
        if hs:
            info['last_handshake'] = len(rows)
        if hs != cap_ and info['bad_capture'] is None:
            info['bad_capture'] = len(rows)
        ins.append((v, c))
        rows.append(R.row())
        if not P.items and R.req.state == 1:
            idle += 1
    return ins, rows, len(P.items), info


MAX_RECORDED = 60


def rdis(res, stream, detail):
    """res.disagree with a cap on the number of recorded details"""
    res.hist('disagreements', stream[:40])
    if sum(1 for b in res.broken if b[0] == 'correspondence') < MAX_RECORDED:
        res.disagree(stream, detail)


def rfail(res, what, rp):
    """res.fail with a cap on the number of recorded replays (a broken decoder fails thousands of cases)"""
    res.hist('oracle_failures', what[:60])
    if len(res.failures) < MAX_RECORDED:
        res.fail(what, rp)


# ------------------------------------------------------------------------------------------------
# generators
def gen_digits(r, maxlen):
    k = r.choice([0, 1, 1, 2, 2, 3, 4, 8, 9, maxlen])
    k = min(k, maxlen)
    mode = r.randint(0, 5)
    if mode == 0:
        return [15] * k
    if mode == 1:
        return [0] * k
    if mode == 2:
        return [0] * (k // 2) + [r.randint(0, 15) for _ in range(k - k // 2)]
    return [r.randint(0, 15) for _ in range(k)]


def gen_cmd(r, kmax, maxlen):
    k = r.choice(['I', 'V', 'O', 'K', 'K', 'S'])
    if k == 'S':
        return ('S', [r.choice(SEP_CHARS)])
    if k == 'K':
        n = r.choice([0, 1, 2, 3, r.randint(0, kmax), r.randint(0, kmax)])
        ds = [int(ch, 16) for ch in f'{n:X}']
        if r.chance(1, 3):
            ds = [0] * r.randint(0, 3) + ds
        if n == 0 and r.chance(1, 2):
            ds = []
        return ('K', ds)
    return (k, gen_digits(r, maxlen))


def gen_gaps(r, chars):
    mode = r.randint(0, 4)
    items = []
    for ch in chars:
        if mode == 0:
            g = 0
        elif mode == 1:
            g = r.randint(0, 2)
        elif mode == 2:
            g = r.choice([0, 0, 0, 7, 15])
        else:
            g = r.randint(0, 6)
        # junk shown while idle: command characters on purpose (must be ignored while valid = 0)
        items.append(([r.choice(CMD_ALPHA + [0, 255]) for _ in range(g)], ch))
    return items


def enc_items(items):
    return ';'.join(','.join(str(x) for x in [ch] + list(j)) for j, ch in items)


def enc_cmds(cmds):
    return ';'.join(','.join(str(x) for x in [TAG[k]] + list(ds)) for k, ds in cmds)


# ------------------------------------------------------------------------------------------------
def req_stream(res, tier, rng, driver_ok):
    cases = []
    nrand = 250 if tier == 'quick' else 12000
    kmax = 40 if tier == 'quick' else 300
    # exhaustive small: every command kind x every digit string of length <= 2 (quick: <= 1 plus a slice of length 2),
    # embedded between two other commands, no gaps and a fixed gap pattern
    small = [[]] + [[a] for a in range(16)]
    two = [[a, b] for a in range(16) for b in range(16)]
    small += two if tier != 'quick' else [two[i] for i in range(0, 256, 5)]
    for kind in 'IVOK':
        for ds in small:
            cmds = [('V', [3]), (kind, ds), ('S', [10]), ('I', [1])]
            cases.append(dict(cfg=(4, 8, 3), cmds=cmds, gaps='none', kind='exh'))
    for sc in SEP_CHARS + list(range(256) if tier != 'quick' else range(0, 256, 7)):
        if sc in CMD_ALPHA:
            continue
        cases.append(dict(cfg=(4, 8, 3), cmds=[('I', [2]), ('S', [sc]), ('V', [1, 2]), ('S', [sc]), ('K', [2])], gaps='none', kind='exh-sep'))
    # exhaustive gap patterns on a short stream
    base = [('O', [10]), ('K', [2])]
    nch = sum(len(cmd_chars(c)) for c in base)
    gapset = [0, 1, 3]
    tot = len(gapset) ** nch
    step = 1 if tier != 'quick' else 9
    for code in range(0, tot, step):
        g, x = [], code
        for _ in range(nch):
            g.append(gapset[x % 3])
            x //= 3
        cases.append(dict(cfg=(4, 8, 3), cmds=base, gaps=g, kind='exh-gaps'))
    for i in range(nrand):
        r = rng.fork(('req', i))
        cfg = (r.randint(1, 8), r.choice([1, 4, 8, 16, 31, 32, 33, 64]), r.randint(1, 8))
        n = r.randint(1, 8)
        cmds = [gen_cmd(r, kmax, 20) for _ in range(n)]
        cases.append(dict(cfg=cfg, cmds=cmds, gaps='rand', kind='rand', r=r))
    # malformed streams: correspondence only
    nmal = 100 if tier == 'quick' else 2000
    for i in range(nmal):
        r = rng.fork(('mal', i))
        cfg = (r.randint(1, 8), r.choice([1, 8, 32, 64]), r.randint(1, 8))
        n = r.randint(1, 40)
        chars = [r.choice(CMD_ALPHA + CMD_ALPHA + SEP_CHARS) if not r.chance(1, 10) else r.randint(0, 255) for _ in range(n)]
        # keep K bursts short: a ';' after many digits would pulse for ages
        cases.append(dict(cfg=cfg, chars=chars, gaps='rand', kind='malformed', r=r))
    lines, infos = [], []
    def flush():
        if not (driver_ok and lines):
            return
        outs = run_driver('Drv/C20.lean', lines)
        for (kind, rp, dat), ans in zip(infos, outs):
            res.cov['disagreements_checked'] += 1
            if kind == 'open':
                want = ';'.join(','.join(str(x) for x in rw) for rw in dat)
                if ans.strip() != want:
                    rdis(res, 'req-open', dict(rp, first_diff=_first_diff(ans.strip().split(';'), want.split(';'))))
            elif kind == 'loop':
                rows, left = dat
                want = ';'.join(','.join(str(x) for x in rw) for rw in rows) + f' | {left}'
                if ans.strip() != want:
                    rdis(res, 'req-loop', dict(rp, first_diff=_first_diff(ans.split('|')[0].strip().split(';'), want.split('|')[0].strip().split(';'))))
            else:
                chars, exp, obs, iso = dat
                f = [x.strip() for x in ans.split('|')]
                want = ['1', ','.join(str(x) for x in chars), ','.join(exp), ','.join(obs), '1' if iso else '0']
                if len(obs) > len(exp) + 64:      # observed event list was capped (already an oracle failure): compare the prefix
                    f[3] = ','.join(f[3].split(',')[:len(obs)])
                if f != want:
                    rdis(res, 'req-spec(lean spec vs python transcription of the spec)', dict(rp, lean=f, python=want))
                # f[2] != f[3] (meaning vs observed events) is the oracle failure already reported through res.fail above
        del lines[:]
        del infos[:]

    for cs in cases:
        if len(res.failures) >= MAX_RECORDED:
            res.notes.append('req_stream cut short: 60 failing inputs already recorded')
            break
        cfg = cs['cfg']
        if 'cmds' in cs:
            chars = [c for cmd in cs['cmds'] for c in cmd_chars(cmd)]
        else:
            chars = cs['chars']
        if cs['gaps'] == 'none':
            items = [([], ch) for ch in chars]
        elif cs['gaps'] == 'rand':
            items = gen_gaps(cs['r'], chars)
        else:
            items = [([0] * g, ch) for g, ch in zip(cs['gaps'], chars)]
        # every simulation is bounded: well-formed streams by the budget a correct decoder needs (+ slack), malformed ones by a
        # fixed cap (a ';' after many digits may legitimately pulse for longer: truncated, model and code see the same cycles)
        cap = cycle_budget(items) + 600 if cs['kind'] == 'malformed' else cycle_budget(items, cs['cmds'])
        ins, rows, left, info = run_req_real(cfg, items, tail=3, cap=cap)
        key = (cs['kind'], cfg, tuple(chars), tuple(len(j) for j, _ in items))
        res.count(key, hist={'req_kind': cs['kind'], 'req_cycles': min(len(rows) // 50 * 50, 1000)})
        for rw in rows:
            res.hist('req_state_visited', rw[2])
        for c in chars:
            res.hist('req_char_class', chr(c) if c in CMD_ALPHA else 'other')
        wrows = [rw[4:] for rw in rows]
        rp = dict(stream='req', cfg=list(cfg), chars=chars, text=''.join(chr(c) if 32 <= c < 127 else '.' for c in chars),
                  gaps=[len(j) for j, _ in items], cycles=len(rows), handshakes=info['handshakes'], captures=info['captures'])
        # ---- handshake clause (all streams, malformed included): a character is consumed only in a cycle with valid & ready,
        #      and every such cycle consumes one (count of captures = count of handshakes)
        if info['bad_capture'] is not None:
            t = info['bad_capture']
            rfail(res, 'the decoder accepted a character without a ready/valid handshake (or ignored a handshake)',
                  dict(rp, cycle=t, valid_c=list(ins[t]), ready_before_edge=(wrows[t - 1][0] if t else 0),
                       state_after=rows[t][2]))
        if 'cmds' in cs:
            rp['cmds'] = [cmd_str(c) for c in cs['cmds']]
            # ---- the property's oracle on the implementation (python transcription of the spec)
            exp = [e for cmd in cs['cmds'] for e in cmd_meaning(cfg, cmd)]
            obs = events_of(wrows, limit=len(exp) + 64)
            if left or info['stalled']:
                rfail(res, 'the decoder stopped accepting characters (stream stalled within the cycle budget)',
                      dict(rp, characters_left=left, next_char=(chars[len(chars) - left] if left else None),
                           stalled_after_cycle=info['last_handshake'], budget=cap, expected=exp[:60], observed=obs[:60]))
            elif obs != exp:
                rfail(res, 'decoded strobe events differ from the meaning of the command stream',
                      dict(rp, expected=exp[:60], observed=obs[:60]))
            for a, b in zip(wrows, wrows[1:]):
                if a[8] and b[8]:
                    rfail(res, 'clk_pulse high in two consecutive cycles', rp)
                    break
            if any(rw[0] != (1 if st[2] == 1 else 0) for rw, st in zip(wrows, rows)):
                rfail(res, 'ready is not high exactly in the accepting state', rp)
            for cmd in cs['cmds']:
                res.hist('req_cmd_kind', cmd[0])
                if cmd[0] != 'S':
                    res.hist('req_digits', len(cmd[1]))
            if len(res.cov['samples']) < 4:
                res.sample(dict(rp, events=obs[:12]))
        if driver_ok:
            c = ','.join(str(x) for x in cfg)
            lines.append(f"req | {c} | {';'.join(f'{v},{ch}' for v, ch in ins)}")
            infos.append(('open', rp, rows))
            lines.append(f'reqloop | {c} | {len(rows)} | {enc_items(items)}')
            infos.append(('loop', rp, (rows, left)))
            if 'cmds' in cs:
                lines.append(f"reqspec | {c} | {enc_cmds(cs['cmds'])} | {';'.join(','.join(str(x) for x in w) for w in wrows)}")
                iso = all(not (a[8] and b[8]) for a, b in zip(wrows, wrows[1:]))
                infos.append(('spec', rp, (chars, exp, obs, iso)))
            if len(lines) >= 1500:
                flush()
    flush()


def _first_diff(a, b):
    for i, (x, y) in enumerate(zip(a, b)):
        if x != y:
            return dict(cycle=i, model=x, real=y)
    return dict(cycle=min(len(a), len(b)), model=f'len {len(a)}', real=f'len {len(b)}')


# ------------------------------------------------------------------------------------------------
def fail_resp(res, what, rp):
    """size 0 used to be the known finding C20-resp-size-zero (fixed in /repo 21add98): a failure there is a recurrence and
    must be a VIOLATION, so it bypasses the known-findings matching whatever status known_findings.json still carries"""
    res.hist('oracle_failures', what[:60])
    if len(res.failures) >= MAX_RECORDED:
        return
    if rp.get('size') == 0:
        res.failures.append({'what': what + ' [recurrence of C20-resp-size-zero, fixed in 21add98]', 'replay': rp})
    else:
        res.fail(what, rp)


def run_resp_real(wv, wvin, ins, obs=None):
    """ins: list of (start, vin, size, ready). returns (rows, transfers, raised_at); obs (optional list) receives, per cycle, the
    observation (start, vin, size, ready, x) at the ports before the edge, x = character handed over at this edge or -1"""
    R = RealResp(wv, wvin)
    rows, tr = [], []
    for t, (st, vin, sz, rdy) in enumerate(ins):
        R.sr.put(st)
        R.vin.put(vin)
        R.size.put(sz)
        R.rr.put(rdy)
        if R.rv.get() and R.rr.get():
            tr.append(R.rc.get())
        if obs is not None:
            obs.append((R.sr.get(), R.vin.get(), R.size.get(), R.rr.get(), R.rc.get() if (R.rv.get() and R.rr.get()) else -1))
        try:
            with contextlib.redirect_stdout(io.StringIO()):
                R.sim.clk(1)
        except ValueError:
            _mods()[0].Wire.prepared = []
            return rows, tr, t
        rows.append(R.row())
    return rows, tr, None


def ready_pattern(r, n):
    mode = r.randint(0, 6)
    if mode == 0:
        return [1] * n
    if mode == 1:
        return [t % 2 for t in range(n)]
    if mode == 2:
        k = r.randint(2, 9)
        return [1 if t % k == k - 1 else 0 for t in range(n)]
    if mode == 3:
        return [1 if r.chance(1, 5) else 0 for _ in range(n)]
    if mode == 4:
        return [0 if r.chance(1, 5) else 1 for _ in range(n)]
    return [r.randint(0, 1) for _ in range(n)]


def resp_stream(res, tier, rng, driver_ok):
    cases = []
    # exhaustive: every ready pattern of a fixed length for s = 1; every value for s <= 2 with two pacings
    L = 9 if tier == 'quick' else 13
    for v in ([0x0, 0x9, 0xA, 0xF] if tier == 'quick' else range(16)):
        for code in range(1 << L):
            rd = [(code >> t) & 1 for t in range(L)]
            cases.append(dict(wv=8, wvin=8, s=1, v=v, ready=rd, kind='exh-ready'))
            if v == 0:
                cases.append(dict(wv=8, wvin=8, s=0, v=5, ready=rd, kind='exh-ready'))
    for s, vs in ((0, [0, 5, 255]), (1, range(16)), (2, range(256)), (3, range(0, 4096, 1 if tier != 'quick' else 13))):
        for v in vs:
            for rd in ([1] * (2 * s + 6), [t % 2 for t in range(4 * s + 12)], [0, 1, 1, 0] * (s + 3)):
                cases.append(dict(wv=8, wvin=12, s=s, v=v, ready=rd, kind='exh-value'))
    nrand = 400 if tier == 'quick' else 25000
    for i in range(nrand):
        r = rng.fork(('resp', i))
        wvin = r.choice([1, 4, 8, 16, 32, 32, 33, 64, 80])
        s = r.choice([0, 1, 1, 2, 3, 4, 8, 8, 9, 16, 17, r.randint(0, 40)])
        v = r.bits(wvin)
        wv = r.choice([8, 8, 8, 7, 9, 6, 4, 1])
        n = r.choice([2 * s + 4, 3 * s + 8, 6 * s + 20, r.randint(1, 2 * s + 4)])
        cases.append(dict(wv=wv, wvin=wvin, s=s, v=v, ready=ready_pattern(r, n), kind='rand', r=r))
    # sessions: several responses in a row, junk on start/vin/size while busy (correspondence only)
    nsess = 60 if tier == 'quick' else 1500
    for i in range(nsess):
        r = rng.fork(('sess', i))
        wvin = r.choice([8, 32, 64])
        n = r.randint(10, 120)
        ins = [(1 if r.chance(1, 4) else 0, r.bits(wvin), r.choice([0, 1, 1, 2, 3, 4, 8, 255]) if r.chance(1, 8) else r.randint(1, 6), r.randint(0, 1))
               for _ in range(n)]
        cases.append(dict(wv=8, wvin=wvin, ins=ins, kind='session'))
    lines, infos = [], []
    def flush():
        if not (driver_ok and lines):
            return
        outs = run_driver('Drv/C20.lean', lines)
        for (kind, rp, dat), ans in zip(infos, outs):
            res.cov['disagreements_checked'] += 1
            if kind == 'rows':
                rows, tr, raised = dat
                want_rows = [','.join(str(x) for x in rw) for rw in rows] + (['raise'] if raised is not None else [])
                want_tr = 'raise' if raised is not None else ','.join(str(x) for x in tr)
                f = [x.strip() for x in ans.split('|')]
                got_rows = f[0].split(';') if f[0] else []
                if got_rows != want_rows:
                    rdis(res, 'resp-rows', dict(rp, first_diff=_first_diff(got_rows, want_rows)))
                elif f[1] != want_tr:
                    rdis(res, 'resp-transfers', dict(rp, model=f[1], real=want_tr))
            elif kind == 'mon':
                bad, m = dat
                f = [x.strip() for x in ans.split('|')]
                want = ['ok' if bad is None else f'viol,{bad}', str(len(m.pend)), str(m.bud), ';'.join(f'{a},{b}' for a, b in m.accepted)]
                if f != want:
                    rdis(res, 'monitor(lean spec vs python transcription of the spec)', dict(rp, lean=f, python=want))
            else:
                if ans.strip() != ','.join(str(x) for x in dat):
                    rdis(res, 'resp-spec(lean spec vs python transcription of the spec)', dict(rp, lean=ans, python=dat))
        del lines[:]
        del infos[:]

    for cs in cases:
        if len(res.failures) >= MAX_RECORDED:
            res.notes.append('resp_stream cut short: 60 failing inputs already recorded')
            break
        wv, wvin = cs['wv'], cs['wvin']
        if 'ins' in cs:
            ins = cs['ins']
        else:
            r = cs.get('r')
            ins = [(1, cs['v'], cs['s'], r.randint(0, 1) if r else 1)]
            for rd in cs['ready']:
                # vin/size junk while busy; start stays 0 (one-cycle pulse from CMDRequest)
                ins.append((0, r.bits(wvin) if r else 0, r.randint(0, 255) if r else 0, rd))
        sobs = [] if 'ins' in cs else None
        rows, tr, raised = run_resp_real(wv, wvin, ins, sobs)
        res.count(('resp', cs['kind'], wv, wvin, tuple(ins)), hist={'resp_kind': cs['kind']})
        for rw in rows:
            res.hist('resp_state_visited', rw[1])
        if raised is not None:
            res.hist('resp_raises', 'ValueError')
        if 's' in cs:
            s, v = cs['s'], cs['v']
            res.hist('resp_digits', s if s <= 9 else '10+')
            res.hist('resp_wv', wv)
            exp = response_spec(wv, s, v)
            ones = sum(1 for x in cs['ready'] if x)
            rp = dict(stream='resp', wv=wv, wvin=wvin, size=s, v=v, ready=''.join(str(x) for x in cs['ready']),
                      expected=exp, observed=tr, text=''.join(chr(c) for c in tr))
            done = raised is None and rows and rows[-1][1] == 0
            if raised is not None:
                fail_resp(res, 'CMDResponse.clock raised ValueError', dict(rp, raised_at=raised))
            elif tr != exp[:len(tr)]:
                fail_resp(res, 'response characters are not a prefix of "=" ++ hex digits MSB first ++ "!"', rp)
            elif done and tr != exp:
                fail_resp(res, 'encoder returned to idle without sending the whole response', rp)
            elif ones >= 2 * s + 4 and not (done and tr == exp):
                fail_resp(res, 'consumer was ready 2s+4 times but the response is incomplete', rp)
            res.hist('resp_outcome', 'complete' if done else 'stalled')
            if len(res.cov['samples']) < 8 and cs['kind'] == 'rand':
                res.sample(rp)
        else:
            # sessions: ARBITRARY start/vin/size/ready sequences -- the specification monitor (Hil.monStep; C20.resp_session) decides
            # which start pulses must be answered (those seen while nothing is owed) and checks every handed-over character
            rp = dict(stream='resp-session', wv=wv, wvin=wvin, ins=ins, observed=tr, text=''.join(chr(c) if 32 <= c < 127 else '.' for c in tr))
            bad, clause, m = monitor_run(wv, sobs)
            res.hist('session_accepted_starts', min(len(m.accepted), 9))
            if raised is not None:
                fail_resp(res, 'CMDResponse.clock raised ValueError (session)', dict(rp, raised_at=raised))
            elif bad is not None:
                exp_all = [c for vin, sz in m.accepted for c in response_spec(wv, sz, vin)]
                fail_resp(res, 'session: ' + clause, dict(rp, cycle=bad, accepted_starts=[list(a) for a in m.accepted], accepted_at=m.accepted_at,
                                                      expected=exp_all, expected_text=''.join(chr(c) if 32 <= c < 127 else '.' for c in exp_all)))
            if driver_ok:
                lines.append(f"respmon | {wv} | {';'.join(','.join(str(x) for x in o) for o in sobs)}")
                infos.append(('mon', rp, (bad, m)))
        if driver_ok:
            lines.append(f"resp | {wv} | 0,0,0,0,0,0 | {';'.join(','.join(str(x) for x in i) for i in ins)}")
            infos.append(('rows', rp, (rows, tr, raised)))
            if 's' in cs:
                lines.append(f"respspec | {wv},{cs['s']},{cs['v']}")
                infos.append(('spec', rp, exp))
            if len(lines) >= 20000:
                flush()
    flush()


def size_zero_witness(res):
    """regression test for the former finding C20-resp-size-zero (fixed in /repo 21add98; Lean: C20.resp_size_zero): start=1, vin=5,
    size=0 must send "=!" and return to idle; before the fix CMDResponse.clock raised ValueError at cycle 2. Recurrence = VIOLATION."""
    ins = [(1, 5, 0, 1)] + [(0, 0, 0, 1)] * 6
    rows, tr, raised = run_resp_real(8, 8, ins)
    rp = dict(stream='resp', wv=8, wvin=8, size=0, v=5, ready='111111', expected=response_spec(8, 0, 5), observed=tr, raised_at=raised)
    bad = raised is not None or tr != rp['expected'] or not rows or rows[-1][1] != 0
    res.count(('size-zero-regression',), hist={'size_zero_regression': 'FAILS' if bad else 'passes'})
    if bad:
        fail_resp(res, 'CMDResponse with size 0 does not send "=!" (raised ValueError before 21add98)', rp)
    return rp


# ------------------------------------------------------------------------------------------------
def sys_stream(res, tier, rng, driver_ok):
    """CMDRequest.start_resp wired into CMDResponse; host-like stream 'I<i>=<v>!\\n' / 'O<i>?\\n' / 'K<n>;' where the host
    waits for '!' after every O command (as DUTProxy.propagate does); vin = table[index_out], size = digits[index_out]"""
    n = 40 if tier == 'quick' else 2000
    lines, infos = [], []
    def flush():
        if not (driver_ok and lines):
            return
        outs = run_driver('Drv/C20.lean', lines)
        for (kind, rp, rows), ans in zip(infos, outs):
            res.cov['disagreements_checked'] += 1
            got = ans.split('|')[0].strip().split(';')
            want = [','.join(str(x) for x in rw) for rw in rows]
            if got != want:
                rdis(res, 'sys-' + kind, dict(rp, first_diff=_first_diff(got, want)))
        del lines[:]
        del infos[:]

    for i in range(n):
        if len(res.failures) >= MAX_RECORDED:
            res.notes.append('sys_stream cut short: 60 failing inputs already recorded')
            break
        r = rng.fork(('sys', i))
        cfg = (r.randint(1, 4), 32, r.randint(1, 3))
        wv, wvin = 8, 32
        R = RealReq(cfg, with_resp=(wv, wvin))
        nout = 1 << cfg[2]
        table = [r.bits(32) for _ in range(nout)]
        sizes = [r.randint(1, 8) for _ in range(nout)]
        cmds = []
        for _ in range(r.randint(1, 6)):
            k = r.choice(['I', 'O', 'O', 'K'])
            if k == 'I':
                cmds += [('I', [int(ch, 16) for ch in f'{r.randint(0, 15):X}']), ('V', [int(ch, 16) for ch in f'{r.bits(32):X}']), ('S', [10])]
            elif k == 'O':
                cmds += [('O', [int(ch, 16) for ch in f'{r.randint(0, nout - 1):X}']), ('S', [10])]
            else:
                cmds += [('K', [int(ch, 16) for ch in f'{r.randint(0, 6):X}'])]
        queue = [(cmd, ch) for cmd in cmds for ch in cmd_chars(cmd)]
        gapmax = r.choice([0, 2, 5])
        rdy_mode = r.choice([1, 2, 3])
        ins_req, rows_req, ins_resp, rows_resp, tr = [], [], [], [], []
        waiting, gap, t, idle = 0, 0, 0, 0
        exp_resp = []
        # cycle budget from the stream: <= gapmax+4 cycles per character, 2n+6 per K, a response of <= 10 characters needs <= 22 ready
        # cycles (random ready: generous factor); beyond it the run counts as stalled
        budget = 200 + 12 * len(queue) + sum(300 if k == 'O' else (2 * hex_val(ds) + 6 if k == 'K' else 0) for k, ds in cmds)
        while idle < 4 and t < budget:
            if queue and not waiting and gap == 0:
                v, c = 1, queue[0][1]
            else:
                v, c = 0, r.choice(CMD_ALPHA)
            rr = 1 if rdy_mode == 1 else (t % 2 if rdy_mode == 2 else r.randint(0, 1))
            io_ = R.index_out.get()
            R.valid.put(v); R.c.put(c); R.rr.put(rr); R.vin.put(table[io_]); R.size.put(sizes[io_])
            acc = v and R.ready.get()
            if R.rv.get() and rr:
                tr.append(R.rc.get())
                if R.rc.get() == 33:
                    waiting = 0
            sr = R.sr.get()
            with contextlib.redirect_stdout(io.StringIO()):
                R.sim.clk(1)
            ins_req.append((v, c)); rows_req.append(R.row())
            ins_resp.append((sr, table[io_], sizes[io_], rr)); rows_resp.append(R.resp_row())
            if gap > 0 and not v:
                gap -= 1
            if acc:
                cmd, ch = queue.pop(0)
                gap = r.randint(0, gapmax)
                if cmd[0] == 'O' and ch == 63:
                    waiting = 1
                    idx = hex_val(cmd[1]) % nout
                    exp_resp += response_spec(wv, sizes[idx], table[idx])
            if not queue and not waiting and R.req.state == 1 and R.resp.state == 0:
                idle += 1
            t += 1
        res.count(('sys', i, tuple(cmd_str(c) for c in cmds)), hist={'sys_cmds': len(cmds)})
        rp = dict(stream='sys', cfg=list(cfg), cmds=[cmd_str(c) for c in cmds], table=table, sizes=sizes, ready_mode=rdy_mode,
                  cycles=t)
        exp = [e for cmd in cmds for e in cmd_meaning(cfg, cmd)]
        obs = events_of([rw[4:] for rw in rows_req], limit=len(exp) + 64)
        if idle < 4:
            rfail(res, 'the decoder/encoder pair stalled within the cycle budget (system stream)',
                  dict(rp, budget=budget, characters_left=len(queue), waiting_for_response=waiting, expected=exp[:60], observed=obs[:60]))
        elif obs != exp:
            rfail(res, 'decoded strobe events differ from the meaning of the command stream (system stream)',
                     dict(rp, expected=exp[:60], observed=obs[:60]))
        if tr != exp_resp:
            rfail(res, 'characters sent back differ from the expected responses (system stream)',
                     dict(rp, expected=exp_resp, observed=tr, text=''.join(chr(c) for c in tr)))
        if driver_ok:
            c = ','.join(str(x) for x in cfg)
            lines.append(f"req | {c} | {';'.join(f'{v},{ch}' for v, ch in ins_req)}")
            infos.append(('req', rp, rows_req))
            lines.append(f"resp | {wv} | 0,0,0,0,0,0 | {';'.join(','.join(str(x) for x in i_) for i_ in ins_resp)}")
            infos.append(('resp', rp, rows_resp))
            if len(lines) >= 400:
                flush()
    flush()


# ------------------------------------------------------------------------------------------------
CHAIN_PATTERNS = [[1], [1, 0], [0, 1], [1, 1, 0], [0, 0, 1], [1, 0, 0, 0, 0], [0, 1, 1, 1], [1, 0, 0]]


def _ready_window(pattern, need):
    """smallest number of cycles (from any phase of the periodic pattern) within which `need` ready cycles certainly occur"""
    ones = sum(pattern)
    return ((need + ones - 1) // ones + 1) * len(pattern)


def run_chain_real(cfg, wv, table, sizes, items, ready_fn, cap, tail_need):
    """open-loop host (never waits for a response). returns (ins, rows, obs, left, raised): ins = (valid,c,ready) per cycle,
    rows = RealChain.row() after every edge, obs = (start,vin,size,ready,x) at the encoder's ports before every edge.
    Runs until the producer is through, the decoder is back in its accepting state and the consumer has been ready
    `tail_need` more times (enough for the specification's deadline of the last response to expire), bounded by `cap`."""
    R = RealChain(cfg, wv, table, sizes)
    P = Producer(items)
    ins, rows, obs = [], [], []
    tail = 0
    raised = None
    while tail < tail_need and len(rows) < cap:
        v, c = P.out()
        rd = ready_fn(len(rows))
        R.valid.put(v); R.c.put(c); R.rr.put(rd)
        rdy = R.ready.get()
        x = R.rc.get() if (R.rv.get() and rd) else -1
        obs.append((R.sr.get(), R.vin.get(), R.size.get(), rd, x))
        try:
            with contextlib.redirect_stdout(io.StringIO()):
                R.sim.clk(1)
        except ValueError:
            _mods()[0].Wire.prepared = []
            raised = len(rows)
            ins.append((v, c, rd))
            break
        P.next(rdy)
        ins.append((v, c, rd))
        rows.append(R.row())
        if not P.items and R.req.state == 1 and rd:
            tail += 1
    return ins, rows, obs, len(P.items), raised


def chain_stream(res, tier, rng, driver_ok):
    """see module docstring: closed chain, open-loop host, exhaustive sweep of the gap before each later query"""
    cases = []
    quick = tier == 'quick'
    # --- the kernel-checked run of Props/C20.lean (exChainRun): "O1?" "O2?", 8 idle cycles before the second 'O', consumer ready in even
    #     cycles: the second start pulse is seen in the first idle cycle after the '!' handshake and must be answered ("=A5!=3C7!")
    cases.append(dict(cfg=(4, 8, 3), wv=8, table=[0, 0xA5, 0x3C7, 0, 0, 0, 0, 0], sizes=[0, 2, 3, 0, 0, 0, 0, 0], cmds=[('O', [1]), ('O', [2])],
                      gaps=[0, 0, 0, 8, 0, 0], pat=[1, 0], phase=0, kind='lean-example'))
    # --- exhaustive gap sweeps: two queries (optionally a third / other commands in between), the gap before the later query's
    #     'O' (and, second family, before its '?') runs over the whole window in which the previous response can still be in flight
    npat = len(CHAIN_PATTERNS)
    fam = 0
    for pi, pat in enumerate(CHAIN_PATTERNS):
        for s1 in ([0, 2] if quick else [0, 1, 2, 3, 5]):
            r = rng.fork(('chain-sweep', pi, s1))
            wout = r.randint(1, 3)
            nout = 1 << wout
            cfg = (r.randint(1, 4), 32, wout)
            table = [r.bits(32) for _ in range(nout)]
            sizes = [r.randint(0, 8) for _ in range(nout)]
            n1, n2 = r.randint(0, nout - 1), r.randint(0, nout - 1)
            sizes[n1] = s1
            if n2 != n1:
                sizes[n2] = r.choice([0, 1, 3, 8])
            win = _ready_window(pat, 2 * s1 + 4) + 14
            where = fam % 3          # 0: gap before 'O', 1: gap before '?', 2: gap before 'O' with a K command in between
            fam += 1
            phase = r.randint(0, len(pat) - 1)
            for gap in range(0, win + 1):
                q1, q2 = ('O', [n1]), ('O', [n2])
                cmds = [q1] + ([('K', [2])] if where == 2 else []) + [q2]
                chars = [ch for cmd in cmds for ch in cmd_chars(cmd)]
                gaps = [0] * len(chars)
                pos = len(chars) - (1 if where == 1 else len(cmd_chars(q2)))
                gaps[pos] = gap
                cases.append(dict(cfg=cfg, wv=8, table=table, sizes=sizes, cmds=cmds, gaps=gaps, pat=pat, phase=phase, kind='sweep'))
    # --- three queries, both gaps swept over a coarse grid x fine alignment
    for i in range(6 if quick else 24):
        r = rng.fork(('chain-three', i))
        wout = r.randint(1, 2)
        nout = 1 << wout
        cfg = (2, 32, wout)
        table = [r.bits(32) for _ in range(nout)]
        sizes = [r.randint(0, 3) for _ in range(nout)]
        pat = r.choice(CHAIN_PATTERNS[:5])
        ns = [r.randint(0, nout - 1) for _ in range(3)]
        win = _ready_window(pat, 2 * 3 + 4) + 10
        for g1 in range(0, win, 1 if not quick else 3):
            for g2 in ([0, 3, 11] if quick else [0, 1, 3, 11, 23]):
                cmds = [('O', [n]) for n in ns]
                chars = [ch for cmd in cmds for ch in cmd_chars(cmd)]
                gaps = [0] * len(chars)
                gaps[3], gaps[6] = g1, (g1 + g2) % (win + 1)
                cases.append(dict(cfg=cfg, wv=8, table=table, sizes=sizes, cmds=cmds, gaps=gaps, pat=pat, phase=0, kind='three'))
    # --- seeded random command mixes, random gaps, random (aperiodic) ready
    for i in range(60 if quick else 1500):
        r = rng.fork(('chain-rand', i))
        wout = r.randint(1, 3)
        nout = 1 << wout
        cfg = (r.randint(1, 4), r.choice([8, 32]), wout)
        table = [r.bits(32) for _ in range(nout)]
        sizes = [r.choice([0, 1, 2, 3, 4, 8, 9, r.randint(0, 12)]) for _ in range(nout)]
        cmds = []
        for _ in range(r.randint(2, 7)):
            kk = r.choice(['O', 'O', 'O', 'I', 'K', 'S'])
            if kk == 'O':
                cmds.append(('O', [int(ch, 16) for ch in f'{r.randint(0, 2 * nout):X}']))      # also indices beyond the table: masked by the bus
            elif kk == 'I':
                cmds += [('I', [r.randint(0, 15)]), ('V', gen_digits(r, 8))]
            elif kk == 'K':
                cmds.append(('K', [r.randint(0, 5)]))
            else:
                cmds.append(('S', [10]))
        chars = [ch for cmd in cmds for ch in cmd_chars(cmd)]
        gmode = r.randint(0, 3)
        gaps = [0 if gmode == 0 else (r.randint(0, 3) if gmode == 1 else (r.choice([0, 0, 0, 9, 20, 31]) if gmode == 2 else r.randint(0, 40)))
                for _ in chars]
        rp = ready_pattern(r, r.randint(3, 17))
        if not any(rp):
            rp[0] = 1
        cases.append(dict(cfg=cfg, wv=r.choice([8, 8, 7, 4]), table=table, sizes=sizes, cmds=cmds, gaps=gaps, pat=rp, phase=0, kind='rand'))
    lines, infos = [], []

    def flush():
        if not (driver_ok and lines):
            return
        outs = run_driver('Drv/C20.lean', lines)
        for (kind, rp, dat), ans in zip(infos, outs):
            res.cov['disagreements_checked'] += 1
            f = [x.strip() for x in ans.split('|')]
            if kind == 'chain':
                rows, tr, raised = dat
                want = [','.join(str(x) for x in rw) for rw in rows] + (['raise'] if raised is not None else [])
                got = f[0].split(';') if f[0] else []
                if got != want:
                    rdis(res, 'chain-rows', dict(rp, first_diff=_first_diff(got, want)))
                elif raised is None and f[1] != ','.join(str(x) for x in tr):
                    rdis(res, 'chain-transfers', dict(rp, model=f[1], real=tr))
            else:
                bad, m = dat
                want = ['ok' if bad is None else f'viol,{bad}', str(len(m.pend)), str(m.bud), ';'.join(f'{a},{b}' for a, b in m.accepted)]
                if f != want:
                    rdis(res, 'monitor(lean spec vs python transcription of the spec)', dict(rp, lean=f, python=want))
        del lines[:]
        del infos[:]

    ncase = 0
    for cs in cases:
        if len(res.failures) >= MAX_RECORDED:
            res.notes.append('chain_stream cut short: 60 failing inputs already recorded')
            break
        cfg, wv, table, sizes, cmds, pat = cs['cfg'], cs['wv'], cs['table'], cs['sizes'], cs['cmds'], cs['pat']
        nout = 1 << cfg[2]
        chars = [ch for cmd in cmds for ch in cmd_chars(cmd)]
        items = [([0] * g, ch) for g, ch in zip(cs['gaps'], chars)]
        ph = cs['phase']
        ready_fn = lambda t, pat=pat, ph=ph: pat[(t + ph) % len(pat)]
        smax = max(sizes)
        tail_need = 2 * smax + 6
        cap = cycle_budget(items, cmds) + (tail_need + 2 * smax + 8) * (len(pat) + 1) * (1 + sum(1 for k_, _ in cmds if k_ == 'O'))
        ins, rows, obs, left, raised = run_chain_real(cfg, wv, table, sizes, items, ready_fn, cap, tail_need)
        res.count(('chain', cs['kind'], cfg, wv, tuple(chars), tuple(cs['gaps']), tuple(pat), ph, tuple(sizes)),
                  hist={'chain_kind': cs['kind'], 'chain_queries': sum(1 for k_, _ in cmds if k_ == 'O')})
        tr = [o[4] for o in obs if o[4] >= 0]
        rp = dict(stream='chain', cfg=list(cfg), wv=wv, table=table, sizes=sizes, cmds=[cmd_str(c) for c in cmds], gaps=cs['gaps'],
                  ready_pattern=pat, ready_phase=ph, cycles=len(rows), text=''.join(chr(c) if 32 <= c < 127 else '.' for c in tr))
        # ---- oracle 1: the session monitor on what the encoder's ports showed
        bad, clause, m = monitor_run(wv, obs)
        starts = [t for t, o in enumerate(obs) if o[0]]
        hands = [t for t, o in enumerate(obs) if o[4] == 33 % (1 << wv)]
        rp.update(start_cycles=starts[:12], bang_cycles=hands[:12])
        if raised is not None:
            rfail(res, 'CMDResponse.clock raised ValueError (chain stream)', dict(rp, raised_at=raised))
        elif bad is not None:
            exp_all = [c for vin, sz in m.accepted for c in response_spec(wv, sz, vin)]
            rfail(res, 'chain: ' + clause, dict(rp, cycle=bad, accepted_starts=[list(a) for a in m.accepted], expected=exp_all, observed=tr,
                                               expected_text=''.join(chr(c) if 32 <= c < 127 else '.' for c in exp_all)))
        elif m.pend:
            rfail(res, 'chain: the run ended with a response still owed (encoder or consumer stalled within the cycle budget)',
                  dict(rp, owed=m.pend, budget=cap))
        # ---- oracle 2: decoder events and what every start pulse selects
        exp = [e for cmd in cmds for e in cmd_meaning(cfg, cmd)]
        ev = events_of([rw[4:13] for rw in rows], limit=len(exp) + 64)
        if left:
            rfail(res, 'the decoder stopped accepting characters (chain stream)', dict(rp, characters_left=left, budget=cap))
        elif ev != exp:
            rfail(res, 'decoded strobe events differ from the meaning of the command stream (chain stream)',
                  dict(rp, expected=exp[:60], observed=ev[:60]))
        else:
            want_sel = [(table[hex_val(ds) % nout], sizes[hex_val(ds) % nout]) for k_, ds in cmds if k_ == 'O']
            got_sel = [(o[1], o[2]) for o in obs if o[0]]
            if got_sel != want_sel:
                rfail(res, 'chain: the value/size presented with a start pulse is not the table entry of the queried output',
                      dict(rp, expected=[list(x) for x in want_sel], observed=[list(x) for x in got_sel]))
        # which alignment was hit (evidence): distance between a start pulse and the previous '!' handshake
        for t in starts:
            prev = [h for h in hands if h < t]
            if t not in m.accepted_at:
                res.hist('chain_start_alignment', 'response in flight (ignored by the specification too)')
            elif not prev:
                res.hist('chain_start_alignment', 'first query')
            else:
                d = t - prev[-1]
                res.hist('chain_start_alignment', f"{d} cycle(s) after the previous '!' handshake" if d <= 3 else "> 3 cycles after the previous '!' handshake")
        res.hist('chain_accepted_of_starts', f'{len(m.accepted)}/{len(starts)}')
        if len(res.cov['samples']) < 12 and cs['kind'] == 'sweep' and len(m.accepted) == 2:
            res.sample(rp)
        # the Lean side runs interpreted: every case gets the (Python-evaluated) oracles, a fixed slice of the cases (every 8th in the
        # quick tier, every 6th in the thorough tier, all failing ones) additionally goes through the Lean chain model and the Lean monitor
        ncase += 1
        if cs['kind'] == 'lean-example' and raised is None and bad is None and tr != [61, 65, 53, 33, 61, 51, 67, 55, 33]:
            rfail(res, 'chain: the run of the Lean example exChainRun does not send "=A5!=3C7!"', rp)
        if driver_ok and (ncase % (8 if quick else 6) == 0 or bad is not None or cs['kind'] == 'lean-example'):
            c = ','.join(str(x) for x in cfg)
            lines.append(f"chain | {c} | {wv} | {';'.join(f'{a},{b}' for a, b in zip(table, sizes))} | {';'.join(','.join(str(x) for x in i_) for i_ in ins)}")
            infos.append(('chain', rp, (rows, tr, raised)))
            lines.append(f"respmon | {wv} | {';'.join(','.join(str(x) for x in o) for o in obs)}")
            infos.append(('mon', rp, (bad, m)))
            if len(lines) >= 400:
                flush()
    flush()


# ------------------------------------------------------------------------------------------------
def main(res, tier, rng, replay):
    ok, metas, errors, changed = regenerate()
    for e in errors:
        res.broken.append(('translator', 'py2lean', e))
    proved = res.proof_stage('Py4hwV.Props.C20', OBLIGATIONS)
    if proved and tier != 'quick':
        # independent re-check of the compiled declarations with the external kernel checker
        import common as _c
        lk = _c._lock()
        try:
            pc = subprocess.run(['lake', 'env', 'leanchecker', 'Py4hwV.Props.C20', 'Py4hwV.Proofs.C20Req', 'Py4hwV.Proofs.C20Resp',
                                 'Py4hwV.Proofs.C20Chain', 'Py4hwV.Proto.Hil', 'Py4hwV.Proto.HilChain'], cwd=LEAN, capture_output=True, text=True, timeout=1500)
        finally:
            lk.close()
        res.cov['checker_cmd'] += ' && lake env leanchecker <C20 modules>'
        if pc.returncode != 0:
            res.broken.append(('proof', 'leanchecker', (pc.stdout + pc.stderr)[-400:]))
    # the model files the driver imports must build even when a proof does not
    okm, outm = lean_build(['Py4hwV.Proto.Hil', 'Py4hwV.Proto.HilChain'])
    driver_ok = okm
    if not okm:
        res.broken.append(('model', 'Py4hwV.Proto.Hil / HilChain', 'does not build against the regenerated Gen.Fsm: ' +
                           ' // '.join([l for l in outm.split('\n') if 'error' in l][:4])))
    if ok and driver_ok:
        try:
            t1.validate_generated(res, rng.fork('t1'), 300 if tier == 'quick' else 6000, classes=['CMDRequest', 'CMDResponse'])
        except ToolFailure as e:
            res.broken.append(('correspondence', 'T1', f'generated definitions do not run: {e}'))
    for fn in (req_stream, resp_stream, sys_stream, chain_stream):
        try:
            fn(res, tier, rng.fork(fn.__name__), driver_ok)
        except ToolFailure as e:
            res.broken.append(('correspondence', fn.__name__, f'driver failed: {str(e)[:300]}'))
            fn(res, tier, rng.fork(fn.__name__), False)     # the oracle on the real code still runs
    size_zero_witness(res)
    res.cov['rule'] = ('distinct = (stream kind, widths, character string, gap pattern) for requests, (widths, full input list) for '
                       'responses. Requests: every command kind x every digit string of length <= 2 embedded in a stream, every '
                       'separator character, every gap pattern over {0,1,3} on a short stream, seeded random streams (1-8 commands, '
                       '0-20 digits, K up to kmax pulses, bus widths 1-64 so that masking is hit), malformed streams (model vs code '
                       'only). Responses: every ready pattern of a fixed length for one digit, every value for <= 3 digits under three '
                       'pacings, seeded random (1-40 digits, value widths 1-80, character wire 1-9 bits, 7 pacing modes), sessions with '
                       'junk inputs and size 0 (rows vs model AND the session monitor). System: request decoder driving the encoder through '
                       'start_resp with a host that waits for "!". Chain (real CMDRequest -> Reg -> Mux pair over the table -> CMDResponse, '
                       'open-loop host): for 8 consumer ready patterns x response sizes, the gap before the later query (before its "O", before '
                       'its "?", with a K command in between) swept over EVERY value of the window in which the previous response can still be '
                       'in flight (+14), three-query grids, seeded random command mixes with aperiodic ready; histogram '
                       'chain_start_alignment shows how often a start pulse landed 1/2/3 cycles after the previous "!" handshake. Every case: real blocks in a real HWSystem, sim.clk(1) per cycle, all state fields and wires compared '
                       'with the Lean model every cycle, and the specification evaluated on the observed wires.')
    res.assumptions += [
        'strobe, ready and valid wires are 1 bit wide (as createHILUART builds them); bus widths and the character wire width are variables',
        'the producer is ready/valid compliant: once valid is raised, valid and c are held until the edge at which ready is 1',
        'requests: the theorems cover streams of well-formed commands (upper-case hex digits, any count incl. none) separated by any '
        'characters outside the command alphabet; malformed streams are covered by the model-vs-code correspondence only',
        'response: every size incl. 0 (resp_size_zero; size 0 raised ValueError before /repo 21add98); a query is guaranteed a response '
        'exactly when its start_resp pulse is seen while nothing is owed any more (encoder in state 0; from the first cycle after the '
        'previous "!" handshake on): resp_session / resp_query_answered; a pulse while a response is owed is ignored by the unchanged code '
        '(resp_busy_ignores_inputs) and by the specification monitor alike; the consumer drives an arbitrary ready sequence that does not '
        'depend combinationally on valid',
        'chain: the output table (reg_out / size_out) is constant during a run; the DUT-side capture registers of createHILUART are not modelled',
        'Py.shrT totalises a negative shift count; the guard Hil.respRaises marks the only call where Python can still raise (state 4 with '
        'negative temp_size, unreachable from power-up by resp_run); the correspondence checks model none <-> real ValueError',
    ]


if __name__ == '__main__':
    main_wrapper('C20', main)
