"""C12 — Number-format helpers are bit-exact and arithmetically exact.
See DESIGN.md §5 C12, lean/Py4hwV/Props/C12.lean, lean/Py4hwV/Helper/*.lean, notes/C12.md.

S0 regenerate (Gen.IntegerHelper.*, Gen.Helper.signExtend, Gen.C12.* pack functions)
S1 build + audit of Props/C12
S2 correspondence  model (Drv/C12.lean) vs real helper.py   on exhaustive small + seeded structured inputs, and
   the property's oracle on the REAL implementation: struct.pack/unpack (platform IEEE-754), fractions.Fraction
   (exact arithmetic / order), integer arithmetic (two's complement, fixed point); the Fraction/decode side of the
   oracle is additionally evaluated by the Lean specification functions (`spec-*` requests) and both must agree.
"""
import os, sys, json, math, struct, signal
from fractions import Fraction
from common import *

OBLIGATIONS = [
    # two's complement (generated definitions)
    'C12.signed_to_c2_spec', 'C12.c2_to_signed_spec', 'C12.c2_to_signed_range', 'C12.c2_roundtrip_signed',
    'C12.c2_roundtrip_unsigned', 'C12.signExtend_spec', 'C12.signExtend_preserves_signed',
    # fixed point
    'C12.fx_add_spec', 'C12.fx_sub_spec', 'C12.fx_mult_spec', 'C12.fx_iw0_works',
    # FPNum
    'C12.adjust_semp_preserves_value', 'C12.adjust_semp_total', 'C12.mk4_value', 'C12.mk4_total',
    'C12.fpnum_add_exact', 'C12.fpnum_sub_exact', 'C12.fpnum_mul_exact', 'C12.fpnum_arith_total',
    'C12.fpnum_compare_spec', 'C12.fpnum_compare_signed_zero',
    # pack bridges (generated) and IEEE
    'C12.gen_pack_hp_eq', 'C12.gen_pack_sp_eq', 'C12.gen_pack_dp_eq', 'C12.gen_fph_pack_sp_eq',
    'C12.sp_decode_spec', 'C12.dp_decode_spec',
    'C12.sp_encode_neg_zero',
    # encode . decode = id (FloatingPointHelper), every non-NaN pattern
    'C12.fp_to_parts_spec', 'C12.parts_of_decode', 'C12.sp_encode_decode', 'C12.dp_encode_decode',
    'C12.sp_roundtrip', 'C12.dp_roundtrip',
    # FPNum: convert fmt . from_ieee754 fmt = id, and FPNum(b, fmt) denotes IEEE.decode b, every format
    'C12.adjust_semp_shape', 'C12.stdPrec_exact', 'C12.hidden_bit', 'C12.roundtrip_fields',
    'C12.fpnum_roundtrip_hp', 'C12.fpnum_roundtrip_sp', 'C12.fpnum_roundtrip_dp',
    'C12.from_parts_value', 'C12.fpnum_from_hp_value', 'C12.fpnum_from_sp_value', 'C12.fpnum_from_dp_value',
    # widening conversions are exact
    'C12.convertFinite_exact_normal', 'C12.widen_fields', 'C12.fpnum_widen_hp_sp', 'C12.fpnum_widen_hp_dp', 'C12.fpnum_widen_sp_dp',
    # narrowing / every conversion of a normalised FPNum: closed form, rounding mode (truncation), exactness on representable values
    'C12.stdPrec_trunc', 'C12.convertFinite_norm', 'C12.truncFields_of_representable', 'C12.truncFields_rounds_toward_zero',
    'C12.convertParts_norm', 'C12.convertParts_representable', 'C12.convert_repr_core', 'C12.fpnum_convert_representable',
    'C12.from_ieee754_normalised', 'C12.fpnum_convert_between', 'C12.fpnum_convert_rounds_toward_zero', 'C12.reducePrecision_spec',
    # FPNum(float): adjust_sem + adjust_semp, and FPNum(v).convert(fmt) = platform encoding for every representable v
    'C12.adjust_sem_spec', 'C12.float_to_semp_spec', 'C12.fpnum_float_inf', 'C12.fpnum_float_convert',
]

# proposals for /verif/known_findings.json (the integrator merges them); used locally until they are listed there.
# status "fixed" (with the repairing /repo commit) suppresses nothing: a reappearance of that failure is a VIOLATION.
PROPOSED_FINDINGS = [
    {"id": "C12-hp-subnormal", "property": "C12", "status": "fixed", "fixed_by": "cdf528d", "anchor": "py4hw/helper.py:955",
     "class_expr": "r.get('kind') in ('fpnum-roundtrip','fpnum-tofloat','fpnum-widen','fpnum-value') and r.get('fmt')=='hp' "
                   "and ((r['bits']>>10)&31)==0 and (r['bits']&1023)!=0",
     "witness": {"kind": "fpnum-roundtrip", "fmt": "hp", "bits": 1},
     "what": "FPNum.from_ieee754_hp decodes half-precision subnormals with exponent -16 instead of -14: FPNum(0x0001,'hp') "
             "denotes 2**-26 (not 2**-24) and convert('hp') gives 0x0000; all 2046 half subnormals fail the round trip"},
    {"id": "C12-sp-negzero", "property": "C12", "status": "fixed", "fixed_by": "8e05c48", "anchor": "py4hw/helper.py:1234",
     "class_expr": "r.get('kind')=='fph-encode' and r.get('fmt')=='sp' and r['bits']==0x80000000",
     "witness": {"kind": "fph-encode", "fmt": "sp", "bits": 0x80000000},
     "what": "FloatingPointHelper.sp_to_ieee754(-0.0) returns 0x00000000 (sign of negative zero lost; dp_to_ieee754 keeps it)"},
    {"id": "C12-compare-signed-zero", "property": "C12", "status": "fixed", "fixed_by": "fc3735b", "anchor": "py4hw/helper.py:697",
     "class_expr": "r.get('kind')=='fpnum-compare' and r['a'][2]==0 and r['b'][2]==0 and r['a'][0]!=r['b'][0]",
     "witness": {"kind": "fpnum-compare", "a": [1, -127, 0, 1], "b": [-1, -127, 0, 1]},
     "what": "FPNum.compare(+0, -0) returns 1 and compare(-0, +0) returns -1 although both denote the rational 0"},
    {"id": "C12-fx-iw0", "property": "C12", "status": "fixed", "fixed_by": "b11b379", "anchor": "py4hw/helper.py:484",
     "class_expr": "r.get('kind')=='fx' and r['iw']==0 and r['observed']=='err'",
     "witness": {"kind": "fx", "op": "add", "sw": 1, "iw": 0, "fw": 7, "a": 32, "b": 64},
     "what": "FixedPoint formats with int_bits = 0 (e.g. Q0.7) could not add/sub/mult: FixedPoint(sw,0,fw,0) evaluated 1 << -1 and raised ValueError"},
]

DRIVER = 'Drv/C12.lean'


# ---------------------------------------------------------------------------------------------- plumbing
class Timeout(Exception):
    pass


def _alarm(sig, frm):
    raise Timeout()


def real(fn, *a):
    """run the implementation; exceptions -> 'err', a runaway loop (only possible after a change of the code) -> 'timeout'"""
    signal.setitimer(signal.ITIMER_REAL, 20.0)
    try:
        return fn(*a)
    except Timeout:
        return 'timeout'
    except Exception:
        return 'err'
    finally:
        signal.setitimer(signal.ITIMER_REAL, 0)


def fl2s(x):
    if isinstance(x, str):
        return x
    if math.isnan(x):
        return 'N'
    if math.isinf(x):
        return 'I:%d' % (1 if x < 0 else 0)
    neg = 1 if math.copysign(1.0, x) < 0 else 0
    n, d = abs(x).as_integer_ratio()
    if n == 0:
        return f'F:{neg}:0:0'
    k = -(d.bit_length() - 1)
    while n % 2 == 0:
        n //= 2
        k += 1
    return f'F:{neg}:{n}:{k}'


def fp2s(x):
    if isinstance(x, str):
        return x
    return ','.join(str(int(v)) for v in (x.s, x.e, x.m, x.p, x.infinity, x.nan, x.inexact))


def tup2s(t):
    if isinstance(t, str):
        return t
    return ','.join(str(int(v)) for v in t)


def i2s(v):
    return v if isinstance(v, str) else str(int(v))


def f2sp(x): return struct.unpack('<I', struct.pack('<f', x))[0]
def sp2f(b): return struct.unpack('<f', struct.pack('<I', b))[0]
def f2dp(x): return struct.unpack('<Q', struct.pack('<d', x))[0]
def dp2f(b): return struct.unpack('<d', struct.pack('<Q', b))[0]
def hp2f(b): return struct.unpack('<e', struct.pack('<H', b))[0]


FMT = {'hp': (5, 10, hp2f), 'sp': (8, 23, sp2f), 'dp': (11, 52, dp2f)}


def enc_class(fmt, b):
    eb, mb, _ = FMT[fmt]
    e = (b >> mb) & ((1 << eb) - 1)
    m = b & ((1 << mb) - 1)
    if e == (1 << eb) - 1:
        return 'inf' if m == 0 else 'nan'
    if e == 0:
        return 'zero' if m == 0 else 'subnormal'
    return 'normal'


def same_float(a, b):
    if isinstance(a, str) or isinstance(b, str):
        return False
    if math.isnan(a) or math.isnan(b):
        return math.isnan(a) and math.isnan(b)
    return a == b and math.copysign(1.0, a) == math.copysign(1.0, b)


class Streams:
    """collects (request line, implementation answer, case description); runs the model once per flush and diffs"""

    def __init__(self, res):
        self.res, self.items, self.ndis, self.dead = res, [], {}, False
        self.n = 0

    def add(self, stream, req, impl, case=None):
        self.items.append((stream, req, impl, case))
        if len(self.items) >= 60000:
            self.flush()

    def flush(self):
        items, self.items = self.items, []
        if not items or self.dead:
            return
        try:
            out = run_driver(DRIVER, [it[1] for it in items])
        except ToolFailure:
            # the driver runs outside the lake lock: a concurrent check may have been rebuilding Gen/*.olean. Rebuild, retry once;
            # a driver that still does not run is a tool failure (exit 2), never a verdict about the property.
            lean_build(['Py4hwV.Helper.Spec'])
            out = run_driver(DRIVER, [it[1] for it in items])
        for (stream, req, impl, case), o in zip(items, out):
            self.n += 1
            self.res.cov['disagreements_checked'] += 1
            if o != impl:
                k = self.ndis.get(stream, 0)
                self.ndis[stream] = k + 1
                if k < 3:
                    self.res.disagree(stream, dict(request=req, model=o, implementation=impl, case=case))


class Ctx:
    pass


def fail(res, what, replay):
    """res.fail, with the proposed findings consulted in addition to known_findings.json"""
    listed = {k.get('id') for k in load_known()}
    for k in PROPOSED_FINDINGS:
        if k.get('status') == 'fixed' and common_matches(k, what, replay):
            # repaired in /repo (commit k['fixed_by']): a reappearance is a violation even while known_findings.json
            # still carries the entry as "known"
            res.failures.append({'what': what + f"  [regression of {k['id']}, fixed by {k['fixed_by']}]", 'replay': replay})
            return
    for k in PROPOSED_FINDINGS:
        if k.get('status') == 'known' and k['id'] not in listed and common_matches(k, what, replay):
            res.known_hits.append((k, what))
            return
    res.fail(what, replay)


def common_matches(k, what, replay):
    import common
    return common._matches(k, what, replay)


# ---------------------------------------------------------------------------------------------- (1) two's complement
def c2_cases(tier, rng):
    for w in range(1, 7 if tier == 'quick' else 9):
        for v in range(-(1 << w) - 2, (1 << (w + 1)) + 3):
            yield v, w
    n = 1500 if tier == 'quick' else 40000
    for i in range(n):
        w = rng.choice([1, 2, 7, 8, 15, 16, 31, 32, 33, 63, 64, 65, 127, 128, rng.randint(1, 200)])
        k = rng.next() % 6
        if k == 0:
            v = rng.bits(w)
        elif k == 1:
            v = -rng.bits(w)
        elif k == 2:
            v = rng.choice([-(1 << (w - 1)), (1 << (w - 1)) - 1, (1 << (w - 1)), -(1 << (w - 1)) - 1, (1 << w) - 1, 1 << w, -1, 0])
        else:
            v = rng.randint(-(1 << (w + 2)), 1 << (w + 2))
        yield v, w


def oracle_c2(res, H, v, w):
    """property on the implementation: round trips in both directions + two's complement meaning"""
    IH = H.IntegerHelper
    u = real(IH.signed_to_c2, v, w)
    ok = True
    if u != v % (1 << w):
        fail(res, f'signed_to_c2({v},{w}) = {u}, expected {v % (1 << w)}', dict(kind='c2', v=v, w=w, observed=u))
        ok = False
    s = real(IH.c2_to_signed, v, w)
    x = v % (1 << w)
    exp = x - (1 << w) if x >= (1 << (w - 1)) else x
    if s != exp:
        fail(res, f'c2_to_signed({v},{w}) = {s}, expected {exp}', dict(kind='c2', v=v, w=w, observed=s))
        ok = False
    if -(1 << (w - 1)) <= v < (1 << (w - 1)):
        rt = real(IH.c2_to_signed, real(IH.signed_to_c2, v, w), w)
        if rt != v:
            fail(res, f'c2_to_signed(signed_to_c2({v},{w}),{w}) = {rt}', dict(kind='c2', v=v, w=w, observed=rt))
            ok = False
    if 0 <= v < (1 << w):
        s2 = real(IH.c2_to_signed, v, w)
        rt = real(IH.signed_to_c2, s2, w) if not isinstance(s2, str) else s2
        if rt != v:
            fail(res, f'signed_to_c2(c2_to_signed({v},{w}),{w}) = {rt}', dict(kind='c2', v=v, w=w, observed=rt))
            ok = False
    return ok


def oracle_sext(res, H, v, w, nw):
    r = real(H.signExtend, v, w, nw)
    x = v % (1 << w)
    sx = x - (1 << w) if x >= (1 << (w - 1)) else x
    exp = sx % (1 << nw)
    if r != exp:
        fail(res, f'signExtend({v},{w},{nw}) = {r}, expected {exp}', dict(kind='sext', v=v, w=w, nw=nw, observed=r))
        return False
    return True


def run_c2(res, tier, rng, H, st):
    for v, w in c2_cases(tier, rng.fork('c2')):
        oracle_c2(res, H, v, w)
        st.add('c2-signed_to_c2', f'c2s | {v},{w}', i2s(real(H.IntegerHelper.signed_to_c2, v, w)), (v, w))
        st.add('c2-c2_to_signed', f'c2u | {v},{w}', i2s(real(H.IntegerHelper.c2_to_signed, v, w)), (v, w))
        res.count(('c2', v, w), hist={'c2_width': w if w <= 8 else (w // 32) * 32})
    r = rng.fork('sext')
    cases = []
    for w in range(1, 6):
        for nw in range(w, w + 4):
            for v in range(-(1 << w) - 1, (1 << w) + 2):
                cases.append((v, w, nw))
    for i in range(800 if tier == 'quick' else 20000):
        w = r.randint(1, 80)
        nw = w + r.choice([0, 1, 2, 7, 8, 32, r.randint(0, 100)])
        cases.append((r.choice([r.bits(w), -r.bits(w), r.randint(-(1 << (w + 2)), 1 << (w + 2))]), w, nw))
    for v, w, nw in cases:
        oracle_sext(res, H, v, w, nw)
        st.add('signExtend', f'sext | {v},{w},{nw}', i2s(real(H.signExtend, v, w, nw)), (v, w, nw))
        res.count(('sext', v, w, nw), hist={'sext_growth': min(nw - w, 9)})


# ---------------------------------------------------------------------------------------------- (2) fixed point
def fx_spec(op, sw, iw, fw, a, b):
    w = sw + iw + fw
    M = 1 << w
    if op == 'add':
        return (a + b) % M
    if op == 'sub':
        return (a - b) % M
    sa, sb = a % M, b % M
    sa = sa - M if sa >= M // 2 else sa
    sb = sb - M if sb >= M // 2 else sb
    return ((sa * sb) >> fw) % M          # floor(sa*sb / 2^fw) mod 2^w: truncated product of the signed raw encodings


def oracle_fx(res, H, op, sw, iw, fw, a, b):
    FX = H.FixedPoint
    def run():
        x = FX.fromRawValue(sw, iw, fw, a)
        y = FX.fromRawValue(sw, iw, fw, b)
        return getattr(x, op)(y).v
    r = real(run)
    exp = fx_spec(op, sw, iw, fw, a, b)
    if r != exp:
        fail(res, f'FixedPoint({sw},{iw},{fw}).{op}: raw {a},{b} -> {r}, expected {exp}',
             dict(kind='fx', op=op, sw=sw, iw=iw, fw=fw, a=a, b=b, observed=r, expected=exp))
    return r


def run_fx(res, tier, rng, H, st):
    r = rng.fork('fx')
    fmts = []
    maxw = 5 if tier == 'quick' else 6
    for sw in (0, 1):
        for iw in range(0, maxw + 1):
            for fw in range(0, maxw + 1):
                if 1 <= sw + iw + fw <= maxw:
                    fmts.append((sw, iw, fw))
    cases = []
    for (sw, iw, fw) in fmts:
        w = sw + iw + fw
        for a in range(1 << w):
            for b in range(1 << w):
                cases.append((sw, iw, fw, a, b))
    for i in range(1200 if tier == 'quick' else 40000):
        sw = r.choice([0, 1])
        iw = r.choice([0, 1, 2, 7, 8, 15, 16, r.randint(0, 40)])
        fw = r.choice([0, 1, 2, 7, 8, 16, 24, r.randint(0, 40)])
        if sw + iw + fw < 1:
            continue
        w = sw + iw + fw
        a, b = r.bits(w), r.bits(w)
        if r.chance(1, 10):      # raw values are not masked by fromRawValue
            a, b = a + (1 << w) * r.randint(-2, 2), b - (1 << w) * r.randint(-2, 2)
        cases.append((sw, iw, fw, a, b))
    for (sw, iw, fw, a, b) in cases:
        for op in ('add', 'sub', 'mult'):
            o = oracle_fx(res, H, op, sw, iw, fw, a, b)
            st.add('fx-' + op, f'fx{op} | {sw},{iw},{fw},{a},{b}', i2s(o), (sw, iw, fw, a, b))
        res.count(('fx', sw, iw, fw, a, b), hist={'fx_format_sw_w': f'{sw}/{min(sw + iw + fw, 9)}', 'fx_int_bits': min(iw, 9)})
    # conversions (correspondence only: not part of the property's claim)
    FX = H.FixedPoint
    for i in range(600 if tier == 'quick' else 15000):
        sw, iw, fw = r.choice([0, 1]), r.randint(0, 12), r.randint(0, 12)
        if sw + iw + fw < 1:
            continue
        v = r.randint(-(1 << max(iw, 1)), (1 << max(iw, 1)))
        st.add('fx-int', f'fxint | {sw},{iw},{fw},{v}', i2s(real(lambda: FX(sw, iw, fw, v).v)), (sw, iw, fw, v))
        fv = r.randint(-(1 << (iw + fw + 1)), 1 << (iw + fw + 1)) / (1 << r.randint(0, fw + 3))
        st.add('fx-float', f'fxfloat | {sw},{iw},{fw} | {fl2s(fv)}', i2s(real(lambda: FX(sw, iw, fw, fv).v)), (sw, iw, fw, fv))
        raw = r.bits(sw + iw + fw)
        def tf():
            x = FX(sw, iw, fw, 0.0)      # the float constructor path does not evaluate 1 << (iw-1)
            x.v = raw
            return x.toFloatingPoint()
        st.add('fx-tofloat', f'fxtofloat | {sw},{iw},{fw},{raw}', fl2s(real(tf)), (sw, iw, fw, raw))
        res.count(('fxconv', sw, iw, fw, v, raw))


# ---------------------------------------------------------------------------------------------- encodings
def structured_encodings(fmt, rng, n_random, exp_stride=1):
    eb, mb, _ = FMT[fmt]
    out = []
    mants = [0, 1, 2, 3, (1 << mb) - 1, (1 << mb) - 2, 1 << (mb - 1), (1 << (mb - 1)) - 1, (1 << (mb - 1)) + 1]
    for e in range(0, 1 << eb, exp_stride):
        for m in mants + [rng.randint(0, (1 << mb) - 1), 1 << rng.randint(0, mb - 1)]:
            for s in (0, 1):
                out.append((s << (eb + mb)) | (e << mb) | m)
    for e in (0, 1, 2, (1 << eb) - 2, (1 << eb) - 1, (1 << (eb - 1)) - 1, 1 << (eb - 1)):
        for m in mants:
            for s in (0, 1):
                out.append((s << (eb + mb)) | (e << mb) | m)
    for i in range(n_random):
        b = rng.randint(0, (1 << (1 + eb + mb)) - 1)
        if i % 5 == 0:       # subnormals
            b &= ~(((1 << eb) - 1) << mb)
        if i % 11 == 0:      # few significant bits
            b &= ~((1 << rng.randint(0, mb)) - 1)
        out.append(b)
    return out


def fpnum_value(x):
    return Fraction(x.s * x.m, x.p) * Fraction(2) ** x.e


def float_value(f):
    return Fraction(f)


def oracle_fpnum_enc(res, H, st, fmt, b):
    """from_ieee754_<fmt>: value denoted, round trip through convert, to_float, widening — against struct"""
    eb, mb, tof = FMT[fmt]
    cls = enc_class(fmt, b)
    x = real(H.FPNum, b, fmt)
    st.add('fpnum-from-' + fmt, f'fpfrom {fmt} | {b}', fp2s(x), b)
    if isinstance(x, str):
        fail(res, f'FPNum({b:#x},{fmt!r}) raised', dict(kind='fpnum-roundtrip', fmt=fmt, bits=b, observed=x))
        return None
    ref = tof(b)
    if cls == 'nan':
        if not x.nan:
            fail(res, f'FPNum({b:#x},{fmt!r}) is not NaN', dict(kind='fpnum-roundtrip', fmt=fmt, bits=b, observed=fp2s(x)))
        return x
    # value denoted
    if cls == 'inf':
        if not (x.infinity and (x.s == (1 if ref > 0 else -1))):
            fail(res, f'FPNum({b:#x},{fmt!r}) is not {ref}', dict(kind='fpnum-value', fmt=fmt, bits=b, observed=fp2s(x)))
    else:
        okv = (not x.infinity and not x.nan and x.p > 0 and fpnum_value(x) == float_value(ref)
               and x.s == (1 if math.copysign(1.0, ref) > 0 else -1))
        if not okv:
            fail(res, f'FPNum({b:#x},{fmt!r}) = {x.components()} does not denote {ref!r}',
                 dict(kind='fpnum-value', fmt=fmt, bits=b, observed=fp2s(x)))
    # round trip
    rt = real(x.convert, fmt)
    st.add('fpnum-convert', f'fpconv {fmt} | {fp2s(x)}', i2s(rt), (fmt, b))
    if rt != b:
        fail(res, f"FPNum({b:#x},{fmt!r}).convert({fmt!r}) = {rt if isinstance(rt, str) else hex(rt)}",
             dict(kind='fpnum-roundtrip', fmt=fmt, bits=b, observed=rt))
    # to_float
    t = real(x.to_float)
    if not same_float(t, ref):
        fail(res, f'FPNum({b:#x},{fmt!r}).to_float() = {t!r}, platform says {ref!r}',
             dict(kind='fpnum-tofloat', fmt=fmt, bits=b, observed=repr(t)))
    # widening conversions are exact: hp -> sp -> dp
    for wider, enc in (('sp', f2sp), ('dp', f2dp)):
        if FMT[wider][1] > mb:
            wv = real(x.convert, wider)
            st.add('fpnum-convert', f'fpconv {wider} | {fp2s(x)}', i2s(wv), (fmt, b, wider))
            if wv != enc(ref):
                fail(res, f'FPNum({b:#x},{fmt!r}).convert({wider!r}) = {wv}, platform says {enc(ref):#x}',
                     dict(kind='fpnum-widen', fmt=fmt, bits=b, to=wider, observed=wv))
    return x


def oracle_fph(res, H, st, fmt, b):
    """FloatingPointHelper encode/decode vs struct (sp, dp)"""
    FH = H.FloatingPointHelper
    eb, mb, tof = FMT[fmt]
    cls = enc_class(fmt, b)
    ref = tof(b)
    dec = FH.ieee754_to_sp if fmt == 'sp' else FH.ieee754_to_dp
    enc = FH.sp_to_ieee754 if fmt == 'sp' else FH.dp_to_ieee754
    d = real(dec, b)
    st.add('fph-decode-' + fmt, f'dec {fmt} | {b}', fl2s(d), b)
    if not same_float(d, ref):
        fail(res, f'ieee754_to_{fmt}({b:#x}) = {d!r}, platform says {ref!r}', dict(kind='fph-decode', fmt=fmt, bits=b, observed=repr(d)))
    e = real(enc, ref)
    st.add('fph-encode-' + fmt, f'enc {fmt} | {fl2s(ref)}', i2s(e), b)
    if cls == 'nan':
        if isinstance(e, str) or enc_class(fmt, e) != 'nan':
            fail(res, f'{fmt}_to_ieee754(nan) = {e}', dict(kind='fph-encode', fmt=fmt, bits=b, observed=e))
    elif e != b:
        fail(res, f'{fmt}_to_ieee754({ref!r}) = {e if isinstance(e, str) else hex(e)}, platform says {b:#x}',
             dict(kind='fph-encode', fmt=fmt, bits=b, observed=e))
    # round trip through the helper's own decoder
    if cls != 'nan' and not isinstance(d, str):
        rt = real(enc, d)
        if rt != b and not (e != b):     # report once
            fail(res, f'{fmt}_to_ieee754(ieee754_to_{fmt}({b:#x})) = {rt}', dict(kind='fph-encode', fmt=fmt, bits=b, observed=rt))
    # the specification's value function against the platform (validates IEEE.decode, not the code)
    st.add('spec-decode-vs-struct', f'spec-decode {fmt} | {b}', fl2s(ref), (fmt, b))


def run_encodings(res, tier, rng, H, st, pool):
    r = rng.fork('enc')
    # half: all subnormals and boundaries always; everything in the thorough tier
    if tier == 'quick':
        hp = sorted(set(structured_encodings('hp', r, 2500) + list(range(0, 1 << 16, 37))
                        + list(range(0x0000, 0x0420)) + list(range(0x8000, 0x8420)) + list(range(0x7b00, 0x7c02))))
    else:
        hp = list(range(1 << 16))
    for b in hp:
        x = oracle_fpnum_enc(res, H, st, 'hp', b)
        st.add('spec-decode-vs-struct', f'spec-decode hp | {b}', fl2s(hp2f(b)), ('hp', b))
        res.count(('hp', b), hist={'hp_class': enc_class('hp', b)})
        if x is not None and not isinstance(x, str) and (b % 7 == 0 or enc_class('hp', b) != 'normal'):
            pool.append(x)
    n_sp, n_dp = (6000, 5000) if tier == 'quick' else (120000, 90000)
    for fmt, n, stride in (('sp', n_sp, 1), ('dp', n_dp, 1 if tier != 'quick' else 3)):
        for b in structured_encodings(fmt, r, n, stride):
            x = oracle_fpnum_enc(res, H, st, fmt, b)
            oracle_fph(res, H, st, fmt, b)
            res.count((fmt, b), hist={fmt + '_class': enc_class(fmt, b)})
            if x is not None and not isinstance(x, str) and r.chance(1, 20 if tier == 'quick' else 150):
                pool.append(x)
    # python float -> FPNum -> dp / sp  (FPNum(v) constructor, adjust_sem)
    for i in range(3000 if tier == 'quick' else 40000):
        b = r.randint(0, (1 << 64) - 1)
        if i % 4 == 0:
            b &= 0x800FFFFFFFFFFFFF
        if i % 3 == 0:
            b = f2dp(sp2f(r.randint(0, (1 << 32) - 1)))
        if i % 13 == 0:
            b = (b & (1 << 63)) | r.choice([0, 1, (1 << 52) - 1, 1 << 52, 0x7FEFFFFFFFFFFFFF, 0x7FF0000000000000, 0x3FF0000000000000])
        if enc_class('dp', b) == 'nan':
            continue
        f = dp2f(b)
        x = real(H.FPNum, f)
        st.add('fpnum-float', f'fpfloat | {fl2s(f)}', fp2s(x), f)
        if isinstance(x, str):
            fail(res, f'FPNum({f!r}) raised', dict(kind='fpnum-float', bits=b, observed=x))
            continue
        rt = real(x.convert, 'dp')
        st.add('fpnum-convert', f'fpconv dp | {fp2s(x)}', i2s(rt), ('float', b))
        if rt != b:
            fail(res, f"FPNum({f!r}).convert('dp') = {rt}, platform says {b:#x}", dict(kind='fpnum-float', bits=b, observed=rt))
        t = real(x.to_float)
        if not same_float(t, f):
            fail(res, f'FPNum({f!r}).to_float() = {t!r}', dict(kind='fpnum-float', bits=b, observed=repr(t)))
        res.count(('float', b), hist={'float_class': enc_class('dp', b)})
        if r.chance(1, 30 if tier == 'quick' else 300):
            pool.append(x)
    # doubles that are NOT single-representable through sp_to_ieee754 (rounding branches): correspondence only
    FH = H.FloatingPointHelper
    for i in range(1500 if tier == 'quick' else 20000):
        b = r.randint(0, (1 << 64) - 1)
        if i % 2 == 0:
            # around the single range
            b = f2dp(sp2f(r.randint(0, (1 << 32) - 1) & 0x7FFFFFFF | (r.next() & 1) << 31)) if True else b
            if enc_class('dp', b) in ('nan', 'inf'):
                continue
            b ^= r.choice([0, 1 << 28, (1 << 29) - 1, 1 << 29, r.randint(0, (1 << 30) - 1)])
        if enc_class('dp', b) == 'nan':
            continue
        f = dp2f(b)
        st.add('fph-encode-sp-any-double', f'enc sp | {fl2s(f)}', i2s(real(FH.sp_to_ieee754, f)), b)
        st.add('fph-parts', f'encp dp | {fl2s(f)}', tup2s(real(FH.dp_to_ieee754_parts, f)), b)
        pr = real(FH.fp_to_parts, f)
        if isinstance(pr, str):
            ps = pr
        else:
            n, d = abs(pr[2]).as_integer_ratio()
            k = -(d.bit_length() - 1)
            while n and n % 2 == 0:
                n //= 2
                k += 1
            ps = f'{pr[0]},{pr[1]},{n}:{k if n else 0}'
        st.add('fph-fp_to_parts', f'parts | {fl2s(f)}', ps, b)
        res.count(('anydouble', b))
    # pack / unpack
    for i in range(800 if tier == 'quick' else 20000):
        s, e, m = r.randint(-2, 3), r.randint(-3, 5000), r.randint(-5, 1 << 60)
        st.add('pack', f'fppack hp | {s},{e},{m}', i2s(real(H.FPNum.pack_ieee754_hp_parts, s, e, m)))
        st.add('pack', f'fppack sp | {s},{e},{m}', i2s(real(H.FPNum.pack_ieee754_sp_parts, s, e, m)))
        st.add('pack', f'fppack dp | {s},{e},{m}', i2s(real(H.FPNum.pack_ieee754_dp_parts, s, e, m)))
        st.add('pack', f'fppack fphsp | {s},{e},{m}', i2s(real(FH.pack_ieee754_sp_parts, s, e, m)))
        v = r.randint(0, (1 << 70)) if i % 4 else -r.randint(0, (1 << 70))      # values not reduced to the width, negative ints included
        st.add('unpack', f'fpunpack hp | {v}', tup2s(real(H.FPNum.unpack_ieee754_hp_parts, v)))
        st.add('unpack', f'fpunpack sp | {v}', tup2s(real(H.FPNum.unpack_ieee754_sp_parts, v)))
        st.add('unpack', f'fpunpack dp | {v}', tup2s(real(H.FPNum.unpack_ieee754_dp_parts, v)))
        st.add('unpack', f'fpunpack fphsp | {v}', tup2s(real(FH.unpack_ieee754_sp_parts, v)))
        st.add('unpack', f'fpunpack fphdp | {v}', tup2s(real(FH.unpack_ieee754_dp_parts, v)))



# ---------------------------------------------------------------------------------------------- narrowing / representable values
def fmt_consts(fmt):
    eb, mb, _ = FMT[fmt]
    return eb, mb, (1 << (eb - 1)) - 1, (1 << eb) - 1


def decode_fraction(fmt, b):
    """IEEE 754 value function on a finite pattern, as (neg, Fraction magnitude) — specification, independent of struct"""
    eb, mb, bias, emask = fmt_consts(fmt)
    neg = (b >> (eb + mb)) & 1
    e = (b >> mb) & emask
    m = b & ((1 << mb) - 1)
    if e == 0:
        return neg, Fraction(m) * Fraction(2) ** (1 - bias - mb)
    return neg, Fraction((1 << mb) + m) * Fraction(2) ** (e - bias - mb)


def floor_log2(q):
    """floor(log2 q) for a positive Fraction"""
    e = q.numerator.bit_length() - q.denominator.bit_length()
    if Fraction(2) ** e > q:
        e -= 1
    assert Fraction(2) ** e <= q < Fraction(2) ** (e + 1)
    return e


def trunc_encode(fmt, neg, mag):
    """SPECIFICATION of FPNum.convert on a finite value (theorem fpnum_convert_rounds_toward_zero), stated on the VALUE:
    magnitude rounded toward zero to the target's grid, subnormal below the smallest normal, infinity from 2^(emax+1) on"""
    eb, mb, bias, emask = fmt_consts(fmt)
    sbit = neg << (eb + mb)
    if mag == 0:
        return sbit
    e = floor_log2(mag)
    if e + bias >= emask:
        return sbit | (emask << mb)
    E = max(e, 1 - bias)
    N = (mag / Fraction(2) ** (E - mb)).__floor__()
    if N >= (1 << mb):
        return sbit | ((E + bias) << mb) | (N - (1 << mb))
    return sbit | N


def platform_encode(fmt, neg, mag):
    """the pattern of `fmt` that denotes exactly (-1)^neg * mag, or None when the value is not representable in fmt"""
    eb, mb, bias, emask = fmt_consts(fmt)
    b = trunc_encode(fmt, neg, mag)
    if ((b >> mb) & emask) == emask:
        return None
    n2, m2 = decode_fraction(fmt, b)
    return b if m2 == mag else None


ENC = {'sp': f2sp, 'dp': f2dp, 'hp': lambda x: struct.unpack('<H', struct.pack('<e', x))[0]}


def oracle_convert_value(res, H, st, x, neg, mag, origin, rc):
    """x: a finite FPNum denoting (-1)^neg * mag (exactly, checked by the callers).  For every format:
       - value representable in the format  ->  x.convert(fmt) must be the platform's encoding (struct)   [the property]
       - otherwise the Lean specification (truncFields via the driver) and the Fraction specification must describe what the code
         returned (correspondence of the rounding-mode theorem; a difference is a model disagreement, not a property failure)"""
    X = fp2s(x)
    norm = is_pow2(x.p) and (x.m == 0 or x.p <= x.m < 2 * x.p)
    for fmt in ('hp', 'sp', 'dp'):
        got = real(x.convert, fmt)
        st.add('fpnum-convert', f'fpconv {fmt} | {X}', i2s(got), (origin, fmt))
        plat = platform_encode(fmt, neg, mag)
        spec = trunc_encode(fmt, neg, mag)
        if plat is not None:
            # cross-check the Fraction specification against struct (validates the oracle, not the code)
            fl = FMT[fmt][2](plat)
            if Fraction(fl) != (-mag if neg else mag) or ENC[fmt](fl) != plat or spec != plat:
                res.disagree('oracle-vs-struct', dict(fmt=fmt, plat=plat, spec=spec, neg=neg, mag=str(mag)))
            if got != plat:
                fail(res, f"{origin}.convert({fmt!r}) = {got if isinstance(got, str) else hex(got)}, but the value {'-' if neg else ''}{float(mag)!r} "
                          f"is representable in {fmt} and the platform encodes it as {plat:#x}",
                     dict(rc, kind='fpnum-narrow', to=fmt, observed=got, expected=plat, comps=list(x.components())))
            res.hist('narrow_representable', fmt + ':' + enc_class(fmt, plat))
        else:
            res.hist('narrow_inexact', fmt + ':' + enc_class(fmt, spec))
            st.add('narrow-trunc-vs-code', f'spec-trunc {fmt} | {X}', i2s(got) if norm else 'nonnorm', (origin, fmt))
        # the Lean specification (Helper/Spec.lean truncFields) agrees with the Fraction specification on this value
        st.add('spec-trunc-vs-fraction', f'spec-trunc {fmt} | {X}', str(spec) if norm else 'nonnorm', (origin, fmt))


def narrow_sources(src, dst, rng, n_random):
    """source patterns around every boundary of the target format: for target patterns t (zero, smallest/largest subnormal,
    smallest normal, largest finite, around 1, random) the source encodings of value(t) + {0, 1 src-ulp, half-1, half, half+1,
    ulp-1} target ulps, both signs; beyond the largest finite / below the smallest subnormal; random"""
    ebs, mbs, biass, emasks = fmt_consts(src)
    ebd, mbd, biasd, emaskd = fmt_consts(dst)
    enc_src = lambda q: platform_encode(src, 0, q)
    out = []
    tpats = [0, 1, 2, 3, (1 << mbd) - 1, (1 << mbd) - 2, 1 << mbd, (1 << mbd) + 1, ((emaskd - 1) << mbd) | ((1 << mbd) - 1),
             ((emaskd - 1) << mbd) | ((1 << mbd) - 2), (emaskd - 1) << mbd, biasd << mbd, (biasd << mbd) | 1, (biasd << mbd) - 1,
             1 << (mbd - 1), (1 << (mbd - 1)) + 1]
    for i in range(n_random // 8):
        tpats.append(rng.randint(0, ((emaskd) << mbd) - 1))
        tpats.append(rng.randint(0, (2 << mbd)))              # subnormal region and the first normal binade
    for t in tpats:
        _, v = decode_fraction(dst, t)
        _, vn = decode_fraction(dst, t + 1) if ((t + 1) >> mbd) < emaskd else (0, v + (v - decode_fraction(dst, t - 1)[1]))
        ulp = vn - v
        for num, den in ((0, 1), (1, 2), (1, 4), (3, 4)):
            q = v + ulp * num / den
            s0 = enc_src(q)
            if s0 is None:
                continue
            for d in (0, 1, -1):
                s = s0 + d
                if 0 <= s < (emasks << mbs):
                    out.append(s)
    # overflow: 2^(emax+1) of the target and its source neighbours; far beyond; underflow: around half the smallest subnormal
    top = Fraction(2) ** (emaskd - biasd)
    tiny = Fraction(2) ** (1 - biasd - mbd)
    for q in (top, top * 2, top * 1024, tiny, tiny / 2, tiny / 4, tiny * 3 / 4, tiny / 1024):
        s0 = enc_src(q)
        if s0 is not None:
            for d in (0, 1, -1):
                if 0 <= s0 + d < (emasks << mbs):
                    out.append(s0 + d)
    for i in range(n_random):
        k = rng.next() % 3
        if k == 0:
            out.append(rng.randint(0, (emasks << mbs) - 1))
        else:   # inside the exponent range of the target (incl. its subnormal range)
            e = rng.randint(1 - biasd - mbd - 2, emaskd - biasd + 1) + biass
            if 1 <= e < emasks:
                m = rng.randint(0, (1 << mbs) - 1)
                if k == 2:
                    m &= ~((1 << rng.randint(0, mbs)) - 1)     # few significant bits: often representable in the target
                out.append((e << mbs) | m)
    sign = 1 << (ebs + mbs)
    return [s | (sign if (i % 2) else 0) for i, s in enumerate(out)]


def run_narrow(res, tier, rng, H, st, pool):
    r = rng.fork('narrow')
    n = 240 if tier == 'quick' else 3000
    for src, dst in (('dp', 'sp'), ('dp', 'hp'), ('sp', 'hp')):
        for b in narrow_sources(src, dst, r, n):
            x = real(H.FPNum, b, src)
            if isinstance(x, str):
                fail(res, f'FPNum({b:#x},{src!r}) raised', dict(kind='fpnum-roundtrip', fmt=src, bits=b, observed=x))
                continue
            neg, mag = decode_fraction(src, b)
            if not (is_finite_fp(x) and fpnum_value(x) == (-mag if neg else mag)):
                continue          # reported by oracle_fpnum_enc's value check (kind fpnum-value) on the same pattern
            oracle_convert_value(res, H, st, x, neg, mag, f'FPNum({b:#x},{src!r})', dict(fmt=src, bits=b))
            res.count(('narrow', src, b), hist={'narrow_pair': src + '->' + dst})
    # FPNum(float) for floats that are representable in single / half precision: convert(fmt) = the pattern they came from
    for fmt, pats in (('hp', sorted(set(list(range(0, 0x0402)) + [0x7BFF, 0x7BFE, 0x7C00, 0x3C00, 0x3BFF, 0x3C01] +
                                        [r.randint(0, 0x7BFF) for _ in range(300 if tier == 'quick' else 4000)]))),
                      ('sp', structured_encodings('sp', r, 300 if tier == 'quick' else 4000, 2 if tier != 'quick' else 8))):
        eb, mb, tof = FMT[fmt]
        for b in pats:
            for sg in (0, 1 << (eb + mb)):
                bb = (b & ~(1 << (eb + mb))) | sg
                if enc_class(fmt, bb) == 'nan':
                    continue
                f = tof(bb)
                x = real(H.FPNum, f)
                st.add('fpnum-float', f'fpfloat | {fl2s(f)}', fp2s(x), f)
                if isinstance(x, str):
                    fail(res, f'FPNum({f!r}) raised', dict(kind='fpnum-float', bits=f2dp(f), observed=x))
                    continue
                got = real(x.convert, fmt)
                st.add('fpnum-convert', f'fpconv {fmt} | {fp2s(x)}', i2s(got), ('float', fmt, bb))
                if got != bb:
                    fail(res, f"FPNum({f!r}).convert({fmt!r}) = {got if isinstance(got, str) else hex(got)}, platform says {bb:#x}",
                         dict(kind='fpnum-float-narrow', fmt=fmt, bits=bb, observed=got))
                if not math.isinf(f) and is_finite_fp(x):
                    oracle_convert_value(res, H, st, x, 1 if math.copysign(1.0, f) < 0 else 0, abs(Fraction(f)), f'FPNum({f!r})',
                                         dict(float_bits=f2dp(f)))
                res.count(('floatnarrow', fmt, bb), hist={'float_narrow_class': fmt + ':' + enc_class(fmt, bb)})
    # results of exact arithmetic: whatever is representable must get the platform's encoding
    ar = [x for x in pool if is_finite_fp(x)]
    for i in range(350 if tier == 'quick' else 5000):
        a, b = r.choice(ar), r.choice(ar)
        op = r.choice(['add', 'sub', 'mul'])
        if r.chance(1, 6):
            b = a
        z = real(getattr(a, op), b)
        va, vb = fpnum_value(a), fpnum_value(b)
        want = va + vb if op == 'add' else va - vb if op == 'sub' else va * vb
        if not is_finite_fp(z) or fpnum_value(z) != want:
            continue              # reported by oracle_arith on its own pairs
        if want == 0:
            neg = 1 if z.s < 0 else 0       # the sign of an exact zero is the implementation's choice; both zeros denote 0
        else:
            neg = 1 if want < 0 else 0
        oracle_convert_value(res, H, st, z, neg, abs(want), f'FPNum{tuple(a.components())}.{op}(FPNum{tuple(b.components())})',
                             dict(op=op, a=list(a.components()), b=list(b.components())))
        res.count(('arith-convert', op, fp2s(a), fp2s(b)))

# ---------------------------------------------------------------------------------------------- (3) FPNum arithmetic
def is_finite_fp(x):
    return (not isinstance(x, str)) and x.s in (1, -1) and x.m >= 0 and x.p > 0 and not x.infinity and not x.nan


def is_pow2(p):
    return p > 0 and (p & (p - 1)) == 0


def snapshot(x, bits=False):
    """what a caller can observe of an operand: components + flags, and (bits=True) its encodings in all three formats"""
    snap = fp2s(x)
    if bits:
        import io, contextlib
        with contextlib.redirect_stdout(io.StringIO()):      # convert() prints 'ERROR converting …' before a failing assert
            snap += ' | ' + ' '.join(i2s(real(x.convert, f)) for f in ('hp', 'sp', 'dp'))
    return snap


def oracle_arith(res, H, st, a, b, specq):
    """exact sums/differences/products and rational order, on the implementation's results; and PURITY: neither operand
    is modified by any operation (snapshot before, compare after every call; the same objects are then re-used in a chain
    of operations, as user code would, and re-observed at the end incl. their convert() bits)"""
    A, B = fp2s(a), fp2s(b)
    same_obj = a is b
    a0, b0 = list(a.components()), list(b.components())
    bits0 = (snapshot(a, True), snapshot(b, True))

    def purity(op):
        sa, sb = fp2s(a), fp2s(b)
        if sa != A or sb != B:
            fail(res, f'FPNum{tuple(a0)}.{op}(FPNum{tuple(b0)}) modified its operands: self {A} -> {sa}, argument {B} -> {sb}',
                 dict(kind='fpnum-purity', op=op, a=a0, b=b0, self_after=sa, arg_after=sb))
            return False
        return True
    # the type's invariant: precisions are powers of two (all constructors from encodings / floats and the arithmetic
    # itself keep it; with another p the code's own assert(a.p == b.p) can fail -> correspondence only, see notes)
    fin = is_finite_fp(a) and is_finite_fp(b) and is_pow2(a.p) and is_pow2(b.p)
    va, vb = (fpnum_value(a), fpnum_value(b)) if fin else (None, None)
    pure = True
    results = {}
    for op, pyop in (('add', lambda: va + vb), ('sub', lambda: va - vb), ('mul', lambda: va * vb)):
        r = real(getattr(a, op), b)
        results[op] = r
        st.add('fpnum-' + op, f'fp{op} | {A} | {B}', fp2s(r), (A, B))
        pure = purity(op) and pure
        if fin:
            good = is_finite_fp(r) and fpnum_value(r) == pyop()
            if not good:
                fail(res, f'FPNum{tuple(a0)}.{op}(FPNum{tuple(b0)}) = {r if isinstance(r, str) else r.components()}: not the exact {op}',
                     dict(kind='fpnum-arith', op=op, a=a0, b=b0, observed=fp2s(r)))
            if is_finite_fp(r):
                specq.append((f'spec-arith {op} | {A} | {B} | {fp2s(r)}', '1' if good else '0', (op, A, B)))
    c = real(a.compare, b)
    st.add('fpnum-compare', f'fpcmp | {A} | {B}', i2s(c), (A, B))
    pure = purity('compare') and pure
    if fin:
        exp = (va > vb) - (va < vb)
        specq.append((f'spec-cmp | {A} | {B}', str(exp), ('cmp', A, B)))
        if c != exp:
            fail(res, f'FPNum{tuple(a0)}.compare(FPNum{tuple(b0)}) = {c}, rationals compare {exp}',
                 dict(kind='fpnum-compare', a=a0, b=b0, observed=c, expected=exp))
    # chain on the SAME objects: (a+b)-b = a, b+a = a+b, (a-b)+b = a, (a*b) compared with itself via b*a
    if fin and pure:
        chain = []
        for name, fn, want in (
                ('(a+b)-b', lambda: results['add'].sub(b), va),
                ('b+a', lambda: b.add(a), va + vb),
                ('(a-b)+b', lambda: results['sub'].add(b), va),
                ('b*a', lambda: b.mul(a), va * vb),
                ('b-a', lambda: b.sub(a), vb - va)):
            r = real(fn)
            ok_ = is_finite_fp(r) and fpnum_value(r) == want
            chain.append(name)
            if not ok_:
                fail(res, f'chain {name} on a=FPNum{tuple(a0)}, b=FPNum{tuple(b0)} gives {r if isinstance(r, str) else r.components()}, not the exact result',
                     dict(kind='fpnum-purity', op='chain:' + name, a=a0, b=b0, observed=fp2s(r)))
            if not purity('chain:' + name):
                pure = False
                break
        c2 = real(b.compare, a)
        if c2 != -((va > vb) - (va < vb)):
            fail(res, f'FPNum{tuple(b0)}.compare(FPNum{tuple(a0)}) = {c2} after the chain', dict(kind='fpnum-compare', a=b0, b=a0, observed=c2))
        pure = purity('chain:compare') and pure
    # what the caller sees of both operands afterwards, including their encodings
    bits1 = (snapshot(a, True), snapshot(b, True))
    if pure and bits1 != bits0:
        fail(res, f'operands FPNum{tuple(a0)}, FPNum{tuple(b0)} encode differently after add/sub/mul/compare: {bits0} -> {bits1}',
             dict(kind='fpnum-purity', op='convert-after', a=a0, b=b0, before=list(bits0), after=list(bits1)))
    res.hist('purity_checked', 'same-object' if same_obj else 'distinct')


def run_arith(res, tier, rng, H, st, pool):
    r = rng.fork('arith')
    FPNum = H.FPNum
    small = []
    for s in (1, -1):
        for e in range(-2, 3):
            for m in range(0, 9):
                for p in (1, 2, 4, 8):
                    small.append((s, e, m, p))
    specq = []
    # constructor correspondence + adjust_semp value preservation on the implementation
    ctor = list(small)
    for i in range(1500 if tier == 'quick' else 15000):
        ctor.append((r.choice([1, -1]), r.randint(-1100, 1100), r.bits(r.randint(1, 120)), 1 << r.randint(0, 110)))
    for i in range(200 if tier == 'quick' else 4000):     # non-power-of-two precisions, odd signs: error/assert paths
        ctor.append((r.choice([1, -1, 0, 2]), r.randint(-5, 5), r.randint(0, 40), r.randint(1, 12)))
    objs = []
    for (s, e, m, p) in ctor:
        x = real(FPNum, s, e, m, p)
        st.add('fpnum-ctor4', f'fpnew | {s},{e},{m},{p}', fp2s(x), (s, e, m, p))
        if not isinstance(x, str) and p > 0 and s in (1, -1):
            if fpnum_value(x) != Fraction(s * m, p) * Fraction(2) ** e:
                fail(res, f'FPNum({s},{e},{m},{p}) = {x.components()} changed the value',
                     dict(kind='fpnum-ctor', s=s, e=e, m=m, p=p, observed=fp2s(x)))
            if m > 0 and not (x.p <= x.m < 2 * x.p):
                fail(res, f'FPNum({s},{e},{m},{p}) = {x.components()} is not normalised (p <= m < 2p)',
                     dict(kind='fpnum-ctor', s=s, e=e, m=m, p=p, observed=fp2s(x)))
            objs.append(x)
        res.count(('ctor', s, e, m, p), hist={'ctor_p_pow2': (p & (p - 1)) == 0})
    smallobjs = objs[:len(small)]
    pool = pool + objs[len(small):len(small) + (300 if tier == 'quick' else 3000)]
    specials = [real(FPNum, b, f) for f, b in (('sp', 0x7F800000), ('sp', 0xFF800000), ('sp', 0x7FC00000), ('dp', 0x7FF0000000000000),
                                               ('hp', 0xFC00), ('sp', 0), ('sp', 0x80000000), ('dp', 1 << 63), ('dp', 1), ('sp', 1))]
    specials = [x for x in specials if not isinstance(x, str)]
    pairs = []
    if tier == 'quick':
        for i in range(2500):
            pairs.append((r.choice(smallobjs), r.choice(smallobjs)))
    else:
        for a in smallobjs:
            for b in smallobjs[::9] + [a]:
                pairs.append((a, b))
    for a in specials:
        for b in specials:
            pairs.append((a, b))
    npool = 2500 if tier == 'quick' else 25000
    for i in range(npool):
        a, b = r.choice(pool), r.choice(pool)
        k = r.next() % 8
        if k == 0:
            b = a
        elif k == 1:
            b = real(a.neg)
            if isinstance(b, str):
                continue
        elif k == 2:
            b = r.choice(specials)
        elif k == 3:
            a = r.choice(smallobjs)
        pairs.append((a, b))
    # the zero family in EVERY operand position of every operation: literal / decoded zeros of both signs and every format, zeros left
    # by a cancellation (x - x, x + (-x)) or by a product with zero, against non-zero values, specials and each other
    zeros = [real(FPNum, 0.0), real(FPNum, -0.0), real(FPNum, 0, 'sp'), real(FPNum, 0x8000, 'hp'), real(FPNum, 1 << 63, 'dp'),
             real(FPNum, 1, 0, 0, 1), real(FPNum, -1, 5, 0, 8)]
    nz = [x for x in pool if is_finite_fp(x) and x.m != 0]
    for i in range(6):
        x = r.choice(nz)
        zeros.append(real(x.sub, x))
        ng = real(x.neg)
        if not isinstance(ng, str):
            zeros.append(real(x.add, ng))
        zeros.append(real(x.mul, r.choice(zeros[:5])))
    zeros = [z for z in zeros if not isinstance(z, str)]
    others = [r.choice(nz) for _ in range(10)] + [r.choice(smallobjs) for _ in range(6)] + specials[:3]
    for z in zeros:
        for y in others:
            pairs.append((z, y))
            pairs.append((y, z))
        pairs.append((z, r.choice(zeros)))
    # operands whose precisions are not powers of two: asserts
    odd = [x for x in objs if (x.p & (x.p - 1)) != 0][:40]
    for a in odd:
        pairs.append((a, r.choice(smallobjs)))
        pairs.append((r.choice(smallobjs), a))
    for a, b in pairs:
        oracle_arith(res, H, st, a, b, specq)
        res.count(('arith', fp2s(a), fp2s(b)),
                  hist={'arith_operands': ('finite' if is_finite_fp(a) else 'special') + '/' + ('finite' if is_finite_fp(b) else 'special'),
                        'arith_exp_gap': min(abs(a.e - b.e), 2000) // 100 * 100})
    # unary ops / loops (correspondence)
    for i in range(600 if tier == 'quick' else 15000):
        a = r.choice(pool)
        A = fp2s(a)
        st.add('fpnum-neg', f'fpneg | {A}', fp2s(real(a.neg)))
        st.add('fpnum-abs', f'fpabs | {A}', fp2s(real(a.abs)))
        n = r.randint(0, 40)
        st.add('fpnum-div2', f'fpdiv2 | {A} | {n}', fp2s(real(a.div2, n)))
        if is_finite_fp(a):
            c = a.copy()
            pr = r.randint(0, 60)
            def rp():
                c.reducePrecision(pr)
                return c
            st.add('fpnum-reducePrecision', f'fpredp | {A} | {pr}', fp2s(real(rp)))
            c2 = a.copy()
            ne = a.e + r.randint(-3, 40)
            def ie():
                c2.increase_exponent(ne)
                return c2
            st.add('fpnum-increase_exponent', f'fpincexp | {A} | {ne}', fp2s(real(ie)))
            c3 = a.copy()
            np_ = a.p << r.randint(0, 30)
            def ip():
                c3.increase_precision(np_)
                return c3
            st.add('fpnum-increase_precision', f'fpincprec | {A} | {np_}', fp2s(real(ip)))
    # the Lean specification functions agree with the Fraction oracle on the observed results
    for req, exp, case in specq:
        st.add('spec-vs-fraction', req, exp, case)


# ---------------------------------------------------------------------------------------------- corpus / replay
def replay_case(res, H, st, rc):
    k = rc.get('kind')
    FP = H.FPNum
    def mk(c):
        x = FP()
        x.s, x.e, x.m, x.p = c[:4]
        return x
    if k == 'c2':
        oracle_c2(res, H, rc['v'], rc['w'])
    elif k == 'sext':
        oracle_sext(res, H, rc['v'], rc['w'], rc['nw'])
    elif k == 'fx':
        oracle_fx(res, H, rc['op'], rc['sw'], rc['iw'], rc['fw'], rc['a'], rc['b'])
    elif k in ('fpnum-roundtrip', 'fpnum-tofloat', 'fpnum-widen', 'fpnum-value'):
        oracle_fpnum_enc(res, H, st, rc['fmt'], rc['bits'])
    elif k in ('fph-encode', 'fph-decode'):
        oracle_fph(res, H, st, rc['fmt'], rc['bits'])
    elif k in ('fpnum-compare', 'fpnum-arith', 'fpnum-purity'):
        oracle_arith(res, H, st, mk(rc['a']), mk(rc['b']), [])
    elif k == 'fpnum-narrow':
        if 'bits' in rc:
            x = real(FP, rc['bits'], rc['fmt'])
            neg, mag = decode_fraction(rc['fmt'], rc['bits'])
            origin = f"FPNum({rc['bits']:#x},{rc['fmt']!r})"
        elif 'float_bits' in rc:
            f = dp2f(rc['float_bits'])
            x = real(FP, f)
            neg, mag, origin = (1 if math.copysign(1.0, f) < 0 else 0), abs(Fraction(f)), f'FPNum({f!r})'
        else:
            a, b = mk(rc['a']), mk(rc['b'])
            x = real(getattr(a, rc['op']), b)
            origin = f"FPNum{tuple(rc['a'])}.{rc['op']}(FPNum{tuple(rc['b'])})"
            if is_finite_fp(x):
                v = fpnum_value(x)
                neg, mag = (1 if (v < 0 or (v == 0 and x.s < 0)) else 0), abs(v)
        if is_finite_fp(x):
            oracle_convert_value(res, H, st, x, neg, mag, origin, {kk: vv for kk, vv in rc.items() if kk in ('fmt', 'bits', 'float_bits', 'op', 'a', 'b')})
        else:
            fail(res, f'{origin} is not a finite FPNum', rc)
    elif k == 'fpnum-float-narrow':
        f = FMT[rc['fmt']][2](rc['bits'])
        x = real(FP, f)
        got = x if isinstance(x, str) else real(x.convert, rc['fmt'])
        if got != rc['bits']:
            fail(res, f"FPNum({f!r}).convert({rc['fmt']!r}) = {got}, platform says {rc['bits']:#x}", dict(rc, observed=got))
    elif k == 'fpnum-float':
        b = rc['bits']
        x = real(FP, dp2f(b))
        if isinstance(x, str) or real(x.convert, 'dp') != b:
            fail(res, f'FPNum({dp2f(b)!r}) does not convert back to {b:#x}', rc)
    elif k == 'fpnum-ctor':
        x = real(FP, rc['s'], rc['e'], rc['m'], rc['p'])
        if isinstance(x, str) or fpnum_value(x) != Fraction(rc['s'] * rc['m'], rc['p']) * Fraction(2) ** rc['e']:
            fail(res, f'FPNum({rc["s"]},{rc["e"]},{rc["m"]},{rc["p"]}) changed the value', rc)


def run_corpus(res, H, st, replay):
    cases = [k['witness'] for k in PROPOSED_FINDINGS]
    cdir = os.path.join(VERIF, 'corpus', 'C12')
    if os.path.isdir(cdir):
        for fn in sorted(os.listdir(cdir)):
            if fn.endswith('.json'):
                d = json.load(open(os.path.join(cdir, fn)))
                cases += d if isinstance(d, list) else [d]
    if replay:
        d = json.load(open(replay))
        cases += [f['replay'] for f in d.get('failing_inputs', [])]
    for rc in cases:
        replay_case(res, H, st, rc)
        res.count(('corpus', json.dumps(rc, sort_keys=True)))
    # permanent regression cases of C12-fx-iw0 (fixed by b11b379): Q0.7 with sign, through the float constructor and back
    FX = H.FixedPoint
    for op, exp in (('add', 0.75), ('sub', -0.25), ('mult', 0.125)):
        def q07():
            return getattr(FX(1, 0, 7, 0.25), op)(FX(1, 0, 7, 0.5)).toFloatingPoint()
        got = real(q07)
        if got != exp:
            fail(res, f'FixedPoint(1,0,7,0.25).{op}(FixedPoint(1,0,7,0.5)) = {got}, expected {exp}',
                 dict(kind='fx', op=op, sw=1, iw=0, fw=7, a=32, b=64, observed=got if isinstance(got, str) else repr(got), expected=exp))
        res.count(('q07', op))
    # the other half-precision subnormal boundary witnesses
    for b in (0x0001, 0x03FF, 0x8001, 0x83FF, 0x0200):
        oracle_fpnum_enc(res, H, st, 'hp', b)


# ---------------------------------------------------------------------------------------------- main
def main(res, tier, rng, replay):
    signal.signal(signal.SIGALRM, _alarm)
    ok, metas, errors, changed = regenerate()
    for e in errors:
        res.broken.append(('translator', 'py2lean', e))
    res.proof_stage('Py4hwV.Props.C12', OBLIGATIONS)
    okm, out = lean_build(['Py4hwV.Helper.Spec'])       # what the driver imports (builds even when a proof broke)
    if not okm:
        res.broken.append(('model', 'Py4hwV.Helper.Spec', 'model does not build: ' + ' // '.join([l for l in out.split('\n') if 'error' in l][:5])))
    import py4hw.helper as H
    st = Streams(res)
    if not okm:
        st.dead = True
    import time
    walls = {}
    pool = []
    for name, fn in (('corpus', lambda: run_corpus(res, H, st, replay)), ('c2', lambda: run_c2(res, tier, rng, H, st)),
                     ('fx', lambda: run_fx(res, tier, rng, H, st)), ('encodings', lambda: run_encodings(res, tier, rng, H, st, pool)),
                     ('narrow', lambda: run_narrow(res, tier, rng, H, st, pool)), ('arith', lambda: run_arith(res, tier, rng, H, st, pool)),
                     ('flush', st.flush)):
        t0 = time.time()
        fn()
        walls[name] = round(time.time() - t0, 1)
    res.cov['wall_by_stage_s'] = walls
    res.cov['model_vs_implementation_lines'] = st.n
    res.cov['disagreements_by_stream'] = st.ndis
    res.cov['rule'] = ('distinct = distinct (function, arguments) case. two\'s complement / signExtend: all values for widths <= 6 (8 thorough) '
                       'plus seeded boundary values to 200 bits; FixedPoint: all formats of total width <= 5 (6 thorough) x all raw pairs '
                       'plus seeded formats to ~80 bits; half: all subnormals/boundaries + stride (all 2^16 thorough); single/double: every '
                       'exponent x boundary mantissas x sign + seeded random; FPNum arithmetic/compare: pairs over a small exhaustive '
                       '(s,e,m,p) grid, decoded hp/sp/dp values, python floats, special values. Every case: model (Lean driver) vs '
                       'helper.py, and the property oracle (struct / Fraction / int arithmetic) on helper.py\'s results; the Lean spec '
                       'functions (FPNum.value, ratCmp, IEEE.decode) are cross-checked against Fraction / struct on the same cases.')
    res.assumptions += [
        'float exactness: on finite doubles every float operation used by FloatingPointHelper / FPNum.adjust_sem (x2, /2, -1, scaling by '
        '2^k, math.pow(2,k), comparisons, round, int) is exact, so the model computes with exact dyadics (exercised by the correspondence)',
        'IEEE.decode (Lean) is the standard\'s value function: compared with struct.unpack on every explored encoding',
        'FPNum.to_float (Decimal arithmetic) is not modelled: only the oracle (vs struct) observes it',
        'division, sqrt, reducePrecisionWithRounding, reduceExponentPrecision are not part of the claim and are not modelled',
        'FixedPoint products are specified on the SIGNED reading of both raw encodings, also for formats with sign_bit = 0 (that is what mult computes)',
    ]


if __name__ == '__main__':
    main_wrapper('C12', main)
