"""C10 — A clock domain advances exactly when its enable is active.  DESIGN.md §5 C10, lean/Py4hwV/Props/C10.lean."""
from common import *
import t1, gen_designs as G, dump_ir as D

OBLIGATIONS = ['C10.driverOf_nearest', 'C10.driverOf_none', 'C10.lookup_addTo', 'C10.lookup_group', 'C10.gated_hold_state',
               'C10.mem_enabledClockables', 'C10.disabled_not_clocked', 'C10.gated_hold_wire', 'C10.clkCycle_congr_enabled',
               'C10.enabledClockables_ungate', 'C10.gated_transparent', 'C10.domains_independent_state',
               'C10.domains_independent_wire', 'C05.leaf_sees_pre_edge', 'C05.unclocked_keeps_state', 'C05.clockDrivers_eq']


def spec_driver(obj):
    """the property's rule: nearest ancestor-or-self with a driver"""
    o = obj
    while o is not None:
        if o.clockDriver is not None:
            return o.clockDriver
        o = o.parent
    return None


def hierarchy_stream(res, rng, n):
    """random hierarchies: real getObjectClockDriver / Simulator grouping vs model"""
    import py4hw
    from py4hw.base import getObjectClockDriver
    import py4hw.logic.storage as S
    reqs, exp = [], []
    for t in range(n):
        r = rng.fork(('h', t))
        sysobj = py4hw.HWSystem()
        top_has = not r.chance(1, 6)
        if not top_has:
            sysobj.clockDriver = None
        conts = [sysobj]
        drivers = [sysobj.clockDriver] if top_has else []
        for i in range(r.randint(0, 7)):
            c = py4hw.Logic(r.choice(conts), f'c{i}')
            if r.chance(1, 3):
                c.clockDriver = py4hw.ClockDriver(f'd{i}', base=None)
                drivers.append(c.clockDriver)
            conts.append(c)
        leaves = []
        for i in range(r.randint(1, 8)):
            p = r.choice(conts)
            d = sysobj.wire(f'd{i}', 4)
            q = sysobj.wire(f'q{i}', 4)
            leaves.append(S.Reg(p, f'r{i}', d, q))
            if r.chance(1, 4):
                leaves[-1].clockDriver = py4hw.ClockDriver(f'ld{i}', base=None)
                drivers.append(leaves[-1].clockDriver)
        did = {id(d): j + 1 for j, d in enumerate(drivers)}
        ok_all = True
        for lf in leaves:
            chain, o = [], lf
            while o is not None:
                chain.append(did[id(o.clockDriver)] if o.clockDriver is not None else 0)
                o = o.parent
            try:
                got = did[id(getObjectClockDriver(lf))]
            except Exception:
                got = 'E'
                ok_all = False
            want = spec_driver(lf)
            want = did[id(want)] if want is not None else 'E'
            if got != want:
                res.fail('getObjectClockDriver does not return the nearest ancestor driver',
                         dict(chain=chain, got=got, want=want))
            reqs.append('chain | ' + ','.join(map(str, chain)))
            exp.append(str(got))
            res.count(('chain', tuple(chain)), hist={'chain_len': len(chain), 'chain_result': 'E' if got == 'E' else 'drv'})
        if ok_all:
            sim = sysobj.getSimulator()
            lid = {id(l): i for i, l in enumerate(sysobj.allLeaves())}
            pairs = [(did[id(spec_driver(l))], lid[id(l)]) for l in sysobj.allLeaves() if l.isClockable()]
            reqs.append('group | ' + ','.join(f'{d}:{k}' for d, k in pairs))
            try:
                exp.append(';'.join(f"{did[id(drv)]}={','.join(str(lid[id(o)]) for o in ds.clockables)}"
                                    for drv, ds in sim.clockDrivers.items()))
            except Exception as e_:
                # the simulator no longer groups its clockable leaves by ClockDriver object: nothing to compare with the model here
                # (reported as a disagreement); the gating oracle on the random designs decides the property on the implementation
                exp.append(f'E:{type(e_).__name__}')
            res.count(('group', tuple(pairs)))
    outs = run_driver('Drv/C10.lean', reqs)
    for rq, a, e in zip(reqs, outs, exp):
        if a.strip() != e:
            res.disagree('hierarchy', dict(request=rq, lean=a, python=e))


def gating_oracle(res, summary):
    """returns a per-clk checker closure over (sysobj, leaves)"""
    def mk(sysobj, seqleaves):
        state = {}

        def before():
            state.clear()
            for lf in seqleaves:
                drv = spec_driver(lf)
                enw = None if drv is None else getattr(drv, '_verif_enable', drv.enable)     # the enable wire the design asked for
                en = 1 if enw is None else enw.get()
                attrs = {k: (list(v) if isinstance(v, list) else v) for k, v in vars(lf).items()
                         if isinstance(v, (int, list)) and not isinstance(v, bool) and k not in ('n',)}
                outs = {p.name: p.wire.get() for p in lf.outPorts}
                ins = {p.name: p.wire.get() for p in lf.inPorts}
                state[id(lf)] = (lf, en, attrs, outs, ins)

        def after():
            for lf, en, attrs, outs, ins in state.values():
                nattrs = {k: (list(v) if isinstance(v, list) else v) for k, v in vars(lf).items() if k in attrs}
                nouts = {p.name: p.wire.get() for p in lf.outPorts}
                k = type(lf).__name__
                if en == 0:
                    if nattrs != attrs or nouts != outs:
                        res.fail('a block under a disabled clock driver changed state or output across the edge',
                                 dict(summary, leaf=lf.name, kind=k, before=(attrs, outs), after=(nattrs, nouts)))
                elif k == 'Reg':
                    # ungated behaviour = the register rule on pre-edge inputs
                    w = lf.q.getWidth()
                    val = attrs['value']
                    if ins.get('r') == 1:
                        val = lf.reset_value
                    elif ins.get('e', 1) != 0:
                        val = ins['d']
                    if nouts['q'] != (val & ((1 << w) - 1)):
                        res.fail('a block under an enabled clock driver did not step like an ungated block',
                                 dict(summary, leaf=lf.name, pre_inputs=ins, pre_value=attrs['value'], q_after=nouts['q'], expected=val))
        return before, after
    return mk


def late_driver_stream(res, rng, n):
    """the clock driver of a container is attached, replaced or removed AFTER the simulator was first obtained (no leaf added or removed),
    getSimulator() is called again and the run continues: from then on every sequential leaf must follow the driver that is NOW its
    nearest ancestor's (hold when that driver's enable was 0 before the edge, step like an ungated block otherwise)"""
    import py4hw, contextlib, io
    for i in range(n):
        r = rng.fork(i)
        plan = G.random_plan(r, r.randint(4, 16), seq_ratio=(2, 3), wmax=r.choice([1, 2, 4]), n_domains=r.randint(1, 3),
                             kinds=['And2', 'Not', 'Buf', 'Mux2', 'Constant', 'Reg', 'Sequence', 'AddCarryIn'])
        try:
            with contextlib.redirect_stdout(io.StringIO()):
                sysobj, ins, W, leaves = G.build(plan)
                sim = sysobj.getSimulator()
        except Exception as e:
            res.hist('build_errors', str(e)[:50])
            continue
        conts = []
        def walk(o):
            for c in o.children.values():
                if type(c).__name__ == 'Logic':
                    conts.append(c)
                    walk(c)
        walk(sysobj)
        if not conts:
            continue
        seq = [lf for lf in sysobj.allLeaves() if lf.isClockable()]
        log = []
        summary = dict(plan=G.plan_summary(plan), history=log)
        before, after = gating_oracle(res, summary)(sysobj, seq)
        one_bit = [w for w in D.all_wires(sysobj) if w.getWidth() == 1]

        def run(k):
            for _ in range(k):
                for w in ins:
                    v = r.bits(w.getWidth())
                    w.put(v)
                    log.append(('poke', w.name, v))
                sim.propagateAll()
                before()
                sim.clk(1)
                after()
                log.append(('clk', 1))
        n0 = len(res.failures) + len(res.known_hits)
        try:
            with contextlib.redirect_stdout(io.StringIO()):
                run(r.randint(1, 4))
                for _ in range(r.randint(1, 2)):
                    c = r.choice(conts)
                    how = r.choice(['attach', 'attach', 'remove'])
                    if how == 'attach' and one_bit:
                        en = r.choice(one_bit)
                        c.clockDriver = py4hw.ClockDriver(f'late{len(log)}', base=sysobj.clockDriver, enable=en)
                        c.clockDriver._verif_enable = en
                        log.append(('set-driver', c.name, 'gated by ' + en.name))
                    else:
                        c.clockDriver = None
                        log.append(('remove-driver', c.name))
                    sim = sysobj.getSimulator()
                    log.append(('getSimulator',))
                    run(r.randint(2, 6))
        except Exception as e:
            res.hist('simulation_errors', f'late-driver:{type(e).__name__}:{str(e)[:40]}')
        res.count(('late-driver', i, str(log)[:200]), nontrivial=True, hist={'late_driver_changes': sum(1 for x in log if x[0] in ('set-driver', 'remove-driver'))})
        if len(res.failures) + len(res.known_hits) > n0:
            break


def root_gated_stream(res, rng, n):
    """the gated clock driver is the HWSystem's OWN driver (passed to the constructor, with or without a clock wire; its enable is a
    wire of a small holder system driven by the bench): every sequential block of the system inherits it and must hold across every
    edge at which the enable was 0 and step like an ungated block otherwise"""
    import py4hw, contextlib, io
    for i in range(n):
        r = rng.fork(i)
        holder = py4hw.HWSystem()
        en = holder.wire('en', r.choice([1, 1, 2]))
        with_wire = r.chance(1, 3)
        drv = py4hw.ClockDriver('gclk', enable=en, wire=(holder.wire('gck') if with_wire else None))
        drv._verif_enable = en
        hw = py4hw.HWSystem(clock_driver=drv)
        w = r.randint(1, 8)
        d = hw.wire('d', w)
        qs = [hw.wire(f'q{k}', w) for k in range(r.randint(1, 4))]
        sub = py4hw.Logic(hw, 'sub') if r.chance(1, 2) else hw
        prev = d
        for k, q in enumerate(qs):
            py4hw.Reg(sub if k % 2 else hw, f'r{k}', prev, q)
            prev = q
        with contextlib.redirect_stdout(io.StringIO()):
            sim = hw.getSimulator()
        seq = [lf for lf in hw.allLeaves() if lf.isClockable()]
        log = []
        summary = dict(design="HWSystem(clock_driver=ClockDriver('gclk', enable=<bench wire>" + (', wire=…' if with_wire else '') + ')) with a register chain',
                       width=w, registers=len(qs), history=log)
        for lf in seq:
            if spec_driver(lf) is not drv:
                res.fail('a block of a system whose own clock driver is gated does not inherit that driver',
                         dict(summary, leaf=lf.getFullPath(), driver=str(getattr(spec_driver(lf), 'name', None))))
        before, after = gating_oracle(res, summary)(hw, seq)
        n0 = len(res.failures) + len(res.known_hits)
        for t in range(r.randint(4, 14)):
            e = r.choice([0, 0, 1, 1, (1 << en.getWidth()) - 1])
            v = r.bits(w)
            en.put(e)
            d.put(v)
            log.append((e, v))
            sim.propagateAll()
            before()
            sim.clk(1)
            after()
            if len(res.failures) + len(res.known_hits) > n0:
                break
        res.count(('root-gated', i, w, len(qs), with_wire), nontrivial=True, hist={'root_gated_designs': 1})


def main(res, tier, rng, replay):
    import py4hw
    ok, metas, errors, changed = regenerate()
    for e in errors:
        res.broken.append(('translator', 'py2lean', e))
    res.proof_stage('Py4hwV.Props.C10', OBLIGATIONS)
    try:
        hierarchy_stream(res, rng.fork('hier'), 150 if tier == 'quick' else 3000)
    except ToolFailure as e:
        res.broken.append(('correspondence', 'hierarchy', str(e)[:300]))
    n_designs = 150 if tier == 'quick' else 3000
    nb = D.NetBatch(res, 'net-sim-domains')
    for i in range(n_designs):
        r = rng.fork(('d', i))
        plan = G.random_plan(r, r.randint(3, 22), seq_ratio=(2, 3), wmax=r.choice([1, 2, 4, 8]), n_domains=r.randint(1, 4),
                             kinds=['And2', 'Or2', 'Not', 'Buf', 'Mux2', 'Constant', 'Bit', 'Reg', 'Sequence', 'SynchronousMemory',
                                    'AutoReset', 'AddCarryIn'])
        order = r.shuffle(range(len(plan['nodes'])))
        try:
            sysobj, ins, W, leaves = G.build(plan, inst_order=order)
            if i % 3 == 1:
                # output-less sequential blocks (stream captures, user-written accumulators) inside the domains: their only state is
                # internal, and it must hold across disabled edges like every other block's
                from py4hw.logic.simulation import StreamCapture
                rs = r.fork('sinks')
                conts_ = []
                def walk_(o):
                    for c in o.children.values():
                        if type(c).__name__ == 'Logic':
                            conts_.append(c)
                            walk_(c)
                walk_(sysobj)
                ws_ = D.all_wires(sysobj)

                class Acc(py4hw.Logic):
                    def __init__(self, parent, name, x):
                        super().__init__(parent, name)
                        self.x = self.addIn('x', x)
                        self.total, self.edges = 0, 0

                    def clock(self):
                        self.total = (self.total * 3 + self.x.get()) & 0xFFFF
                        self.edges += 1
                for k_ in range(min(3, len(conts_) + 1)):
                    par = rs.choice(conts_) if conts_ else sysobj
                    (StreamCapture if rs.chance(1, 2) else Acc)(par, f'sink{k_}', rs.choice(ws_))
            sim = sysobj.getSimulator()
        except Exception as e:
            res.hist('build_errors', str(e)[:50])
            continue
        ops = []
        raw_ops = G.random_ops(r, ins, r.randint(6, 24))
        for o in raw_ops:
            ops += [('clk', 1)] * o[1] if o[0] == 'clk' else [o]
        summary = dict(plan=G.plan_summary(plan), inst_order=order,
                       ops=[(o[0], o[1].name, o[2]) if o[0] == 'poke' else o for o in ops])
        seq = [lf for lf in sysobj.allLeaves() if lf.isClockable()]
        before, after = gating_oracle(res, summary)(sysobj, seq)
        # run on the implementation with the oracle around every clk(1); queue the same for the model
        hold = {'n': 0, 'run': 0}
        real_clk = sim.clk

        def clk_wrapped(n=1, _b=before, _a=after, _c=real_clk, _s=sim):
            _s.propagateAll()   # clk() settles the combinational logic first: pre-edge values are the settled ones
            _b()
            _c(n)
            _a()
        sim.clk = clk_wrapped
        try:
            nb.add(sysobj, ops, sim=sim, label=i)
        except D.NotDumpable:
            continue
        # the same design and stimulus with the multi-cycle clk(n) calls NOT split: the enable of a gated domain is a design wire
        # that may change between the edges of one call; every edge inside the call must gate on the value before THAT edge
        try:
            sys2, ins2, W2, leaves2 = G.build(plan, inst_order=order)
            sim2 = sys2.getSimulator()
            n2 = {w.name: w for w in D.all_wires(sys2)}
            for o in raw_ops:
                if o[0] == 'poke':
                    n2[o[1].name].put(o[2])
                else:
                    sim2.clk(o[1])
            sim.propagateAll()
            sim2.propagateAll()
            fin1 = {w.name: w.value for w in D.all_wires(sysobj)}
            fin2 = {nm: w.value for nm, w in n2.items()}
            if fin1 != fin2 or sim.total_clks != sim2.total_clks:
                diff = {k: (fin1[k], fin2.get(k)) for k in fin1 if fin1[k] != fin2.get(k)}
                res.fail('inside a multi-cycle clk(n) call the domains are not gated edge by edge: the state differs from the same stimulus '
                         'applied with single-cycle calls',
                         dict(summary, raw_ops=[(o[0], o[1].name, o[2]) if o[0] == 'poke' else o for o in raw_ops],
                              differing_wires_single_vs_multi=dict(list(diff.items())[:8]), total_clks=(sim.total_clks, sim2.total_clks)))
        except Exception as e_:
            res.hist('simulation_errors', f'unsplit:{type(e_).__name__}:{str(e_)[:40]}')
        gated = sum(1 for dm in plan['domains'][1:] if dm['gated'])
        res.count(('design', i, str(summary)), nontrivial=gated >= 1 and len(seq) >= 2, hist={'gated_domains': gated})
        if i < 2:
            res.sample(summary)
        if len(nb.jobs) >= 150:
            try:
                nb.run()
            except ToolFailure as e:
                res.broken.append(('correspondence', 'net-sim-domains', str(e)[:300]))
                nb = D.NetBatch(res, 'net-sim-domains')
    try:
        nb.run()
    except ToolFailure as e:
        res.broken.append(('correspondence', 'net-sim-domains', str(e)[:300]))
    late_driver_stream(res, rng.fork('late-driver'), 40 if tier == 'quick' else 800)
    root_gated_stream(res, rng.fork('root-gated'), 40 if tier == 'quick' else 800)
    res.cov['rule'] = ('hierarchy stream: random container trees with drivers at random levels (incl. none at the root), real '
                       'getObjectClockDriver and Simulator.clockDrivers grouping vs the Lean model and vs the nearest-ancestor rule; '
                       'designs: seeded multi-domain netlists (gated drivers whose enables are arbitrary design wires incl. registers inside '
                       'the domain), every clk(1) bracketed by the hold / ungated-step oracle on the implementation, all wires compared with '
                       'the Lean model; non-trivial = at least one gated domain and two sequential leaves')
    res.assumptions += ['each clockable leaf is registered under exactly one driver (lookup_group) so the Nodup hypothesis of the theorems holds',
                        'Verilog-side gating (GatedClock body) belongs to C01']


if __name__ == '__main__':
    main_wrapper('C10', main)
