"""C10 — A clock domain advances exactly when its enable is active.  DESIGN.md §5 C10, lean/Py4hwV/Props/C10.lean."""
from common import *
import t1, gen_designs as G, dump_ir as D

OBLIGATIONS = ['C10.driverOf_natural', 'C10.driverOf_obj_only', 'C10.driverOf_same_objects', 'C10.getObjectClockDriver_eq',
               'C10.getObjectClockDriver_self', 'C10.getObjectClockDriver_inherit', 'C10.lookupDom_addDom', 'C10.domains_lookup',
               'C10.domainsFrom_none', 'C10.domains_attr_irrelevant', 'C10.domains_enabled_nodup', 'C10.mem_enabled_domains',
               'C10.hier_gated_hold_state', 'C10.hier_gated_hold_iter', 'C10.hier_gated_hold_wire', 'C10.hier_enabled_steps', 'C10.hier_step_like_ungated',
               'C10.hier_other_domains_unaffected',
               'C10.driverOf_nearest', 'C10.driverOf_none', 'C10.lookup_addTo', 'C10.lookup_group', 'C10.gated_hold_state',
               'C10.mem_enabledClockables', 'C10.disabled_not_clocked', 'C10.gated_hold_wire', 'C10.clkCycle_congr_enabled',
               'C10.enabledClockables_ungate', 'C10.gated_transparent', 'C10.domains_independent_state',
               'C10.domains_independent_wire', 'C05.leaf_sees_pre_edge', 'C05.unclocked_keeps_state', 'C05.clockDrivers_eq']


_ABSENT = object()


def asked_driver(o):
    """the driver object the DESIGN put on this block: the harness records it (`_verif_driver`) wherever it assigns a driver, so
    that nothing the code under test rewrites (clockDriver attributes, drivers' own fields) can move the oracle; blocks the harness
    never touched (the HWSystem with its default driver) answer with their attribute"""
    d = o.__dict__.get('_verif_driver', _ABSENT)
    return o.clockDriver if d is _ABSENT else d


def set_driver(o, drv):
    o.clockDriver = drv
    o._verif_driver = drv
    return drv


def spec_driver(obj):
    """the property's rule: nearest ancestor-or-self with a driver — the driver OBJECT, whatever its name, base or clock wire"""
    o = obj
    while o is not None:
        d = asked_driver(o)
        if d is not None:
            return d
        o = o.parent
    return None


def _nm(x):
    return ''.join(ch if ch.isalnum() else '-' for ch in str(x)) or '-'


class DrvIds:
    """numbers the ClockDriver objects, clock wires and enable wires of one system for the Lean records
    obj:name:base:wire:enable (0 = None) — all read from what the design ASKED for"""

    def __init__(self, sysobj):
        self.did, self.wid, self.asked = {}, {}, {}
        self.drivers = []
        self.enw = {id(w): i + 1 for i, w in enumerate(D.all_wires(sysobj))}

    def drv(self, d):
        if d is None:
            return 0
        if id(d) not in self.did:
            self.did[id(d)] = len(self.did) + 1
            self.drivers.append(d)
            # the attributes as they are at first sight = right after the design declared the driver
            en = d.__dict__.get('_verif_enable', _ABSENT)
            en = d.enable if en is _ABSENT else en
            self.asked[id(d)] = (d.name, d.base, d.wire, en)
        return self.did[id(d)]

    def wire(self, w):
        if w is None:
            return 0
        return self.wid.setdefault(id(w), len(self.wid) + 1)

    def enable(self, w):
        if w is None:
            return 0
        return self.enw.setdefault(id(w), len(self.enw) + 1)

    def tok(self, d):
        if d is None:
            return '_'
        o = self.drv(d)
        nm, base, wire, en = self.asked[id(d)]
        return f'{o}:{_nm(nm)}:{self.drv(base)}:{self.wire(wire)}:{self.enable(en)}'

    def chain(self, obj):
        out, o = [], obj
        while o is not None:
            out.append(self.tok(asked_driver(o)))
            o = o.parent
        return out


def domains_request(sysobj, sim, ids=None):
    """the clockable leaves of the system with their chains of ASKED driver records -> request for the Lean `domains`, and the
    simulator's real clockDrivers dict in the same notation"""
    ids = ids or DrvIds(sysobj)
    leaves = sysobj.allLeaves()
    lid = {id(l): i for i, l in enumerate(leaves)}
    if len(lid) != len(leaves):
        return 'domains | allLeaves() lists a leaf twice (hypothesis Nodup of the theorems)', 'holds'
    req = 'domains | ' + ';'.join(f"{lid[id(l)]}={','.join(ids.chain(l))}" for l in leaves if l.isClockable())
    try:
        parts = []
        for drv, ds in sim.clockDrivers.items():
            en = ids.asked[id(drv)][3] if id(drv) in ids.asked else drv.enable
            parts.append(f"{ids.did[id(drv)]}/{ids.enable(en) or '_'}={','.join(str(lid[id(o)]) for o in ds.clockables)}")
        exp = ';'.join(parts)
    except Exception as e_:
        exp = f'E:{type(e_).__name__}'
    return req, exp


def check_lookup(res, sysobj, objs, ids, reqs, exp, describe):
    """real getObjectClockDriver on every object of `objs` vs the nearest-ancestor-or-self rule (oracle) and vs the Lean
    transcription on the object tree / on the chain of full driver records"""
    from py4hw.base import getObjectClockDriver
    ok_all = True
    allobjs = []

    def walk(o):
        allobjs.append(o)
        for c in o.children.values():
            walk(c)
    walk(sysobj)
    oid = {id(o): i for i, o in enumerate(allobjs)}
    gots = []
    for lf in objs:
        chain = ids.chain(lf)
        want = spec_driver(lf)
        want = ids.drv(want) if want is not None else 'E'
        try:
            g = getObjectClockDriver(lf)
            got = ids.did.get(id(g), f'unknown-driver-{getattr(g, "name", g)}')
        except Exception:
            got = 'E'
            ok_all = False
        if got != want:
            res.fail('getObjectClockDriver does not return the nearest ancestor driver',
                     dict(describe(), block=lf.getFullPath(), chain_self_to_root_obj_name_base_wire_enable=chain, got=got, want=want))
        gots.append(str(got))
        reqs.append('chainx | ' + ','.join(chain))
        exp.append(str(got))
        short = tuple(0 if t == '_' else int(t.split(':')[0]) for t in chain)
        reqs.append('chain | ' + ','.join(map(str, short)))
        exp.append(str(got))
        shared = sum(1 for i, t in enumerate(chain) for u in chain[i + 1:] if t != '_' and u != '_' and t.split(':')[3] != '0' and t.split(':')[3] == u.split(':')[3])
        res.count(('chain', tuple(chain)), hist={'chain_len': len(chain), 'chain_result': 'E' if got == 'E' else 'drv',
                                                 'chain_has_shared_clock_wire': int(shared > 0)})
    reqs.append('tree | ' + ','.join(str(oid[id(o.parent)]) if o.parent is not None else '-1' for o in allobjs) + ' | '
                + ','.join(ids.tok(asked_driver(o)) for o in allobjs) + ' | ' + ','.join(str(oid[id(o)]) for o in objs))
    exp.append(','.join(gots))
    return ok_all


def hierarchy_stream(res, rng, n):
    """random hierarchies: real getObjectClockDriver / Simulator grouping vs model.  Drivers sit on the root, on containers and
    directly on leaves; each is declared without clock wire, on a wire of its own, or on THE SAME Wire object as another driver
    (an ancestor's, a sibling's, the system's); names collide; bases chain; some are gated"""
    import py4hw
    import py4hw.logic.storage as S
    reqs, exp = [], []
    for t in range(n):
        r = rng.fork(('h', t))
        sysobj = py4hw.HWSystem()
        top_has = not r.chance(1, 6)
        if not top_has:
            set_driver(sysobj, None)
        conts = [sysobj]
        drivers = [sysobj.clockDriver] if top_has else []
        ens = [sysobj.wire(f'en{i}', r.choice([1, 1, 3])) for i in range(2)]
        decl = []

        def new_driver(tag, parent_obj):
            mode = r.choice(['none', 'own', 'anc', 'anc', 'any'])
            near = spec_driver(parent_obj)
            wire = None
            if mode == 'own':
                wire = sysobj.wire(f'ck_{tag}')
            elif mode == 'anc' and near is not None:
                wire = near.wire
            elif mode == 'any' and drivers:
                wire = r.choice(drivers).wire
            base = r.choice([None, near, r.choice(drivers) if drivers else None])
            en = r.choice([None, ens[0], ens[1]])
            d = py4hw.ClockDriver(r.choice([f'd{tag}', 'gclk', 'clk']), base=base, enable=en, wire=wire)
            d._verif_enable = en
            drivers.append(d)
            decl.append((tag, mode, d.name, None if base is None else base.name, None if en is None else en.name))
            return d
        for i in range(r.randint(0, 7)):
            par = r.choice(conts)
            c = py4hw.Logic(par, f'c{i}')
            if r.chance(2, 5):
                set_driver(c, new_driver(f'c{i}', par))
            conts.append(c)
        leaves = []
        for i in range(r.randint(1, 8)):
            p = r.choice(conts)
            d = sysobj.wire(f'd{i}', 4)
            q = sysobj.wire(f'q{i}', 4)
            leaves.append(S.Reg(p, f'r{i}', d, q))
            if r.chance(1, 4):
                set_driver(leaves[-1], new_driver(f'r{i}', p))
        ids = DrvIds(sysobj)
        for d in drivers:
            ids.drv(d)
        ok_all = check_lookup(res, sysobj, leaves + conts[1:], ids, reqs, exp,
                              lambda: dict(tree={o.getFullPath(): (o.parent.getFullPath() if o.parent else None) for o in conts[1:] + leaves},
                                           drivers_declared_tag_wiremode_name_base_enable=decl, root_has_driver=top_has))
        if ok_all:
            sim = sysobj.getSimulator()
            lid = {id(l): i for i, l in enumerate(sysobj.allLeaves())}
            pairs = [(ids.drv(spec_driver(l)), lid[id(l)]) for l in sysobj.allLeaves() if l.isClockable()]
            reqs.append('group | ' + ','.join(f'{d}:{k}' for d, k in pairs))
            try:
                exp.append(';'.join(f"{ids.did[id(drv)]}={','.join(str(lid[id(o)]) for o in ds.clockables)}"
                                    for drv, ds in sim.clockDrivers.items()))
            except Exception as e_:
                # the simulator no longer groups its clockable leaves by ClockDriver object: nothing to compare with the model here
                # (reported as a disagreement); the gating oracle on the random designs decides the property on the implementation
                exp.append(f'E:{type(e_).__name__}')
            rq, ex = domains_request(sysobj, sim, ids)
            reqs.append(rq)
            exp.append(ex)
            res.count(('group', tuple(pairs)))
    outs = run_driver('Drv/C10.lean', reqs)
    for rq, a, e in zip(reqs, outs, exp):
        if a.strip() != e:
            res.disagree('hierarchy', dict(request=rq, lean=a, python=e))


def exhaustive_paths(res, max_depth=4):
    """EVERY path root → … → block of depth ≤ max_depth, every object on it carrying: no driver / a driver without clock wire / a
    driver on the clock wire shared by all 'S' drivers of the path (the system's own 'clk' wire when the root has its default
    driver) / a driver on a wire of its own; the root additionally: its default driver, or none at all.  Gating alternates
    along the path (it never takes part in the lookup)."""
    import py4hw, itertools
    reqs, exp = [], []
    for depth in range(1, max_depth + 1):
        for root_opt in ('default', 'none'):
            for combo in itertools.product('_NSO', repeat=depth):
                sysobj = py4hw.HWSystem()
                if root_opt == 'none':
                    set_driver(sysobj, None)
                en = sysobj.wire('en')
                shared = sysobj.clockDriver.wire if root_opt == 'default' else sysobj.wire('shared_ck')
                o, objs = sysobj, []
                for i, c in enumerate(combo):
                    o = py4hw.Logic(o, f'l{i}')
                    objs.append(o)
                    if c != '_':
                        w = None if c == 'N' else (shared if c == 'S' else sysobj.wire(f'ck{i}'))
                        d = py4hw.ClockDriver('clk', base=spec_driver(o.parent), enable=(en if i % 2 == 0 else None), wire=w)
                        d._verif_enable = d.enable
                        set_driver(o, d)
                ids = DrvIds(sysobj)
                check_lookup(res, sysobj, objs, ids, reqs, exp, lambda: dict(exhaustive_path=''.join(combo), root=root_opt,
                             legend='_ no driver, N driver without wire, S driver on the shared clock wire, O driver on its own wire'))
    outs = run_driver('Drv/C10.lean', reqs)
    for rq, a, e in zip(reqs, outs, exp):
        if a.strip() != e:
            res.disagree('hierarchy-exhaustive', dict(request=rq, lean=a, python=e))
    res.hist('exhaustive_paths', 'all paths up to depth %d' % max_depth, len(reqs))


def gating_oracle(res, summary):
    """returns a per-clk checker closure over (sysobj, leaves)"""
    def mk(sysobj, seqleaves):
        state = {}

        def before():
            state.clear()
            for lf in seqleaves:
                drv = spec_driver(lf)
                enw = None if drv is None else getattr(drv, '_verif_enable', drv.enable)     # the enable wire the design asked for
                en = 1 if enw is None else enw.get()
                attrs = {k: (list(v) if isinstance(v, list) else v) for k, v in vars(lf).items()
                         if isinstance(v, (int, list)) and not isinstance(v, bool) and k not in ('n',)}
                outs = {p.name: p.wire.get() for p in lf.outPorts}
                ins = {p.name: p.wire.get() for p in lf.inPorts}
                state[id(lf)] = (lf, en, attrs, outs, ins)

        def after():
            for lf, en, attrs, outs, ins in state.values():
                nattrs = {k: (list(v) if isinstance(v, list) else v) for k, v in vars(lf).items() if k in attrs}
                nouts = {p.name: p.wire.get() for p in lf.outPorts}
                k = type(lf).__name__
                if en == 0:
                    if nattrs != attrs or nouts != outs:
                        res.fail('a block under a disabled clock driver changed state or output across the edge',
                                 dict(summary, leaf=lf.name, kind=k, before=(attrs, outs), after=(nattrs, nouts)))
                elif k == 'Reg':
                    # ungated behaviour = the register rule on pre-edge inputs
                    w = lf.q.getWidth()
                    val = attrs['value']
                    if ins.get('r') == 1:
                        val = lf.reset_value
                    elif ins.get('e', 1) != 0:
                        val = ins['d']
                    if nouts['q'] != (val & ((1 << w) - 1)):
                        res.fail('a block under an enabled clock driver did not step like an ungated block',
                                 dict(summary, leaf=lf.name, pre_inputs=ins, pre_value=attrs['value'], q_after=nouts['q'], expected=val))
        return before, after
    return mk


def late_driver_stream(res, rng, n):
    """the clock driver of a container is attached, replaced or removed AFTER the simulator was first obtained (no leaf added or removed),
    getSimulator() is called again and the run continues: from then on every sequential leaf must follow the driver that is NOW its
    nearest ancestor's (hold when that driver's enable was 0 before the edge, step like an ungated block otherwise)"""
    import py4hw, contextlib, io
    for i in range(n):
        r = rng.fork(i)
        plan = G.random_plan(r, r.randint(4, 16), seq_ratio=(2, 3), wmax=r.choice([1, 2, 4]), n_domains=r.randint(1, 3),
                             kinds=['And2', 'Not', 'Buf', 'Mux2', 'Constant', 'Reg', 'Sequence', 'AddCarryIn'], driver_wires=True)
        try:
            with contextlib.redirect_stdout(io.StringIO()):
                sysobj, ins, W, leaves = G.build(plan)
                sim = sysobj.getSimulator()
        except Exception as e:
            res.hist('build_errors', str(e)[:50])
            continue
        conts = []
        def walk(o):
            for c in o.children.values():
                if type(c).__name__ == 'Logic':
                    conts.append(c)
                    walk(c)
        walk(sysobj)
        if not conts:
            continue
        seq = [lf for lf in sysobj.allLeaves() if lf.isClockable()]
        log = []
        summary = dict(plan=G.plan_summary(plan), history=log)
        before, after = gating_oracle(res, summary)(sysobj, seq)
        one_bit = [w for w in D.all_wires(sysobj) if w.getWidth() == 1]

        def run(k):
            for _ in range(k):
                for w in ins:
                    v = r.bits(w.getWidth())
                    w.put(v)
                    log.append(('poke', w.name, v))
                sim.propagateAll()
                before()
                sim.clk(1)
                after()
                log.append(('clk', 1))
        n0 = len(res.failures) + len(res.known_hits)
        try:
            with contextlib.redirect_stdout(io.StringIO()):
                run(r.randint(1, 4))
                for _ in range(r.randint(1, 2)):
                    c = r.choice(conts)
                    how = r.choice(['attach', 'attach', 'remove'])
                    if how == 'attach' and one_bit:
                        en = r.choice(one_bit)
                        near = spec_driver(c.parent)
                        wmode = r.choice(['none', 'none', 'own', 'enclosing', 'system'])
                        wire = {'none': None, 'own': sysobj.wire(f'lateck{len(log)}'), 'enclosing': None if near is None else near.wire,
                                'system': sysobj.clockDriver.wire}[wmode]
                        set_driver(c, py4hw.ClockDriver(f'late{len(log)}', base=sysobj.clockDriver, enable=en, wire=wire))
                        c.clockDriver._verif_enable = en
                        log.append(('set-driver', c.name, 'gated by ' + en.name, 'clock wire: ' + wmode))
                    else:
                        set_driver(c, None)
                        log.append(('remove-driver', c.name))
                    sim = sysobj.getSimulator()
                    log.append(('getSimulator',))
                    run(r.randint(2, 6))
        except Exception as e:
            res.hist('simulation_errors', f'late-driver:{type(e).__name__}:{str(e)[:40]}')
        res.count(('late-driver', i, str(log)[:200]), nontrivial=True, hist={'late_driver_changes': sum(1 for x in log if x[0] in ('set-driver', 'remove-driver'))})
        if len(res.failures) + len(res.known_hits) > n0:
            break


def root_gated_stream(res, rng, n):
    """the gated clock driver is the HWSystem's OWN driver (passed to the constructor, with or without a clock wire; its enable is a
    wire of a small holder system driven by the bench): every sequential block of the system inherits it and must hold across every
    edge at which the enable was 0 and step like an ungated block otherwise"""
    import py4hw, contextlib, io
    for i in range(n):
        r = rng.fork(i)
        holder = py4hw.HWSystem()
        en = holder.wire('en', r.choice([1, 1, 2]))
        with_wire = r.chance(1, 3)
        drv = py4hw.ClockDriver('gclk', enable=en, wire=(holder.wire('gck') if with_wire else None))
        drv._verif_enable = en
        hw = py4hw.HWSystem(clock_driver=drv)
        w = r.randint(1, 8)
        d = hw.wire('d', w)
        qs = [hw.wire(f'q{k}', w) for k in range(r.randint(1, 4))]
        sub = py4hw.Logic(hw, 'sub') if r.chance(1, 2) else hw
        prev = d
        for k, q in enumerate(qs):
            py4hw.Reg(sub if k % 2 else hw, f'r{k}', prev, q)
            prev = q
        with contextlib.redirect_stdout(io.StringIO()):
            sim = hw.getSimulator()
        seq = [lf for lf in hw.allLeaves() if lf.isClockable()]
        log = []
        summary = dict(design="HWSystem(clock_driver=ClockDriver('gclk', enable=<bench wire>" + (', wire=…' if with_wire else '') + ')) with a register chain',
                       width=w, registers=len(qs), history=log)
        hw._verif_driver = drv          # what the design asked for, whatever HWSystem.__init__ stored
        from py4hw.base import getObjectClockDriver
        for lf in seq:
            try:
                got_ = getObjectClockDriver(lf)
            except Exception as e_:
                got_ = e_
            if got_ is not drv:
                res.fail('a block of a system whose own clock driver is gated does not inherit that driver',
                         dict(summary, leaf=lf.getFullPath(), driver=str(getattr(got_, 'name', got_))))
        before, after = gating_oracle(res, summary)(hw, seq)
        n0 = len(res.failures) + len(res.known_hits)
        for t in range(r.randint(4, 14)):
            e = r.choice([0, 0, 1, 1, (1 << en.getWidth()) - 1])
            v = r.bits(w)
            en.put(e)
            d.put(v)
            log.append((e, v))
            sim.propagateAll()
            before()
            sim.clk(1)
            after()
            if len(res.failures) + len(res.known_hits) > n0:
                break
        res.count(('root-gated', i, w, len(qs), with_wire), nontrivial=True, hist={'root_gated_designs': 1})


def shared_wire_stream(res, rng, reps):
    """EVERY combination of: enclosing domain (the system's free-running driver | a gated driver without clock wire | on its own
    wire | on the system's clk wire) x inner driver (gated | free running) x inner clock wire (none | own | THE SAME Wire object as
    the enclosing domain's driver | the same as a sibling domain's driver) x placement of the inner driver (directly on a register |
    on the register's container | two levels above the register).  Enables are bench wires; every edge is bracketed by the hold /
    ungated-step oracle; the simulator's domains are compared with the Lean `domains` of the declared hierarchy."""
    import py4hw, contextlib, io, itertools
    reqs, exp = [], []
    for rep_ in range(reps):
        for outer_kind, inner_gated, inner_wire, place in itertools.product(
                ('system', 'gated-nowire', 'gated-ownwire', 'gated-syswire'), (True, False),
                ('none', 'own', 'enclosing', 'sibling'), ('register', 'container', 'two-levels')):
            r = rng.fork((rep_, outer_kind, inner_gated, inner_wire, place))
            hw = py4hw.HWSystem()
            w = r.randint(2, 8)
            en_o, en_i, en_s = hw.wire('en_outer', r.choice([1, 1, 2])), hw.wire('en_inner', r.choice([1, 1, 2])), hw.wire('en_sib')
            dw = hw.wire('d', w)
            outer = py4hw.Logic(hw, 'outer')
            if outer_kind != 'system':
                ow = {'gated-nowire': None, 'gated-ownwire': hw.wire('outer_ck'), 'gated-syswire': hw.clockDriver.wire}[outer_kind]
                set_driver(outer, py4hw.ClockDriver('gclk', base=hw.clockDriver, enable=en_o, wire=ow))
                outer.clockDriver._verif_enable = en_o
            sib = py4hw.Logic(outer, 'sib')
            set_driver(sib, py4hw.ClockDriver('gclk', base=spec_driver(outer), enable=en_s, wire=hw.wire('sib_ck')))
            sib.clockDriver._verif_enable = en_s
            iw = {'none': None, 'own': hw.wire('inner_ck'), 'enclosing': spec_driver(outer).wire, 'sibling': sib.clockDriver.wire}[inner_wire]
            inner_drv = py4hw.ClockDriver(r.choice(['gclk', 'clk', 'inner']), base=spec_driver(outer),
                                          enable=(en_i if inner_gated else None), wire=iw)
            inner_drv._verif_enable = inner_drv.enable
            qs = [hw.wire(f'q{k}', w) for k in range(6)]
            py4hw.Reg(hw, 'r_sys', dw, qs[0])
            py4hw.Reg(outer, 'r_outer', qs[0], qs[1])
            py4hw.Reg(sib, 'r_sib', qs[1], qs[2])
            if place == 'register':
                set_driver(py4hw.Reg(outer, 'r_in0', dw, qs[3]), inner_drv)
                py4hw.Reg(outer, 'r_outer2', qs[3], qs[4])
            else:
                inner = py4hw.Logic(outer, 'inner')
                set_driver(inner, inner_drv)
                host = inner if place == 'container' else py4hw.Logic(py4hw.Logic(inner, 'mid'), 'deep')
                py4hw.Reg(host, 'r_in0', dw, qs[3])
                py4hw.Reg(host, 'r_in1', qs[3], qs[4])
            with contextlib.redirect_stdout(io.StringIO()):
                sim = hw.getSimulator()
            seq = [lf for lf in hw.allLeaves() if lf.isClockable()]
            log = []
            summary = dict(enclosing_domain=outer_kind, inner_driver='gated' if inner_gated else 'free running',
                           inner_clock_wire=inner_wire, inner_driver_placed_on=place, width=w,
                           history_en_outer_en_inner_en_sib_d=log)
            rq, ex = domains_request(hw, sim)
            reqs.append(rq)
            exp.append(ex)
            before, after = gating_oracle(res, summary)(hw, seq)
            n0 = len(res.failures) + len(res.known_hits)
            for t in range(r.randint(6, 12)):
                vals = (r.choice([0, 0, 1, (1 << en_o.getWidth()) - 1]), r.choice([0, 0, 1, (1 << en_i.getWidth()) - 1]), r.choice([0, 1]), r.bits(w))
                for wr, v in zip((en_o, en_i, en_s, dw), vals):
                    wr.put(v)
                log.append(vals)
                sim.propagateAll()
                before()
                sim.clk(1)
                after()
                if len(res.failures) + len(res.known_hits) > n0:
                    break
            res.count(('shared-wire', rep_, outer_kind, inner_gated, inner_wire, place), nontrivial=True,
                      hist={'shared_wire_configs': f'{outer_kind}/{"gated" if inner_gated else "free"}/{inner_wire}/{place}'})
    try:
        outs = run_driver('Drv/C10.lean', reqs)
        for rq, a, e in zip(reqs, outs, exp):
            if a.strip() != e:
                res.disagree('domains-shared-wire', dict(request=rq, lean=a, python=e))
    except ToolFailure as e:
        res.broken.append(('correspondence', 'domains-shared-wire', str(e)[:300]))


def main(res, tier, rng, replay):
    import py4hw
    ok, metas, errors, changed = regenerate()
    for e in errors:
        res.broken.append(('translator', 'py2lean', e))
    res.proof_stage('Py4hwV.Props.C10Dom', OBLIGATIONS)
    try:
        exhaustive_paths(res, 4 if tier == 'quick' else 5)
    except ToolFailure as e:
        res.broken.append(('correspondence', 'hierarchy-exhaustive', str(e)[:300]))
    try:
        hierarchy_stream(res, rng.fork('hier'), 150 if tier == 'quick' else 3000)
    except ToolFailure as e:
        res.broken.append(('correspondence', 'hierarchy', str(e)[:300]))
    shared_wire_stream(res, rng.fork('shared-wire'), 1 if tier == 'quick' else 12)
    dom_reqs, dom_exp = [], []
    n_designs = 150 if tier == 'quick' else 3000
    nb = D.NetBatch(res, 'net-sim-domains')
    for i in range(n_designs):
        r = rng.fork(('d', i))
        plan = G.random_plan(r, r.randint(3, 22), seq_ratio=(2, 3), wmax=r.choice([1, 2, 4, 8]), n_domains=r.randint(1, 4),
                             kinds=['And2', 'Or2', 'Not', 'Buf', 'Mux2', 'Constant', 'Bit', 'Reg', 'Sequence', 'SynchronousMemory',
                                    'AutoReset', 'AddCarryIn'], driver_wires=True)
        order = r.shuffle(range(len(plan['nodes'])))
        try:
            sysobj, ins, W, leaves = G.build(plan, inst_order=order)
            if i % 3 == 1:
                # output-less sequential blocks (stream captures, user-written accumulators) inside the domains: their only state is
                # internal, and it must hold across disabled edges like every other block's
                from py4hw.logic.simulation import StreamCapture
                rs = r.fork('sinks')
                conts_ = []
                def walk_(o):
                    for c in o.children.values():
                        if type(c).__name__ == 'Logic':
                            conts_.append(c)
                            walk_(c)
                walk_(sysobj)
                ws_ = D.all_wires(sysobj)

                class Acc(py4hw.Logic):
                    def __init__(self, parent, name, x):
                        super().__init__(parent, name)
                        self.x = self.addIn('x', x)
                        self.total, self.edges = 0, 0

                    def clock(self):
                        self.total = (self.total * 3 + self.x.get()) & 0xFFFF
                        self.edges += 1
                for k_ in range(min(3, len(conts_) + 1)):
                    par = rs.choice(conts_) if conts_ else sysobj
                    (StreamCapture if rs.chance(1, 2) else Acc)(par, f'sink{k_}', rs.choice(ws_))
            sim = sysobj.getSimulator()
        except Exception as e:
            res.hist('build_errors', str(e)[:50])
            continue
        try:
            rq_, ex_ = domains_request(sysobj, sim)
            dom_reqs.append(rq_)
            dom_exp.append(ex_)
        except Exception as e:
            res.hist('simulation_errors', f'domains-request:{type(e).__name__}:{str(e)[:40]}')
        ops = []
        raw_ops = G.random_ops(r, ins, r.randint(6, 24))
        for o in raw_ops:
            ops += [('clk', 1)] * o[1] if o[0] == 'clk' else [o]
        summary = dict(plan=G.plan_summary(plan), inst_order=order,
                       ops=[(o[0], o[1].name, o[2]) if o[0] == 'poke' else o for o in ops])
        seq = [lf for lf in sysobj.allLeaves() if lf.isClockable()]
        before, after = gating_oracle(res, summary)(sysobj, seq)
        # run on the implementation with the oracle around every clk(1); queue the same for the model
        hold = {'n': 0, 'run': 0}
        real_clk = sim.clk

        def clk_wrapped(n=1, _b=before, _a=after, _c=real_clk, _s=sim):
            _s.propagateAll()   # clk() settles the combinational logic first: pre-edge values are the settled ones
            _b()
            _c(n)
            _a()
        sim.clk = clk_wrapped
        try:
            nb.add(sysobj, ops, sim=sim, label=i)
        except D.NotDumpable:
            continue
        # the same design and stimulus with the multi-cycle clk(n) calls NOT split: the enable of a gated domain is a design wire
        # that may change between the edges of one call; every edge inside the call must gate on the value before THAT edge
        try:
            sys2, ins2, W2, leaves2 = G.build(plan, inst_order=order)
            sim2 = sys2.getSimulator()
            n2 = {w.name: w for w in D.all_wires(sys2)}
            for o in raw_ops:
                if o[0] == 'poke':
                    n2[o[1].name].put(o[2])
                else:
                    sim2.clk(o[1])
            sim.propagateAll()
            sim2.propagateAll()
            fin1 = {w.name: w.value for w in D.all_wires(sysobj)}
            fin2 = {nm: w.value for nm, w in n2.items()}
            if fin1 != fin2 or sim.total_clks != sim2.total_clks:
                diff = {k: (fin1[k], fin2.get(k)) for k in fin1 if fin1[k] != fin2.get(k)}
                res.fail('inside a multi-cycle clk(n) call the domains are not gated edge by edge: the state differs from the same stimulus '
                         'applied with single-cycle calls',
                         dict(summary, raw_ops=[(o[0], o[1].name, o[2]) if o[0] == 'poke' else o for o in raw_ops],
                              differing_wires_single_vs_multi=dict(list(diff.items())[:8]), total_clks=(sim.total_clks, sim2.total_clks)))
        except Exception as e_:
            res.hist('simulation_errors', f'unsplit:{type(e_).__name__}:{str(e_)[:40]}')
        gated = sum(1 for dm in plan['domains'][1:] if dm['gated'])
        res.count(('design', i, str(summary)), nontrivial=gated >= 1 and len(seq) >= 2,
                  hist={'gated_domains': gated, 'free_running_sub_drivers': sum(1 for dm in plan['domains'][1:] if dm.get('free_driver')),
                        'domain_clock_wire': '+'.join(sorted(set(dm.get('wire_mode', '-') for dm in plan['domains'][1:]
                                                                 if dm['gated'] or dm.get('free_driver')))) or '-'})
        if i < 2:
            res.sample(summary)
        if len(nb.jobs) >= 150:
            try:
                nb.run()
            except ToolFailure as e:
                res.broken.append(('correspondence', 'net-sim-domains', str(e)[:300]))
                nb = D.NetBatch(res, 'net-sim-domains')
    try:
        nb.run()
    except ToolFailure as e:
        res.broken.append(('correspondence', 'net-sim-domains', str(e)[:300]))
    try:
        outs_ = run_driver('Drv/C10.lean', dom_reqs)
        for rq_, a_, e_ in zip(dom_reqs, outs_, dom_exp):
            if a_.strip() != e_:
                res.disagree('domains', dict(request=rq_, lean=a_, python=e_))
    except ToolFailure as e:
        res.broken.append(('correspondence', 'domains', str(e)[:300]))
    late_driver_stream(res, rng.fork('late-driver'), 40 if tier == 'quick' else 800)
    root_gated_stream(res, rng.fork('root-gated'), 40 if tier == 'quick' else 800)
    res.cov['rule'] = ('exhaustive: every root-to-block path of depth <= 4 (5 thorough) with each object carrying no driver / a driver without '
                       'clock wire / on the shared clock wire / on its own wire, root with its default driver or none; shared-wire stream: every '
                       'combination enclosing domain x inner driver gating x inner clock wire (none/own/same Wire object as the enclosing / a '
                       'sibling driver) x placement, under the hold / ungated-step oracle; '
                       'hierarchy stream: random container trees with drivers at random levels (incl. none at the root; clock wires none / own / '
                       'shared with an ancestor or any other driver; colliding names; base chains), real '
                       'getObjectClockDriver and Simulator.clockDrivers grouping vs the Lean model (tree recursion, chain of full driver '
                       'records, domains dict) and vs the nearest-ancestor rule evaluated on the drivers the design ASKED for; '
                       'designs: seeded multi-domain netlists (gated drivers whose enables are arbitrary design wires incl. registers inside '
                       'the domain), every clk(1) bracketed by the hold / ungated-step oracle on the implementation, all wires compared with '
                       'the Lean model; non-trivial = at least one gated domain and two sequential leaves')
    res.assumptions += ['allLeaves() lists every leaf once (checked per design) and one ClockDriver object has one set of attributes (Coherent): '
                        'from these the Nodup hypothesis of the gating theorems is DERIVED (domains_enabled_nodup)',
                        'Verilog-side gating (GatedClock body) belongs to C01']


if __name__ == '__main__':
    main_wrapper('C10', main)
