"""C03 — Emitted Verilog is self-consistent: it parses, resolves and elaborates.
See DESIGN.md §5 C03, lean/Py4hwV/Verilog/WF.lean (checker + declarative rules), lean/Py4hwV/Props/C03.lean, notes/C03.md.

S1  proofs: WF.check is sound and complete for WF.WellFormed (one lemma per rule), signature congruence of instance binding,
    naming-function model.
S2  translation validation of the REAL emitter: for every seeded design the text returned by VerilogGenerator is parsed
    (harness/vparse.py, validated per text by the token round trip of harness/c03_vpp.py) and checked by the Lean checker
    through lean/Drv/C03.lean; every group of objects emitted under one module name is generated alone (fresh generator)
    and compared (signature in Lean, body in Lean).  Every error is a failing input of the property on the implementation;
    it is attributed to a listed finding only when its class predicate holds.
"""
import ast, inspect, io, contextlib, importlib.util, json, os, re, textwrap
from common import *
import vparse
import c03_vpp as P
import c03_designs as CD
import gen_vdesigns as GV

OBLIGATIONS = [
    'C03.checkE_iff', 'C03.check_sound', 'C03.check_complete', 'C03.error_is_real',
    'C03.modErrs_nil', 'C03.onceErrs_nil', 'C03.headerErrs_nil', 'C03.kwErrs_nil', 'C03.declErrs_nil', 'C03.connErrs_nil',
    'C03.instSigErrs_nil', 'C03.instErrs_nil', 'C03.driverErrs_nil', 'C03.bodyErrs_nil', 'C03.pdefErrs_nil',
    'V.WF.mem_exprIds', 'V.WF.mem_lhsIds', 'V.WF.mem_stmtIds', 'V.WF.mem_stmtTargets', 'V.WF.mem_itemIds', 'V.WF.mem_uses',
    'C03.instErrs_congr', 'C03.itemDrivers_congr', 'C03.bodyErrs_congr', 'C03.lookup_replace', 'C03.same_sig_interchangeable',
    'C03.abs_binding_counterexample_prefix_naming',
    'C03.localWireName_not_keyword', 'C03.getInstanceName_not_keyword', 'C03.reserved_prefix_not_keyword',
    'C03.validName_not_keyword', 'C03.validName_keyword_counterexample_prefix_table',
    'C03.port_reserved_collision_counterexample', 'C03.port_wire_collision_counterexample',
    'C03.port_instance_collision_counterexample',
    'V.WF.validName_inj', 'V.WF.emittedNames_nodup', 'V.WF.count_eq_one_of_nodup',
    'C03.emit_names_wf_partial', 'C03.emit_names_collision_counterexamples',
]

OBLIGATIONS_EMIT = [
    'C03Emit.emit_wf_flat', 'C03Emit.emit_checkE_flat', 'C03Emit.emit_check_flat', 'C03Emit.real_text_wf', 'C03Emit.facts',
    'C03Emit.dedup_find', 'C03Emit.dedup_names_nodup', 'C03Emit.dedup_mem', 'C03Emit.regModule_once', 'C03Emit.regModule_body',
    'C03Emit.names_top_nodup', 'C03Emit.top_once', 'C03Emit.rhs_ids', 'C03Emit.uses_top', 'C03Emit.top_kw', 'C03Emit.top_decl',
    'C03Emit.lookup_reg', 'C03Emit.width_net', 'C03Emit.width_clk', 'C03Emit.inst_reg', 'C03Emit.top_insts', 'C03Emit.drivers_top',
    'C03Emit.drv_len', 'C03Emit.count_childOut', 'C03Emit.top_drivers', 'C03Emit.emit_header', 'C03Emit.emit_body', 'C03Emit.emit_pdef',
    'C03Emit.emit_wf_hier', 'C03Emit.emit_checkE_hier', 'C03Emit.emit_check_hier', 'C03Emit.real_text_wf_hier', 'C03Emit.mfacts',
    'C03Emit.gk_targets', 'C03Emit.gk_ids', 'C03Emit.binChain_ids', 'C03Emit.decls_md', 'C03Emit.declNames_md', 'C03Emit.instNames_md',
    'C03Emit.names_md_nodup', 'C03Emit.md_once', 'C03Emit.uses_md', 'C03Emit.md_kw', 'C03Emit.md_decl', 'C03Emit.lookup_emit',
    'C03Emit.width_net_md', 'C03Emit.width_clk_md', 'C03Emit.lookup_reg_h', 'C03Emit.inst_reg_h', 'C03Emit.lookup_sub', 'C03Emit.inst_sub',
    'C03Emit.md_insts', 'C03Emit.sub_conn_drivers', 'C03Emit.ci_drivers', 'C03Emit.drivers_md', 'C03Emit.md_drv_len', 'C03Emit.md_drivers',
    'C03Emit.hemit_header', 'C03Emit.hemit_body', 'C03Emit.hemit_pdef',
    # the level-free list IS C01's nested description: HierSrc.toHS, `S.toHS.emit = S.emit`
    'C03Emit.hasRegN_eq', 'C03Emit.modHasRegN_eq', 'C03Emit.convN_hasClk', 'C03Emit.mdOfN_hasClk', 'C03Emit.ciItems_convN',
    'C03Emit.mdModule_mdOfN', 'C03Emit.toModule_modsOfN', 'C03Emit.toHS_mods', 'C03Emit.toHS_emit',
    'C03Emit.emit_wf_hierSrc', 'C03Emit.emit_check_hierSrc', 'C03Emit.real_text_wf_hierSrc',
]

# third proof stage: C03 and C01 about ONE emitted design (imports Props/C01Hier.lean read-only)
OBLIGATIONS_JOINT = ['C03Emit.emit_wf_and_run', 'C03Emit.real_text_wf_and_elab']

DRIVER = 'Drv/C03.lean'

# proposals for /verif/known_findings.json (the integrator merges them); applied locally until they are listed there.
# Every class_expr is a predicate over the replay dict r of ONE primary error (see classify()).
_SHARED = "r.get('kind') in ('wf','pair') and (r.get('kind')=='pair' or (r.get('err') in ('noPort','widthMismatch','unconnected') and r.get('bound_other')))"
PROPOSED_FINDINGS = [
    {"id": "C03-abs-optional-port", "property": "C03", "status": "fixed", "commit": "97fed70", "anchor": "py4hw/logic/arithmetic.py:205",
     "witness": {"design": "Top{Abs(a,r0); Abs(a,r1,inverted=n1)} (both 8 bit)", "emitted": "before 97fed70: module Abs8(a,r) once; Abs8 i_u1(.a(a),.r(r1),.inverted(n1))"},
     "what": "fixed: property=C03 97fed70 Abs.structureName ignored the optional `inverted` port: Abs with and without it shared module Abs<w> (now Abs<w>_inv); regression: reuse:abs / multi:Abs streams"},
    {"id": "C03-reg-latch-unnamed-widths", "property": "C03", "status": "known", "anchor": "py4hw/logic/storage.py:27",
     "class_expr": _SHARED + " and r.get('cls')=='Latch' and set(r['diff_kinds'])=={'width'} and set(r['diff_ports'])<={'d','e'}",
     "witness": {"design": "Top{Latch(d0[8],q0[8],e0[1]); Latch(d1[9],q1[8],e1[1])}", "emitted": "module Latch8(input [7:0] d, …) once; second instance connects a 9-bit net to d"},
     "what": "Latch.structureName encodes only the width of q: instances whose d or e width differs share one module and the later ones are bound to ports of another width (the Reg half of this finding is fixed in /repo e708abb: Reg<w>[_d<w>][_e<w>][_r<w>][_<clk>]; class now excludes Reg)"},
    {"id": "C03-reg-clock-domain", "property": "C03", "status": "fixed", "commit": "e708abb", "anchor": "py4hw/logic/storage.py:112",
     "witness": {"design": "Top{Reg(d0,q0) on clk; Dom(clockDriver=ClockDriver('clk2', wire=c2)){Reg(d1,q1)}} same width", "emitted": "before e708abb: module Reg8(input clk, …) once; Reg8 i_ff(.clk2(clk2), …)"},
     "what": "fixed: property=C03 e708abb two Regs of equal width in different clock domains shared module Reg<w> whose only body named the first clock (now Reg<w>_<clkname> for a clock not named clk); regression: reuse:reg_clk stream"},
    {"id": "C03-aliased-ports-body", "property": "C03", "status": "known", "anchor": "py4hw/rtl_generation.py:163",
     "class_expr": "r.get('kind')=='pair' and r['diff_kinds']==['body'] and r.get('aliased_ports')",
     "witness": {"design": "Top{Add(a,a,r0); Add(a,b,r1)} 4 bit", "emitted": "module Add4 … assign r = b + b + w_ci; (emitted once, also bound to Add(a,b,r1))"},
     "what": "getWireNames maps a wire to ONE name: a block with two ports on the same wire (Add(a,a,r)) gets a body that reads only the last of them (r = b + b); under a shared module name (Add<w>, Abs<w>, …) that body is also bound to instances whose ports are distinct"},
    {"id": "C03-name-collision", "property": "C03", "status": "known", "anchor": "py4hw/rtl_generation.py:157",
     "class_expr": "r.get('kind')=='wf' and r.get('err')=='dupDecl' and len(r['source_kinds'])>=2 and r['sources_distinct'] "
                   "and set(r['source_kinds'])<={'port','wire','instance','clock'} and set(r['source_kinds'])!={'wire'}",
     "witness": {"design": "Top(in w_x, out r){Inv u1(w_x -> local wire x); Inv u2(x -> r)}", "emitted": "input [3:0] w_x … wire [3:0] w_x;"},
     "what": "ports (getValidVerilogName), local wires (w_ prefix), instances (i_ prefix) and the implicit clock are mapped into one Verilog name space without a collision check: port `w_x` + local wire `x`, ports `wire` + `reserved_wire`, port `i_u` + instance `u`, port `clk` on a clocked block all give a duplicate declaration"},
    {"id": "C03-same-wire-name", "property": "C03", "status": "known", "anchor": "py4hw/rtl_generation.py:616",
     "class_expr": "r.get('kind')=='wf' and r.get('err')=='dupDecl' and len(r['source_kinds'])>=2 and set(r['source_kinds'])=={'wire'} and len(r['source_names'])==1 and r.get('distinct_wires')",
     "witness": {"design": "hw.wire('t') and top.wire('t') both local to Top", "emitted": "wire [2:0] w_t; wire [2:0] w_t;"},
     "what": "two distinct wires with the same name (names are only unique per owner) that meet in one scope are both declared `w_<name>`: duplicate declaration and two drivers on one net"},
    {"id": "C03-keyword-table", "property": "C03", "status": "fixed", "commit": "a15e5f4", "anchor": "py4hw/rtl_generation.py:78",
     "witness": {"design": "Top(in uwire, out design)", "emitted": "before a15e5f4: input [3:0] uwire, output [3:0] design"},
     "what": "fixed: property=C03 a15e5f4 isReservedVerilogKeyword lacked the IEEE 1364-2005 keywords `design` and `uwire`: ports with these names were emitted unprefixed (a recurrence is a VIOLATION: no class predicate)"},
    {"id": "C03-verbatim-identifiers", "property": "C03", "status": "known", "anchor": "py4hw/rtl_generation.py:720",
     "class_expr": "(r.get('kind')=='wf' and r.get('err') in ('reserved','reservedModule') and len(r['source_kinds'])>0 and set(r['source_kinds'])<={'clock','class','param','variable'}) or "
                   "(r.get('kind')=='parse' and len(r.get('kw_in_ctx',[]))>0)",
     "witness": {"design": "behavioural block with state variable self.wait; top class named `table`; clock driver named `always`", "emitted": "integer wait; / module table ( / input always"},
     "what": "clock-driver names, class names used as module names, parameter names and transpiled Python variable names are copied into the text without the reserved-word check applied to ports"},
    {"id": "C03-transpiler-attr-name", "property": "C03", "status": "known", "anchor": "py4hw/logic/arithmetic.py:699",
     "class_expr": "r.get('kind')=='wf' and r.get('err')=='undeclared' and r.get('why')=='missing-attribute'",
     "witness": {"design": "SubBorrowIn(a, b, r, bi): propagate reads self.ci, the port attribute is self.bi", "emitted": "r=a-b-ci;  (ci undeclared)"},
     "what": "SubBorrowIn.propagate reads self.ci, an attribute the object does not have (the borrow port is self.bi): the transpiled body uses the undeclared identifier ci (the attribute-name/port-name half of this finding is fixed in /repo 53243dd)"},
    {"id": "C03-transpiler-var-port", "property": "C03", "status": "known", "anchor": "py4hw/transpilation/python2verilog_transpilation.py:686",
     "class_expr": "r.get('kind')=='wf' and r.get('err')=='dupDecl' and r['source_kinds']==['port','variable']",
     "witness": {"design": "self.out = addOut('cnt', q); self.cnt = 0", "emitted": "output reg [7:0] cnt … integer cnt;"},
     "what": "a transpiled state variable whose Python name equals a port name is declared a second time as `integer`"},
    {"id": "C03-transpiler-local-clock", "property": "C03", "status": "known", "anchor": "py4hw/transpilation/python2verilog_transpilation.py:584",
     "class_expr": "r.get('kind')=='wf' and r.get('err')=='dupDecl' and r.get('source_kinds')==['clock','local']",
     "witness": {"design": "clock(): `clk = self.a.get()` in a block whose clock driver is named clk", "emitted": "input clk … integer clk; … clk=a;"},
     "what": "a method-local variable of a transpiled clock() named like the implicit clock port (`clk`) is declared `integer clk;` next to `input clk` and assigned procedurally: the refusal of locals that collide with ports (selfNames) does not know the clock"},
    {"id": "C03-transpiler-init-remap", "property": "C03", "status": "fixed", "commit": "19c507c", "anchor": "py4hw/transpilation/python2verilog_transpilation.py:603",
     "class_expr": "r.get('kind')=='wf' and r.get('err')=='driven' and r.get('why')=='init-remapped-through-attribute'",
     "witness": {"design": "self.din = addIn('start', ..); self.total = addIn('din', ..); self.start = addOut('total', ..)", "emitted": "initial begin din=0; end   (din is an input; total is never initialised)"},
     "what": "the `initial` assignments of the output ports are written with PORT names and then pass through ReplaceWiresAndVariables.visit_VerilogWire, which maps ATTRIBUTE names to port names: when an output port's name is also the attribute name of another port, the initial value is assigned to that other port (an input is driven procedurally)"},
    {"id": "C03-param-no-default", "property": "C03", "status": "fixed", "commit": "73113b7", "anchor": "py4hw/rtl_generation.py:699",
     "witness": {"design": "test/interactive/tb_Parameter.py: addParameter('INIT', 1)", "emitted": "before 73113b7: module ParamTop #( parameter INIT) ("},
     "what": "fixed: property=C03 73113b7 createModuleHeader emitted `parameter NAME` without a value (IEEE 1364-2005 requires `parameter NAME = constant`); now `parameter NAME = <value>`; a bare parameter is the WF error paramNoDefault (rule R-pdef), regression: param stream"},
    {"id": "C03-param-name-collision", "property": "C03", "status": "known", "anchor": "py4hw/rtl_generation.py:699",
     "class_expr": "r.get('kind')=='wf' and r.get('err')=='dupDecl' and len(r['source_kinds'])>=2 and r['sources_distinct'] and 'param' in r['source_kinds'] "
                   "and set(r['source_kinds'])<={'port','wire','instance','clock','param'}",
     "witness": {"design": "structural block with ports a, load, r and addParameter('a', 1)", "emitted": "module ParamMid #( parameter a) ( input clk, input [7:0] a, …"},
     "what": "parameter names share the module name space with ports, w_-prefixed wires, i_-prefixed instances and the implicit clock but are emitted verbatim: a parameter named like a port / `clk` / `w_<wire>` / `i_<instance>` is declared twice"},
    {"id": "C03-param-chain-repr", "property": "C03", "status": "fixed", "commit": "02b2b6c", "anchor": "py4hw/base.py:74",
     "witness": {"design": "Outer(addParameter('BASE',1)) -> Mid(addParameter('START', outer.getParameter('BASE'))) -> ShiftLeftConstant(n = mid.getParameter('START'))",
                 "emitted": "before 02b2b6c: assign w_t0 = a << <py4hw.base.Parameter object at 0x7f…>;"},
     "what": "fixed: property=C03 02b2b6c getParameterValue resolved a forwarded parameter by one level only, so a Parameter object's repr reached the text; regression: param stream (levels=2, shift)"},
    {"id": "C03-transpiler-ternary", "property": "C03", "status": "fixed", "commit": "760fbc8", "anchor": "py4hw/transpilation/python2verilog_transpilation.py:552",
     "witness": {"design": "self.y = 1 if self.a.get() > 2 else 2", "emitted": "before 760fbc8: y=if (a>2) begin 1 end else begin 2 end ;"},
     "what": "fixed: property=C03 760fbc8 a conditional expression on the right-hand side was emitted as an `if` statement in expression position (now `((c) ? a : b)`); regression: behav:TernarySeq"},
]


def fail(res, what, replay):
    """res.fail where PROPOSED_FINDINGS is authoritative for the ids it contains: a `known` entry absorbs a failure only if
    ITS class predicate holds (it may be narrower than the one still listed in known_findings.json), a `fixed` entry never
    does (a recurrence of a repaired defect is a VIOLATION); other listed entries are handled by Result.fail."""
    import common
    mine = {k['id']: k for k in PROPOSED_FINDINGS}
    for k in PROPOSED_FINDINGS:
        if k.get('status') == 'known' and common._matches(k, what, replay):
            res.known_hits.append((k, what))
            res.hist('known_finding_hits', k['id'])
            return
    for k in load_known():
        if k.get('property') == 'C03' and k.get('id') in mine and k.get('status') == 'known' and common._matches(k, what, replay):
            why = 'recurrence of fixed finding' if mine[k['id']].get('status') == 'fixed' else 'outside the narrowed class of'
            res.failures.append({'what': f"{what} [{why} {k['id']}]", 'replay': replay})
            return
    res.fail(what, replay)


# ------------------------------------------------------------------------------------------------ emitter access
def rtl():
    import py4hw.rtl_generation as R
    return R


def emit(job):
    """real emitter; its progress prints are swallowed"""
    import py4hw
    g = py4hw.VerilogGenerator(job['gen_root'])
    with contextlib.redirect_stdout(io.StringIO()):
        return g, g.getVerilogForHierarchy(job['dut'])


def emit_alone(obj):
    import py4hw
    g = py4hw.VerilogGenerator(obj)
    with contextlib.redirect_stdout(io.StringIO()):
        return g.getVerilog(obj, noInstanceNumber=False)


def emitted_objects(g, obj, top=True, top_name=None):
    """(module name, object) in emission order (rtl_generation._getVerilogForHierarchy); top_name: the name the REQUEST gave
    the top module (forceName / noInstanceNumber options)"""
    R = rtl()
    out = [(top_name if (top and top_name is not None) else R.getVerilogModuleName(obj, noInstanceNumber=top), obj)]
    for c in obj.children.values():
        if not g.isInlinable(c):
            out += emitted_objects(g, c, False)
    return out


def is_transpiled(g, obj):
    if g.isProvidingBody(obj) or g.isInlinable(obj):
        return False
    return obj.isPropagatable() or obj.isClockable()


def has_ifexp(obj):
    try:
        src = getattr(type(obj), '_c03_source', None) or textwrap.dedent(inspect.getsource(type(obj)))
        return any(isinstance(n, ast.IfExp) for n in ast.walk(ast.parse(src)))
    except Exception:
        return False


def names_in_methods(obj):
    """(names used as self.<n>, plain names) in propagate / clock of the object's class"""
    attrs, plain = set(), set()
    try:
        tree = ast.parse(getattr(type(obj), '_c03_source', None) or textwrap.dedent(inspect.getsource(type(obj))))
    except Exception:
        return attrs, plain
    for fn in ast.walk(tree):
        if isinstance(fn, ast.FunctionDef) and fn.name in ('propagate', 'clock'):
            for nd in ast.walk(fn):
                if isinstance(nd, ast.Attribute) and isinstance(nd.value, ast.Name) and nd.value.id == 'self':
                    attrs.add(nd.attr)
                elif isinstance(nd, ast.Name) and nd.id != 'self':
                    plain.add(nd.id)
    return attrs, plain


def clock_name(obj):
    from py4hw.base import getObjectClockDriver
    try:
        return getObjectClockDriver(obj).name
    except Exception:
        return None


def sources_of(g, obj, n):
    """which py4hw entities of `obj` are rendered as the Verilog identifier n in obj's module (uses the emitter's own
    naming helpers, so the explanation follows the code under test)"""
    R = rtl()
    from py4hw.base import Wire
    src = []
    for p in list(obj.inPorts) + list(obj.outPorts) + list(obj.inOutPorts):
        if R.getPortName(p) == n:
            src.append(['port', p.name])
    wires = []
    try:
        for w in R.collectLocalWires(obj):
            if isinstance(w, Wire) and 'w_' + w.name == n:
                wires.append(w)
    except Exception:
        pass
    for w in wires:
        src.append(['wire', w.name])
    if not (obj.isPropagatable() or obj.isClockable()):
        for c in obj.children.values():
            if not g.isInlinable(c) and R.getInstanceName(c) == n:
                src.append(['instance', c.name])
    if g.anyClockableDescendant(obj) and clock_name(obj) == n:
        src.append(['clock', n])
    for pn in (obj.getParameterNames() or []):
        if pn == n:
            src.append(['param', pn])
    if is_transpiled(g, obj) and n in vars(obj) and isinstance(vars(obj)[n], (int, bool)) and not isinstance(vars(obj)[n], Wire):
        src.append(['variable', n])
    if is_transpiled(g, obj) and n in names_in_methods(obj)[1]:
        src.append(['local', n])           # a method-local variable of propagate / clock (no listed finding is about these)
    return src, len(set(id(w) for w in wires)) == len(wires) and len(wires) >= 2


def verbatim_keywords(g, objs, kws):
    """identifiers the emitter copies verbatim that are reserved words (explains parse errors / reserved errors)"""
    out = []
    for name, o in objs:
        if name in kws:
            out.append(['class', name])
        cn = clock_name(o)
        if cn in kws and g.anyClockableDescendant(o):
            out.append(['clock', cn])
        for pn in (o.getParameterNames() or []):
            if pn in kws:
                out.append(['param', pn])
        if is_transpiled(g, o):
            for k, v in vars(o).items():
                if k in kws and isinstance(v, (int, bool)):
                    out.append(['variable', k])
            for k in sorted(names_in_methods(o)[1]):
                if k in kws:
                    out.append(['variable', k])      # a method-local Python variable: copied verbatim like the state variables
    return out


def init_remapped(g, obj, n, text):
    """the input port n of the transpiled block obj is assigned in the module's `initial` block because the initial value of
    an OUTPUT port (written with its port name) went through the attribute->port map a second time: some output port's name
    is also the name of the ATTRIBUTE that holds input port n"""
    R = rtl()
    if obj is None or not is_transpiled(g, obj):
        return False
    if not re.search(r'initial\s+begin(?:(?!\bend\b).)*?\b%s\s*=\s*0\s*;' % re.escape(n), text, flags=re.S):
        return False
    for o in obj.outPorts:
        v = vars(obj).get(R.getValidVerilogName(o.name))
        if v is None or v is o.wire:
            continue
        if any(p.wire is v and R.getPortName(p) == n for p in obj.inPorts):
            return True
    return False


def source_undriven(obj, n):
    """the Verilog net n of obj's module is a local wire that no child drives in the py4hw design itself"""
    if obj is None:
        return False
    R = rtl()
    from py4hw.base import Wire
    try:
        ws = [w for w in R.collectLocalWires(obj) if isinstance(w, Wire) and 'w_' + w.name == n]
    except Exception:
        return False
    if not ws and not obj.isPrimitive():
        # an output port of a block WITHOUT behaviour (interface-only leaf, structural block that leaves the port open):
        # the source design itself has no driver for it inside the block
        ws = [p.wire for p in obj.outPorts if R.getPortName(p) == n and isinstance(p.wire, Wire)]
    if not ws:
        return False
    for w in ws:
        for c in obj.children.values():
            if any(p.wire is w for p in list(c.outPorts) + list(c.inOutPorts)):
                return False
    return True


def aliased_ports(obj):
    """some block of the hierarchy has two ports on one wire"""
    ws = [id(p.wire) for p in list(obj.inPorts) + list(obj.outPorts) + list(obj.inOutPorts) if p.wire is not None]
    return len(set(ws)) != len(ws) or any(aliased_ports(c) for c in obj.children.values())


def parse_diffs(ans):
    """driver answer of `pair` -> (ports, kinds)"""
    ports, kinds = [], []
    if ans.startswith('sig:'):
        for d in ans[4:].split(';;'):
            d = d.strip()
            m = re.match(r'port (\S+) only in first', d)
            if m:
                ports.append(m.group(1)); kinds.append('only1'); continue
            m = re.match(r'port (\S+) only in second', d)
            if m:
                ports.append(m.group(1)); kinds.append('only2'); continue
            m = re.match(r'port (\S+) width', d)
            if m:
                ports.append(m.group(1)); kinds.append('width'); continue
            m = re.match(r'port (\S+) direction', d)
            if m:
                ports.append(m.group(1)); kinds.append('dir'); continue
            if d.startswith('params'):
                kinds.append('params'); continue
            if d.startswith('port order'):
                kinds.append('order'); continue
            if d:
                kinds.append('other')
    elif ans == 'body':
        kinds.append('body')
    elif ans != 'same':
        kinds.append('unparsed')
    return ports, kinds


def canon_decl_order(m):
    """local wire declarations come out of a Python set (collectLocalWires): their order is not part of the body"""
    items = m[4][1:]
    decl = sorted([i for i in items if i[0] == 'wire'], key=lambda i: i[1])
    rest = [i for i in items if i[0] != 'wire']
    return m[:4] + [['items'] + decl + rest]


# ------------------------------------------------------------------------------------------------ proved by the emitter-model theorem
def _sx(text):
    """tiny S-expression reader"""
    toks = re.findall(r'[()]|[^\s()]+', text)
    pos = [0]

    def rd():
        t = toks[pos[0]]
        pos[0] += 1
        if t == '(':
            out = []
            while toks[pos[0]] != ')':
                out.append(rd())
            pos[0] += 1
            return out
        return t
    return rd()


def _sxs(t):
    return '(' + ' '.join(_sxs(x) for x in t) + ')' if isinstance(t, list) else t


def export_hs(hsrc_text):
    """(no longer used by the check: the conversion is `FlatM.HierSrc.toHS` in lean/Py4hwV/Verilog/EmitMDOf.lean; kept as its
    Python transcription for the driver's `hs`-after-`hsrc` comparison in hand tests)
    C01's nested description `(hsrc depth clk (widths …) <mod> (order …))` -> the level-free list of lean/Py4hwV/Verilog/EmitMD.lean:
    `(hs clk (widths …) (mods …))`, modules in emission order (a module, then for each child its register module / its sub-module
    followed by that module's own children)"""
    t = _sx(hsrc_text)
    clk, widths, top = t[2], t[3], t[4]
    mods = []

    def has_clk(mod):
        return any(c[0] == 'reg' or (c[0] == 'sub' and has_clk(c[2])) for c in mod[6][1:])

    def walk(mod):
        kids = []
        for c in mod[6][1:]:
            if c[0] == 'sub':
                b = c[2]
                kids.append(['sub', c[1], b[1], '1' if has_clk(b) else '0', b[3], b[4]])
            else:
                kids.append(c)
        mods.append(['str', mod[1], mod[2], mod[3], mod[4], mod[5], ['children'] + kids])
        for c in mod[6][1:]:
            if c[0] == 'reg':
                mods.append(['regm'] + c[1:])
            elif c[0] == 'sub':
                walk(c[2])
    walk(top)
    return _sxs(['hs', clk, widths, ['mods'] + mods])


class EmitCov:
    """for which designs of the streams is well-formedness of the real text PROVED (not only checked)?
       flat:  C01's exporter imports `FlatM.FlatSrc` S from the live circuit; lean/Drv/C03Emit.lean decides parsed text = S.emit,
              S.check and C03Emit.namesOKb S  => `C03Emit.real_text_wf` applies to this text;
       hier:  C01's hierarchical exporter imports the NESTED description S : FlatM.HierSrc (the object of C01's behavioural
              theorems); lean/Drv/C03Emit.lean decides parsed text = S.toHS.emit (= S.emit by `C03Emit.toHS_emit`) and S.toHS.okb
              => `C03Emit.real_text_wf_hierSrc` applies to this text."""

    def __init__(self, res):
        self.res = res
        self.flat, self.fmeta, self.hier, self.hmeta, self.hs, self.hsmeta = [], [], [], [], [], []
        self.total = self.proved = self.hier_ok = self.hs_ok = self.proved_any = 0
        try:
            import c01
            self.c01 = c01
        except Exception as e:
            self.c01 = None
            res.notes.append(f'harness/c01.py not importable ({type(e).__name__}: {e}): emit-model coverage not measured')

    def add(self, d, text, ctx):
        if self.c01 is None:
            return
        res, c01 = self.res, self.c01
        self.total += 1
        stream = ctx['label']['stream'].split(':')[0]
        try:
            tree = vparse.parse(P.strip_attributes(text))       # the exporter's names carry the real instance-unique suffixes
        except vparse.VParseError:
            return
        try:
            with contextlib.redirect_stdout(io.StringIO()):
                src = c01.flat_src(d, tree)
            self.flat += ['design ' + vparse.sexp(tree), 'src ' + src, 'check']
            self.fmeta.append((ctx, stream))
        except c01.NotFlat as e:
            res.hist('emit_wf_flat', 'not-covered: ' + re.sub(r'kind \w+', 'child kind outside FlatSrc', str(e))[:60])
        except Exception as e:
            res.hist('emit_wf_flat', 'not-covered: export ' + type(e).__name__)
        try:
            with contextlib.redirect_stdout(io.StringIO()):
                hs = c01.HierExporter(d, tree).export()
            # C01's NESTED description as it is: lean/Drv/C03Emit.lean converts it with `HierSrc.toHS` (proved: C03Emit.toHS_emit)
            self.hs += ['design ' + vparse.sexp(tree), 'hsrc ' + hs, 'hcheck']
            self.hsmeta.append((ctx, stream))
        except c01.NotCovered as e:
            res.hist('emit_model_hier', 'not-covered: ' + re.sub(r'kind \w+', 'child kind outside HierSrc', str(e).split(' / ')[0])[:60])
        except Exception as e:
            res.hist('emit_model_hier', 'not-covered: export ' + type(e).__name__)

    def run(self):
        """one driver session for the flat and the hierarchical requests"""
        res = self.res
        if not (self.flat or self.hs):
            return
        try:
            out = run_driver('Drv/C03Emit.lean', self.flat + self.hs)
        except ToolFailure as e:
            res.broken.append(('correspondence', 'emit-model-driver', str(e)[:300]))
            out = None
        if out is not None:
            fo, ho = out[:len(self.flat)], out[len(self.flat):]
            for (ctx, stream), o in zip(self.fmeta, fo[2::3]):
                if o == 'proved':
                    ctx['proved'] = True
                    self.proved += 1
                    self.proved_any += 1
                    res.hist('emit_wf_flat', 'PROVED: text == FlatSrc.emit, FlatSrc.check, namesOKb')
                    res.hist('emit_wf_flat_by_stream', stream)
                else:
                    res.hist('emit_wf_flat', 'not-covered: ' + o[:70])
            for (ctx, stream), o in zip(self.hsmeta, ho[2::3]):
                if o == 'proved':
                    self.hs_ok += 1
                    if not ctx.get('proved'):
                        self.proved_any += 1
                    ctx['proved'] = True
                    res.hist('emit_wf_hier', 'PROVED: text == HierSrc.emit (= toHS.emit) and toHS.okb')
                    res.hist('emit_wf_hier_by_stream', stream)
                else:
                    res.hist('emit_wf_hier', 'not-covered: ' + re.sub(r'_[0-9a-f]{9,}', '_<id>', o)[:70])
        self.flat, self.fmeta, self.hier, self.hmeta, self.hs, self.hsmeta = [], [], [], [], [], []

    def summary(self):
        t = max(self.total, 1)
        return dict(designs_with_live_circuit=self.total,
                    proved_by_emit_wf_flat=self.proved, flat_fraction=round(self.proved / t, 4),
                    proved_by_emit_wf_hier=self.hs_ok, hier_fraction=round(self.hs_ok / t, 4),
                    proved_well_formed=self.proved_any, proved_fraction=round(self.proved_any / t, 4),
                    note='proved = parsed real text equals the model emitter output for the description imported from the live circuit '
                         'and the description passes the decidable hypotheses of C03Emit.emit_wf_flat / emit_wf_hier; every design is '
                         'ALSO checked by WF.checkE (a proved design with checker errors is reported as a tooling inconsistency)')


# ------------------------------------------------------------------------------------------------ the pipeline
class Pipeline:
    def __init__(self, res, kws):
        self.res, self.kws = res, kws
        self.lines = []          # driver requests
        self.todo = []           # callbacks (answer-index based)
        self.pair_cache = {}
        self.after = []          # callbacks(out) for non-design requests
        self.emitcov = EmitCov(res)
        self.n_designs = 0

    def ask(self, line):
        self.lines.append(line)
        return len(self.lines) - 1

    def add(self, job):
        """job: dict(kind, desc, gen_root, dut, [ext]) — emit, parse, validate the parser, queue checker + pair requests"""
        res = self.res
        self.n_designs += 1
        label = dict(stream=job['kind'], desc=job['desc'])
        try:
            g, text = (job['g'], job['text']) if 'text' in job else emit(job)
        except Exception as e:
            res.hist('emitter_refusals', f"{job['kind'].split(':')[0]}:{type(e).__name__}")
            res.count(('refused', job['kind'], json.dumps(job['desc'], default=str, sort_keys=True)), hist={'stream': job['kind'].split(':')[0]})
            return None
        objs = emitted_objects(g, job['dut'], top_name=job.get('top_name'))
        cobjs = job.get('canon_objs') or [o for _, o in objs]
        ctext = P.strip_attributes(P.canon_ids(text, cobjs))
        cnames = [(P.canon_ids(n, cobjs), o) for n, o in objs]
        first = {}
        for n, o in cnames:
            first.setdefault(n, o)
        ctx = dict(job=job, g=g, text=ctext, objs=cnames, first=first, label=label)
        res.count((job['kind'], ctext), hist={'stream': job['kind'].split(':')[0]})
        try:
            tree, pdefs = P.parse_d(ctext)
        except vparse.VParseError as e:
            msg = str(e)
            m = re.search(r'keyword (\w+) used', msg) or re.search(r"got '(\w+)'", msg)
            vk = verbatim_keywords(g, cnames, self.kws | vparse.KEYWORDS)
            fail(res, f'emitted text does not parse: {msg[:120]}',
                 dict(kind='parse', msg=msg[:300], kw_in_msg=m.group(1) if m else None, verbatim_keywords=vk,
                      kw_in_ctx=sorted(set(s[1] for s in vk if re.search(r'(^|\W)%s(\W|$)' % re.escape(s[1]), msg))),
                      has_ifexp=any(is_transpiled(g, o) and has_ifexp(o) for _, o in cnames),
                      python_repr=sorted(set(re.findall(r'<([\w\.]+) object at 0x', ctext))), text=ctext[:1500], **label))
            res.hist('parse', 'error')
            return None
        res.hist('parse', 'ok')
        if 'must_define' in job:
            # a returned text answers the request: it defines the module of the requested object (unless the caller listed
            # it as already created); an empty / partial answer is not a design
            want = P.canon_ids(job['must_define'], cobjs)
            if P.module_of(tree, want) is None:
                fail(res, f'the text returned for the request does not define the requested module {want}',
                     dict(kind='request', rule='top-missing', module=want, modules=[m[1] for m in tree[1:]], text=ctext[:600], **label))
        rt = P.roundtrip(ctext, tree, pdefs)
        if rt is not None:
            res.disagree('parser-roundtrip', dict(mismatch=rt, text=ctext[:800], **label))
        for k, v in vparse.count_constructs(tree).items():
            res.hist('constructs', k, v)
        res.hist('modules_per_design', min(len(tree) - 1, 20))
        ctx['tree'] = tree
        if job.get('design') is not None:
            self.emitcov.add(job['design'], text, ctx)
        ext = job.get('ext', '(design)')
        ctx['check_ix'] = self.ask(f'check (env {vparse.sexp(tree)} {ext} {P.pdefs_sexp(pdefs)})')
        # second clause: every pair (first emitted, other object) under one module name, each generated alone
        ctx['pairs'] = {}
        groups = {}
        for n, o in cnames:
            groups.setdefault(n, []).append(o)
        for n, os_ in groups.items():
            a = os_[0]
            for b in os_[1:]:
                if b is a:
                    continue
                ctx['pairs'][(n, id(b))] = self.pair_request(a, b, n)
        self.todo.append(ctx)
        return ctx

    def pair_request(self, a, b, name):
        try:
            ta = P.strip_attributes(P.canon_ids(emit_alone(a), CD.all_objects(a)))
            tb = P.strip_attributes(P.canon_ids(emit_alone(b), CD.all_objects(b)))
        except Exception as e:
            return ('error', f'{type(e).__name__}: {e}')
        key = (ta, tb)
        if key in self.pair_cache:
            return self.pair_cache[key]
        try:
            ma, mb = vparse.parse(ta), vparse.parse(tb)
            if len(ma) != 2 or len(mb) != 2:
                r = ('error', 'getVerilog returned more than one module')
            else:
                r = ('ask', self.ask(f'pair (design {vparse.sexp(canon_decl_order(ma[1]))} {vparse.sexp(canon_decl_order(mb[1]))})'))
        except vparse.VParseError as e:
            r = ('error', f'parse: {e}')
        self.pair_cache[key] = r
        self.res.hist('pairs', 'distinct')
        return r

    # -- classification of the checker's answers
    def flush(self):
        """one driver session for everything queued so far"""
        res = self.res
        if not self.lines:
            return
        try:
            out = run_driver(DRIVER, self.lines)
        except ToolFailure as e:
            res.broken.append(('correspondence', 'driver', str(e)[:300]))
            out = None
        self.emitcov.run()
        if out is not None:
            for f in self.after:
                f(out)
            for ctx in self.todo:
                self.classify(ctx, out)
                if ctx.get('proved') and out[ctx['check_ix']] != 'ok':
                    # the theorem says this text is well formed, the checker reports errors: tooling inconsistency
                    res.broken.append(('correspondence', 'emit_wf_flat-vs-checker',
                                       dict(checker=out[ctx['check_ix']][:300], text=ctx['text'][:800], **ctx['label'])))
        self.lines, self.todo, self.after, self.pair_cache = [], [], [], {}

    def maybe_flush(self, limit=2500):
        if len(self.todo) >= limit:
            self.flush()

    def pair_answer(self, pr, out):
        if pr[0] == 'ask':
            return out[pr[1]]
        return 'error: ' + pr[1]

    def classify(self, ctx, out):
        res, g, tree, first, label = self.res, ctx['g'], ctx['tree'], ctx['first'], ctx['label']
        R = rtl()
        ans = out[ctx['check_ix']]
        if ans == 'parse-error':
            res.broken.append(('correspondence', 'sexp-transport', dict(text=ctx['text'][:500], **label)))
            return
        errs = [] if ans == 'ok' else [e.strip().split('|') for e in ans.split(';;')]
        res.hist('wf_verdict', 'ok' if not errs else 'errors')
        # ---- pairs (independent of the checker verdict: an unconnected optional output is legal Verilog)
        for (n, bid), pr in ctx['pairs'].items():
            pa = self.pair_answer(pr, out)
            res.hist('pair_verdict', pa.split(':')[0].split(' ')[0])
            if pa != 'same':
                b = next(o for nn, o in ctx['objs'] if id(o) == bid)
                ports, kinds = parse_diffs(pa)
                fail(res, f'two objects emitted under module name {n} are not interchangeable: {pa[:160]}',
                     dict(kind='pair', module=n, cls=type(b).__name__, answer=pa[:300], diff_ports=ports, diff_kinds=kinds,
                          clock_names=[x for x in {clock_name(first[n]), clock_name(b)} if x],
                          aliased_ports=aliased_ports(first[n]) or aliased_ports(b), **label))
        if not errs:
            return
        # ---- explain every error with the object graph
        recs = []
        for e in errs:
            kind, f = e[0], e[1:]
            r = dict(kind='wf', err=kind, fields=f, module=f[0] if f else None, all_errors=[('|'.join(x)) for x in errs][:12], **label)
            res.hist('wf_errors', kind)
            obj = first.get(r['module'])
            if kind in ('dupDecl', 'reserved', 'undeclared', 'driverCount', 'driven', 'procOnNet', 'netDriverOnVar'):
                r['name'] = f[1]
            if kind == 'reservedModule':
                r['name'] = f[0]
                r['sources'] = [['class', f[0]]] if f[0] in first else []
            if kind in ('dupDecl', 'reserved') and obj is not None:
                r['sources'], r['distinct_wires'] = sources_of(g, obj, f[1])
            elif kind in ('dupDecl', 'reserved'):
                r['sources'] = []
            if kind == 'driven' and init_remapped(g, obj, f[1], ctx['text']):
                r['why'] = 'init-remapped-through-attribute'
            if kind == 'undeclared' and obj is not None and is_transpiled(g, obj):
                from py4hw.base import Wire
                n = f[1]
                attrs, plain = names_in_methods(obj)
                if not hasattr(obj, n):
                    if n in attrs and n not in plain:
                        # used as self.<n> although the object has no such attribute (SubBorrowIn.ci); a method-local temporary or
                        # an instance variable that the transpiler failed to declare is NOT this finding
                        r['why'] = 'missing-attribute'
                else:
                    v = getattr(obj, n)
                    pn = [p.name for p in list(obj.inPorts) + list(obj.outPorts) + list(obj.inOutPorts) if p.wire is v]
                    if isinstance(v, Wire) and pn and n not in pn:
                        r['why'] = 'attr-port-mismatch'
            if kind in ('noModule', 'noPort', 'dupConn', 'unconnected', 'widthMismatch', 'notLvalue', 'noParam', 'dupParam'):
                r['inst'], r['port'] = f[1], (f[2] if len(f) > 2 else None)
                m = P.module_of(tree, f[0])
                it = next((i for i in P.instances(m) if i[2] == f[1]), None) if m else None
                r['target'] = it[1] if it else None
                conn = next((c for c in it[4][1:] if c[1] == r['port']), None) if it else None
                r['conn_ids'] = sorted(set(re.findall(r'\(id (\w+)\)', vparse.sexp(conn[2])))) if conn else []
                child = None
                if obj is not None:
                    child = next((c for c in obj.children.values() if R.getInstanceName(c) == f[1]), None)
                if child is not None:
                    r['cls'] = type(child).__name__
                    bound = first.get(r['target'])
                    r['bound_other'] = bound is not None and bound is not child
                    if r['bound_other']:
                        pr = ctx['pairs'].get((r['target'], id(child)))
                        pa = self.pair_answer(pr, out) if pr else 'no-pair'
                        r['diff_ports'], r['diff_kinds'] = parse_diffs(pa)
                        r['pair_answer'] = pa[:200]
                        r['clock_names'] = [x for x in {clock_name(bound), clock_name(child)} if x]
            if 'sources' in r:
                r['source_kinds'] = sorted(x[0] for x in r['sources'])
                r['source_names'] = sorted(set(x[1] for x in r['sources']))
                r['sources_distinct'] = len(set(tuple(x) for x in r['sources'])) == len(r['sources'])
            recs.append(r)
        # ---- fold consequences into their primary error (same module, same name / same instance)
        prim = []
        for r in recs:
            folded = False
            for p in recs:
                if p is r:
                    continue
                if p['module'] != r['module']:
                    # a port declared twice in the bound module explains connection errors on that port
                    if p['err'] == 'dupDecl' and r.get('target') == p['module'] and r.get('port') == p['name'] and \
                            r['err'] in ('dupConn', 'widthMismatch'):
                        p.setdefault('consequences', []).append('|'.join([r['err']] + r['fields']))
                        folded = True
                        break
                    continue
                if p['err'] == 'noPort' and r['err'] == 'driverCount' and r['fields'][2] == '0' and r['name'] in p.get('conn_ids', []):
                    folded = True
                if p['err'] == 'noPort' and r['err'] == 'unconnected' and r.get('inst') == p.get('inst'):
                    folded = True
                if p['err'] == 'dupDecl' and r['err'] in ('driven', 'driverCount', 'procOnNet', 'netDriverOnVar') and r['name'] == p['name']:
                    folded = True
                if p['err'] == 'dupDecl' and r['err'] == 'widthMismatch' and p['name'] in r.get('conn_ids', []):
                    folded = True
                if folded:
                    p.setdefault('consequences', []).append('|'.join([r['err']] + r['fields']))
                    break
            if not folded:
                prim.append(r)
        for r in prim:
            if r['err'] == 'driverCount' and r['fields'][2] == '0' and source_undriven(first.get(r['module']), r['name']):
                # precondition of the property: the SOURCE design leaves this local wire without any driver (py4hw's own
                # integrity check rejects it); the emitter faithfully declares an undriven net — not attributed to the emitter
                res.hist('excused', 'local wire undriven in the source design' if str(r['name']).startswith('w_') else 'output port of a block without behaviour, undriven in the source design')
                continue
            fail(res, f"emitted design is not well formed: {r['err']} {' '.join(r['fields'])}", dict(r, text=ctx['text'][:1200]))


# ------------------------------------------------------------------------------------------------ design streams
def job_of(d):
    return dict(kind=d['kind'], desc=d['desc'], gen_root=d['top'], dut=d['top'], design=d)


def tryadd(pipe, res, f):
    """constructor refusals (asserts / exceptions of the library) are counted, not errors"""
    try:
        d = f()
    except Exception as e:
        res.hist('constructor_refusals', f'{type(e).__name__}')
        return None
    return pipe.add(job_of(d))


def stream_lib(pipe, res, rng, n_per_block):
    specs = CD.lib_specs()
    for nm in sorted(specs):
        for k in range(n_per_block):
            r = rng.fork((nm, k))
            try:
                d = CD.lib_design(r, nm)
            except Exception as e:
                res.hist('constructor_refusals', f'{nm}:{type(e).__name__}')
                continue
            res.hist('lib_blocks', nm)
            pipe.add(job_of(d))
        pipe.maybe_flush()


def stream_multi(pipe, res, rng, n_per_block):
    """every library block several times in one hierarchy with independently sampled options at (nearly) equal widths"""
    for nm in sorted(CD.lib_specs()):
        for k in range(n_per_block):
            r = rng.fork((nm, k))
            w = r.choice([1, 2, 3, 4, 8, 16])
            pool = [w] if r.chance(2, 3) else [w, r.choice([1, 2, 3, 4, 8, 16])]
            tryadd(pipe, res, lambda: CD.multi_design(r, nm, r.randint(2, 4), pool))
        pipe.maybe_flush()


def stream_gv(pipe, res, rng, n_plan, n_lib):
    for i in range(n_plan):
        r = rng.fork(('plan', i))
        try:
            d = GV.plan_design(r, r.randint(1, 14), wmax=r.choice([1, 3, 8, 17, 33]))
        except Exception as e:
            res.hist('constructor_refusals', f'plan:{type(e).__name__}')
            continue
        pipe.add(dict(kind='plan', desc=d['desc'], gen_root=d['top'], dut=d['top'], design=d))
        pipe.maybe_flush()
    for i in range(n_lib):
        r = rng.fork(('gvlib', i))
        try:
            d = GV.lib_design(r)
        except Exception as e:
            res.hist('constructor_refusals', f'gvlib:{type(e).__name__}')
            continue
        pipe.add(dict(kind='gv' + d['kind'], desc=d.get('desc'), gen_root=d['top'], dut=d['top'], design=d))


def stream_names(pipe, res, rng, kws, tier):
    """keyword / prefix-collision names in every position the user controls"""
    R = rtl()
    pool = sorted(kws) + ['logic', 'bit', 'int', 'x', 'data', 'Wire', 'w_', 'i_', 'reserved_', 'Table', 'WIRE']
    sel = pool if tier != 'quick' else rng.shuffle(pool)[:40] + ['design', 'uwire', 'wire', 'table', 'signed']
    for n in sel:
        for pos in ('in', 'out', 'wire', 'inst'):
            a = dict(port_in='a', port_out='r', wire_name='t', inst_names=['u1', 'u2'])
            if pos == 'in':
                a['port_in'] = n
            elif pos == 'out':
                a['port_out'] = n
            elif pos == 'wire':
                a['wire_name'] = n
            else:
                a['inst_names'] = [n, 'u2']
            tryadd(pipe, res, lambda: CD.named_design(width=rng.choice([1, 4]), **a))
    # collisions after prefixing
    stems = ['x', 'a', 'wire', 'u1', 'clk', 't'] if tier == 'quick' else ['x', 'a', 'wire', 'reg', 'u1', 'u2', 'clk', 't', 'design', 'w_x', 'i_u1']
    for s in stems:
        tryadd(pipe, res, lambda: CD.named_design('w_' + s, 'r', s, ['u1', 'u2']))            # port w_s vs wire s
        tryadd(pipe, res, lambda: CD.named_design('a', 'w_' + s, s, ['u1', 'u2']))
        tryadd(pipe, res, lambda: CD.named_design('i_' + s, 'r', 't', [s, 'u2']))             # port i_s vs instance s
        tryadd(pipe, res, lambda: CD.named_design('reserved_' + s, s, 't', ['u1', 'u2']))     # port reserved_s vs port s
        tryadd(pipe, res, lambda: CD.named_design(s, 'r', 't', ['u1', 'u2'], clocked=True))   # port s vs implicit clock
        tryadd(pipe, res, lambda: CD.named_design('w_' + s, 'r', 'w_' + s, ['u1', 'u2']))     # w_w_s
        tryadd(pipe, res, lambda: CD.same_wire_name_design(s))
    for cn in ['clk', 'clk50', 'always', 'reg', 'table', 'a', 'w_t', 'i_u1']:
        tryadd(pipe, res, lambda: CD.named_design('a', 'r', 't', ['u1', 'u2'], clocked=True, clk_name=cn))
    for cls in ['Top', 'table', 'wire', 'module', 'Inv', 'uwire']:
        tryadd(pipe, res, lambda: CD.named_design('a', 'r', 't', ['u1', 'u2'], cls_name=cls))


def stream_aliaslocal(pipe, res, rng, tier):
    """one local wire on two ports of one child, in every creation order relative to the wire's driver and to other users
    (consumer before driver, driver before consumer, no driver at all)"""
    import itertools
    q = tier == 'quick'
    cons = ['mul', 'add', 'and', 'two']
    sets = [[c] for c in cons] + [['drv', c] for c in cons]
    sets += [['drv', c, o] for c in cons for o in (['buf', 'add2'] if q else ['buf', 'add2'] + [x for x in cons if x != c])]
    if not q:
        sets += [['drv', 'mul', 'add', 'and'], ['drv', 'two', 'add', 'add2'], ['mul', 'add'], ['two', 'buf'], ['drv', 'mul', 'add', 'and', 'two']]
    seen = set()
    for st in sets:
        perms = list(itertools.permutations(st))
        if len(perms) > 24:
            perms = rng.fork(tuple(st)).shuffle(perms)[:40]
        for order in perms:
            for w in ([4] if q else [1, 4, 33]):
                key = (order, w)
                if key in seen:
                    continue
                seen.add(key)
                tryadd(pipe, res, lambda: CD.alias_local_design(order, w))
        pipe.maybe_flush()


def headers_of(obj, cobjs, names=None, exclude=()):
    """declared black boxes: headers (no items) of the modules a FRESH generator emits for obj, restricted to `names`"""
    import py4hw
    g = py4hw.VerilogGenerator(obj)
    with contextlib.redirect_stdout(io.StringIO()):
        text = g.getVerilogForHierarchy(obj, noInstanceNumberInTopEntity=False)
    tree = vparse.parse(P.strip_attributes(P.canon_ids(text, cobjs)))
    mods = [m[:4] + [['items']] for m in tree[1:] if (names is None or m[1] in names) and m[1] not in exclude]
    return vparse.sexp(['design'] + mods)


def stream_sequences(pipe, res, rng, tier):
    """several requests on ONE VerilogGenerator object: every returned text must be a closed design on its own (modules the
    caller listed in createdStructures before the call are its declared black boxes)"""
    import py4hw
    R = rtl()
    q = tier == 'quick'
    seqs = [
        [('H', 'top', None), ('H', 'top', None)],
        [('H', 'A', None), ('H', 'B', None), ('H', 'top', None)],
        [('H', 'top', None), ('H', 'A', None), ('H', 'B', None)],
        [('V', 'A', None), ('H', 'A', None), ('V', 'B', None), ('H', 'top', None)],
        [('H', 'A', 'fresh'), ('H', 'B', 'fresh'), ('H', 'A', 'fresh')],
        [('H', 'A', 'shared'), ('H', 'B', 'shared'), ('H', 'top', None), ('H', 'B', None)],
        [('H', 'A', 'names'), ('H', 'B', None), ('H', 'A', None)],
        [('H', 'top', 'shared'), ('H', 'top', 'shared'), ('H', 'top', None)],
    ]
    for i in range(2 if q else 40):
        for si, seq in enumerate(seqs):
            r = rng.fork((i, si))
            try:
                d = CD.seq_design(r, r.choice([2, 8]))
            except Exception as e:
                res.hist('constructor_refusals', f'seq:{type(e).__name__}')
                continue
            objs = dict(top=d['top'], A=d['A'], B=d['B'])
            cobjs = CD.all_objects(d['top'])
            g = py4hw.VerilogGenerator(d['top'])
            shared = []
            for k, (op, which, mode) in enumerate(seq):
                o = objs[which]
                pre = []
                try:
                    with contextlib.redirect_stdout(io.StringIO()):
                        if op == 'V':
                            text = g.getVerilog(o)
                            name = R.getVerilogModuleName(o)
                        else:
                            name = R.getVerilogModuleName(o, noInstanceNumber=True)
                            if mode is None:
                                text = g.getVerilogForHierarchy(o)
                            elif mode == 'fresh':
                                text = g.getVerilogForHierarchy(o, createdStructures=[])
                            elif mode == 'shared':
                                pre = list(shared)
                                text = g.getVerilogForHierarchy(o, createdStructures=shared)
                            else:
                                pre = [f"Add{d['desc']['w']}"]
                                text = g.getVerilogForHierarchy(o, createdStructures=list(pre))
                except Exception as e:
                    res.hist('emitter_refusals', f'seq:{type(e).__name__}')
                    break
                try:
                    if op == 'V':
                        ext = headers_of(o, cobjs, None, exclude=(P.canon_ids(name, cobjs),))   # a single module: its children are declared
                    else:
                        ext = headers_of(d['top'], cobjs, set(P.canon_ids(n, cobjs) for n in pre)) if pre else '(design)'
                except Exception as e:
                    res.hist('emitter_refusals', f'seq-ext:{type(e).__name__}')
                    continue
                job = dict(kind='seq', desc=dict(design=d['desc'], seq=[list(x) for x in seq], step=k, pre=[P.canon_ids(n, cobjs) for n in pre]),
                           gen_root=d['top'], dut=o, g=g, text=text, ext=ext, canon_objs=cobjs)
                if name not in pre:
                    job['must_define'] = name
                pipe.add(job)
        pipe.maybe_flush()


def stream_kwports(pipe, res, rng, kws, tier):
    """reserved-word names on input / output / inout ports of NON-inlined children at depth >= 2 (user structural blocks,
    a primitive providing its own body, a clocked block)"""
    R = rtl()
    q = tier == 'quick'
    sv = sorted(set(re.findall(r"'(\w+)'", inspect.getsource(R.isReservedVerilogKeyword))) - kws)
    must = ['small', 'large', 'real', 'time', 'bit', 'do', 'final', 'type', 'design', 'uwire', 'wire', 'signed', 'table', 'int', 'x']
    pool = must + (rng.shuffle(sorted(kws))[:10] + rng.shuffle(sv)[:6] if q else sorted(kws) + sv)
    pool = list(dict.fromkeys(pool))
    for i, n in enumerate(pool):
        other = pool[(i + 1) % len(pool)]
        third = pool[(i + 2) % len(pool)]
        for leaf in ('struct', 'body', 'reg'):
            for pos in ('in', 'out', 'io', 'all'):
                if q and (i + len(leaf) + len(pos)) % 2 and n not in must[:8]:
                    continue
                a = dict(n_in='a', n_out='r', n_io=None)
                if pos == 'in':
                    a['n_in'] = n
                elif pos == 'out':
                    a['n_out'] = n
                elif pos == 'io':
                    a['n_io'] = n
                else:
                    a = dict(n_in=n, n_out=other, n_io=third)
                tryadd(pipe, res, lambda: CD.kwport_design(leaf=leaf, depth=rng.choice([2, 3]), w=rng.choice([1, 4]), **a))
        pipe.maybe_flush()


def stream_reuse(pipe, res, rng, tier):
    ws = [2, 3, 8] if tier == 'quick' else [2, 3, 4, 5, 8, 9, 16, 32, 33]
    for w in ws:
        for inv in ([False, False], [True, True], [False, True], [True, False]):
            tryadd(pipe, res, lambda: CD.reuse_design('abs', dict(w=w, inv=inv)))
        for dw in ([w, w], [w, max(1, w - 1)], [max(1, w - 1), w], [w + 1, w]):
            tryadd(pipe, res, lambda: CD.reuse_design('reg_dw', dict(qw=w, dw=dw)))
        for ew in ([1, 1], [1, 2], [2, 1]):
            tryadd(pipe, res, lambda: CD.reuse_design('reg_ew', dict(qw=w, ew=ew)))
        for rw in ([1, 1], [1, 2], [3, 1]):
            tryadd(pipe, res, lambda: CD.reuse_design('reg_rw', dict(qw=w, rw=rw)))
        for dew in ([(w, 1), (w, 1)], [(w, 1), (w + 1, 1)], [(w, 1), (w, 2)]):
            tryadd(pipe, res, lambda: CD.reuse_design('latch', dict(qw=w, dew=dew)))
        tryadd(pipe, res, lambda: CD.reuse_design('sign', dict(w=w, rw=[1, 1])))
        tryadd(pipe, res, lambda: CD.reuse_design('bufenable', dict(w=w, ew=[1, 1])))
        tryadd(pipe, res, lambda: CD.reuse_design('neg', dict(w=w)))
        r = rng.fork(('add', w))
        v = r.shuffle([(w, w, w, ci, co) for ci in (0, 1) for co in (0, 1)])
        bw, rw = r.randint(1, w), w + r.randint(0, 2)
        v += r.shuffle([(w, bw, rw, ci, co) for ci in (0, 1) for co in (0, 1)])
        tryadd(pipe, res, lambda: CD.reuse_design('add', dict(v=v + [v[0]])))
        for cn in ['clk2', 'clk']:
            tryadd(pipe, res, lambda: CD.reuse_design('reg_clk', dict(w=w, clkname=cn)))
        for order in ([True, False], [False, True], [True, True]):
            tryadd(pipe, res, lambda: CD.reuse_design('add_alias', dict(w=w, alias=order)))


def stream_hier(pipe, res, rng, n):
    for i in range(n):
        r = rng.fork(('hier', i))
        try:
            d = CD.hier_design(r, depth=r.randint(1, 3), fan=r.randint(1, 4))
        except Exception as e:
            res.hist('constructor_refusals', f'hier:{type(e).__name__}')
            continue
        pipe.add(job_of(d))
        pipe.maybe_flush()


def stream_behav(pipe, res, rng, tier):
    import py4hw
    import c03_behav as B
    for cls in B.CLASSES:
        for w in ([8] if tier == 'quick' else [1, 2, 8, 32]):
            hw, dut = B.build(cls, w)
            pipe.add(dict(kind='behav:' + cls.__name__, desc=dict(cls=cls.__name__, w=w), gen_root=hw, dut=dut))
    # the repo's own behavioural classes
    W = lambda hw, n, w=1: hw.wire(n, w)

    def mk(name, f):
        try:
            hw = py4hw.HWSystem()
            dut = f(hw)
        except Exception as e:
            res.hist('constructor_refusals', f'{name}:{type(e).__name__}')
            return
        pipe.add(dict(kind='repo-behav:' + name, desc=dict(cls=name), gen_root=hw, dut=dut))
    tp = os.path.join(REPO, 'test', 'unit', 'Test_RtlGeneration.py')
    if os.path.exists(tp):
        try:
            spec = importlib.util.spec_from_file_location('c03_test_rtl', tp)
            T = importlib.util.module_from_spec(spec)
            spec.loader.exec_module(T)
            mk('CounterBehavioural', lambda hw: T.CounterBehavioural(hw, 'counter', W(hw, 'inc'), W(hw, 'q', 32)))
            mk('SelectType', lambda hw: T.SelectType(hw, 'select', W(hw, 'op', 7), W(hw, 'q', 3)))
        except Exception as e:
            res.hist('constructor_refusals', f'Test_RtlGeneration:{type(e).__name__}')

    def axi(hw):
        from py4hw.emulation.vitiswrapping import Axi2ClkFSM
        return Axi2ClkFSM(hw, 'fsm', W(hw, 'active_handshake'), W(hw, 'clk_target', 64), W(hw, 'reset_clk_count'), W(hw, 'clk_count', 64), W(hw, 'clk_out'), W(hw, 'load_outs'))

    def vk(hw):
        from py4hw.emulation.vitiswrapping import VitisKernelFSM
        return VitisKernelFSM(hw, 'fsm', W(hw, 'ap_start'), W(hw, 'ap_reset'), W(hw, 'ap_done'), W(hw, 'ap_idle'), W(hw, 'ap_ready'), W(hw, 'load_outs'), W(hw, 'all_sent'))

    def ser(hw):
        from py4hw.logic.protocol.uart.serdes import UARTSerializer
        return UARTSerializer(hw, 'ser', W(hw, 'ready'), W(hw, 'valid'), W(hw, 'v', 8), W(hw, 'pe'), W(hw, 'tx'))

    def des(hw):
        from py4hw.logic.protocol.uart.serdes import UARTDeserializer
        return UARTDeserializer(hw, 'des', W(hw, 'rx'), W(hw, 'rx_sample'), W(hw, 'ready'), W(hw, 'valid'), W(hw, 'v', 8), W(hw, 'desync'))

    def csf(hw):
        from py4hw.logic.protocol.uart.clock import ClockSyncFSM
        return ClockSyncFSM(hw, 'cs', W(hw, 'start'), W(hw, 'stop'), W(hw, 'sync'), W(hw, 'active'))

    def cgr(hw):
        from py4hw.logic.protocol.uart.clock import ClockGenerationAndRecovery
        with contextlib.redirect_stdout(io.StringIO()):
            return ClockGenerationAndRecovery(hw, 'cgr', W(hw, 'rx'), W(hw, 'desync'), W(hw, 'txp'), W(hw, 'rxs'), 50e6, 115200)

    def rfc(hw):
        from py4hw.logic.protocol.uart.sequencer import ReadyFlowControl
        return ReadyFlowControl(hw, 'rfc', W(hw, 'in_ready'), W(hw, 'in_valid'), W(hw, 'clk_enable'), W(hw, 'out_ready'), W(hw, 'out_valid'), 4)

    def rq(hw):
        from py4hw.emulation.HILWrapperUART import CMDRequest
        return CMDRequest(hw, 'rq', W(hw, 'ready'), W(hw, 'valid'), W(hw, 'c', 8), W(hw, 'index_in', 8), W(hw, 'v_in', 32), W(hw, 'index_out', 8),
                          W(hw, 'set_index_in'), W(hw, 'set_v_in'), W(hw, 'set_index_out'), W(hw, 'clk_pulse'), W(hw, 'start_resp'))

    def rs(hw):
        from py4hw.emulation.HILWrapperUART import CMDResponse
        return CMDResponse(hw, 'rs', W(hw, 'vin', 32), W(hw, 'size', 8), W(hw, 'start_resp'), W(hw, 'ready'), W(hw, 'valid'), W(hw, 'v', 8))
    for name, f in [('Axi2ClkFSM', axi), ('VitisKernelFSM', vk), ('UARTSerializer', ser), ('UARTDeserializer', des), ('ClockSyncFSM', csf),
                    ('ClockGenerationAndRecovery', cgr), ('ReadyFlowControl', rfc), ('CMDRequest', rq), ('CMDResponse', rs)]:
        mk(name, f)
    msgs = ['Hello', 'Hi', 'py4hw UART\n'] if tier == 'quick' else ['Hello', 'Hi', 'abc', 'py4hw UART\n', 'x' * 17, 'x' * 64]
    for msg in msgs:
        def ms(hw, msg=msg):
            from py4hw.logic.protocol.uart.sequencer import MsgSequencer
            return MsgSequencer(hw, 'ms', W(hw, 'ready'), W(hw, 'valid'), W(hw, 'v', 8), msg)

        def gen(hw, msg=msg):
            from py4hw.logic.protocol.uart.sequencer import UARTMsgGenerator
            with contextlib.redirect_stdout(io.StringIO()):
                return UARTMsgGenerator(hw, 'gen', W(hw, 'tx'), 50e6, 115200, msg)
        mk('MsgSequencer', ms)
        mk('UARTMsgGenerator', gen)


def stream_params(pipe, res, rng, tier):
    """structural parameters: literal overrides, same-name and different-name forwarding, two-level chains, use inside
    transpiled bodies and an inlined primitive, parameter names that are reserved words or equal a port name"""
    import c03_behav as B
    q = tier == 'quick'
    mode_sets = [('forward',), ('literal',), ('forward', 'literal'), ('literal', 'forward'), ('forward', 'forward'),
                 ('comb',), ('shift',), ('forward', 'comb', 'shift', 'literal')]
    pnames = ['INIT', 'START', 'N', 'init', 'LO', 'design', 'wire', 'table', 'a', 'r', 'load', 'clk', 't0', 'w_t0', 'i_p0', 'p0']
    outers = ['BASE', 'INIT', 'START', 'uwire', 'a', 'm', 'w_m']
    ws = [8] if q else [1, 4, 8, 32]

    def add(**kw):
        try:
            hw, dut = B.build_param(**kw)
        except Exception as e:
            res.hist('constructor_refusals', f'param:{type(e).__name__}')
            return
        pipe.add(dict(kind='param', desc={k: (list(v) if isinstance(v, tuple) else v) for k, v in kw.items()}, gen_root=dut, dut=dut))
    for w in ws:
        for pn in pnames:
            for ms in (mode_sets if (pn in ('INIT', 'START') or not q) else mode_sets[2:3] + mode_sets[-1:]):
                add(w=w, pname=pn, modes=ms)
        for pn in ['INIT', 'START', 'table']:
            add(w=w, pname=pn, modes=('forward', 'literal'), child_kw=True)
        # modules with 2 .. 4 parameters (direct values, forwarded, chains) at depth 1 .. 4
        for extra in (1, 2, 3):
            for ms in [('quad',), ('tri',), ('quad', 'tri', 'forward'), ('comb', 'quad')]:
                for levels in ((1, 2, 3) if q else (1, 2, 3, 4)):
                    if q and (extra + len(ms) + levels) % 2 and levels > 1:
                        continue
                    add(w=w, pname='START', modes=ms, levels=levels, extra=extra)
        add(w=w, pname='INIT', modes=('quad', 'tri'), levels=1, extra=0)
        for outer in outers:
            for pn in (['INIT', 'START', outer] if not q or outer in ('BASE', 'INIT') else ['START']):
                for fwd in (True, False):
                    add(w=w, pname=pn, modes=('forward', 'literal', 'comb'), levels=2, outer=outer, forward=fwd)
                    if outer == 'BASE':
                        add(w=w, pname=pn, modes=('shift', 'forward'), levels=2, outer=outer, forward=fwd)
        pipe.maybe_flush()


def stream_bbox(pipe, res, rng, tier):
    """structural modules whose children are (partly) blocks without behaviour — interface-only leaves (vendor IP style), empty
    shells, structural blocks that hand their ports straight to such a leaf or leave a port open — next to primitives, inlined
    and named: local nets whose every endpoint is a non-primitive port, nets with one primitive endpoint, dangling and undriven
    ones, at several widths"""
    import itertools
    q = tier == 'quick'
    kinds = CD.BBOX_KINDS
    chains = [list(c) for c in itertools.product(kinds, repeat=2)]
    r = rng.fork('bbox')
    tri = [list(c) for c in itertools.product(kinds, repeat=3)]
    chains += r.shuffle(tri)[:(20 if q else 150)]
    if not q:
        chains += [[r.choice(kinds) for _ in range(r.randint(4, 6))] for _ in range(100)]
    for ci, st in enumerate(chains):
        rr = r.fork(ci)
        variants = [dict(head='port', tail='port', side=True)]
        if not q or ci % 3 == 0:
            variants += [dict(head='none', tail='port', side=True), dict(head='port', tail='dangling', side=ci % 2 == 0)]
        if not q:
            variants += [dict(head='none', tail='dangling', side=False), dict(head='port', tail='port', side=False)]
        for v in variants:
            w, vw = rr.choice([1, 2, 16, 33]), rr.choice([1, 1, 4])
            tryadd(pipe, res, lambda: CD.bbox_design(st, w=w, vw=vw, **v))
        pipe.maybe_flush()


def stream_clkport(pipe, res, rng, tier):
    """second clock domain whose clock WIRE is a port / a local net of the top and reaches the block of that domain through
    0 .. 3 levels of input ports; the domain is carried by a Reg itself or by a structural block around one"""
    q = tier == 'quick'
    for src in ('port', 'local'):
        for depth in ((0, 1, 2) if q else (0, 1, 2, 3)):
            for holder in ('reg', 'block'):
                for inh in (True, False):
                    for cn in (['clk25'] if q else ['clk25', 'clk2', 'pixclk', 'ck']):
                        for w in ([8] if q else [1, 8]):
                            tryadd(pipe, res, lambda: CD.clkport_design(src=src, depth=depth, holder=holder, clkname=cn, w=w, inherited=inh))
    pipe.maybe_flush()


def stream_options(pipe, res, rng, tier):
    """every public option of the generator's entry points on hierarchies with non-inlined children:
       getVerilogForHierarchy(obj, noInstanceNumberInTopEntity, forceName, createdStructures) and getVerilog(obj, noInstanceNumber,
       forceName).  The returned text must be a closed design under the name the request asked for."""
    import py4hw
    R = rtl()
    q = tier == 'quick'
    fnames = [None, 'forced_top', 'Top_v2'] if q else [None, 'forced_top', 'Top_v2', 'T', 'my_design_1', 'top']
    for i in range(2 if q else 12):
        r = rng.fork(i)
        makers = [lambda: CD.seq_design(r, r.choice([2, 8])), lambda: CD.hier_design(r, depth=r.randint(1, 2), fan=r.randint(2, 3)),
                  lambda: CD.bbox_design([r.choice(CD.BBOX_KINDS) for _ in range(3)], w=r.choice([1, 16]))]
        for mi, mk in enumerate(makers):
            for fn in fnames:
                for nonum in (True, False):
                    for cs in (None, 'fresh'):
                        for entry in ('H', 'V'):
                            if entry == 'V' and cs is not None:
                                continue
                            if q and fn is None and nonum and cs is None and entry == 'H':
                                continue          # the default request: every other stream
                            try:
                                d = mk()
                            except Exception as e:
                                res.hist('constructor_refusals', f'options:{type(e).__name__}')
                                continue
                            top = d['top']
                            subs = [c for c in top.children.values() if len(c.children) > 0]
                            o = top if (i + mi) % 2 == 0 or not subs else subs[0]
                            cobjs = CD.all_objects(top)
                            g = py4hw.VerilogGenerator(top)
                            opts = dict(entry=entry, forceName=fn, noInstanceNumber=nonum, createdStructures=cs, dut='top' if o is top else 'child')
                            res.hist('generator_options', f"{entry} forceName={'set' if fn else None} noInstanceNumber={nonum} createdStructures={cs}")
                            try:
                                with contextlib.redirect_stdout(io.StringIO()):
                                    if entry == 'V':
                                        text = g.getVerilog(o, noInstanceNumber=nonum, forceName=fn)
                                    elif cs is None:
                                        text = g.getVerilogForHierarchy(o, noInstanceNumberInTopEntity=nonum, forceName=fn)
                                    else:
                                        text = g.getVerilogForHierarchy(o, noInstanceNumberInTopEntity=nonum, forceName=fn, createdStructures=[])
                                name = fn if fn is not None else R.getVerilogModuleName(o, noInstanceNumber=nonum)
                                ext = headers_of(o, cobjs, None, exclude=(P.canon_ids(R.getVerilogModuleName(o, noInstanceNumber=False), cobjs),)) if entry == 'V' else '(design)'
                            except Exception as e:
                                res.hist('emitter_refusals', f'options:{type(e).__name__}')
                                continue
                            pipe.add(dict(kind='options', desc=dict(design=d['desc'], maker=mi, **opts), gen_root=top, dut=o, g=g, text=text, ext=ext,
                                          canon_objs=cobjs, top_name=name, must_define=name))
        pipe.maybe_flush()


def stream_behavgen(pipe, res, rng, tier):
    """generated behavioural classes: attribute names equal to / different from / permuted among the port names, method-local
    variables named like the module's other identifiers (ports, escaped ports, attributes, state variables, the clock, keywords)"""
    import c03_behavgen as BG
    q = tier == 'quick'
    for spec in BG.specs(rng, q):
        for w in ([8] if q else [1, 8]):
            try:
                hw, dut, src = BG.build(spec, w)
            except Exception as e:
                res.hist('constructor_refusals', f'behavgen:{type(e).__name__}')
                continue
            res.hist('behavgen', f"{spec['method']} attrs={spec['naming']} locals={len(spec['locals'])}")
            pipe.add(dict(kind='behavgen', desc=dict(w=w, source=src, **{k: spec[k] for k in ('method', 'naming', 'locals', 'ports', 'state', 'shape')}),
                          gen_root=hw, dut=dut))
    pipe.maybe_flush()


def names_oracle(pipe, res, rng, kws, tier):
    """model of the naming functions vs the real ones + the property's oracle on the real getValidVerilogName"""
    R = rtl()
    words = sorted(kws) + ['logic', 'bit', 'int', 'var', 'x', 'data', 'w_x', 'i_x', 'reserved_wire', 'Wire', 'WIRE', '', 'a1', '_', 'untypted', 'untyped']
    src = inspect.getsource(R.isReservedVerilogKeyword)
    words += sorted(set(re.findall(r"'(\w+)'", src)))
    # the emitter's 1364 tables (reserved95 ++ reserved2001) against the model's IEEE 1364-2005 Annex B list, word by word
    def table(name):
        m = re.search(name + r"\s*=\s*\[(.*?)\]", src, flags=re.S)
        return re.findall(r"'(\w+)'", m.group(1)) if m else None
    t95, t01 = table('reserved95'), table('reserved2001')
    if t95 is None or t01 is None:
        res.disagree('keyword-table', dict(what='reserved95 / reserved2001 tables not found in isReservedVerilogKeyword'))
    else:
        res.hist('keyword_table', 'ieee_words_missing_from_emitter', len(kws - set(t95) - set(t01)))
        res.hist('keyword_table', 'emitter_1364_words_not_ieee', len((set(t95) | set(t01)) - kws))
        for w in sorted(kws - set(t95) - set(t01)):
            if not R.isReservedVerilogKeyword(w):
                fail(res, f'IEEE 1364-2005 keyword {w!r} is missing from the emitter\'s reserved-word tables', dict(kind='name', name=w, valid=R.getValidVerilogName(w)))
        extra = sorted((set(t95) | set(t01)) - kws)
        if extra:
            res.notes.append(f'emitter lists non-IEEE-1364-2005 words in reserved95/2001 (harmless, they are only prefixed): {extra}')
    r = rng.fork('names')
    for _ in range(50 if tier == 'quick' else 2000):
        words.append(''.join(r.choice('abcdefghijklmnopqrstuvwxyz_01') for _ in range(r.randint(1, 9))))
    words = [w for w in dict.fromkeys(words) if re.fullmatch(r'[A-Za-z_]\w*', w)]
    ix = [(w, pipe.ask('name ' + w)) for w in words]
    kwi = pipe.ask('keywords')

    def done(out):
        k_local = 0
        if set(out[kwi].split(',')) != kws:
            res.disagree('keyword-list', dict(what='keyword list read from WF.lean differs from the driver'))
        for w, i in ix:
            k, rr, valid, lw, inst = out[i].split(',')
            real = dict(reserved=R.isReservedVerilogKeyword(w), valid=R.getValidVerilogName(w), inst=R.getInstanceName(type('X', (), {'name': w})()))
            res.count(('name', w), hist={'stream': 'names'})
            if (rr == '1') != real['reserved'] or valid != real['valid'] or inst != real['inst']:
                res.disagree('naming-model', dict(name=w, model=dict(reserved=rr, valid=valid, inst=inst), implementation=real))
            if k_local < 60 or tier != 'quick':
                try:
                    d = CD.named_design('a', 'r', w, ['u1', 'u2'])
                    R.clearWireNamesCache()
                    lws = [x for x in R.collectLocalWires(d['top'])]
                    real_lw = R.getWireNames(d['top'])[lws[0]] if len(lws) == 1 else None
                    R.clearWireNamesCache()
                    if real_lw != lw:
                        res.disagree('naming-model', dict(name=w, model_local_wire=lw, implementation=real_lw))
                    if real_lw in kws:
                        fail(res, f'local wire {w!r} is named {real_lw!r}, a reserved word', dict(kind='name-wire', name=w))
                except Exception as e:
                    res.hist('constructor_refusals', f'names:{type(e).__name__}')
            k_local += 1
            if real['valid'] in kws:
                fail(res, f"getValidVerilogName({w!r}) = {real['valid']!r} is an IEEE 1364-2005 reserved word", dict(kind='name', name=w, valid=real['valid']))
            if real['inst'] in kws:
                fail(res, f"getInstanceName({w!r}) = {real['inst']!r} is a reserved word", dict(kind='name-inst', name=w))
    return done


def lean_keywords():
    """the model's IEEE list, read from the Lean source (cross-checked against the driver in names_oracle)"""
    src = open(os.path.join(LEAN, 'Py4hwV', 'Verilog', 'WF.lean')).read()
    m = re.search(r'def keywords : List String := \[(.*?)\]', src, flags=re.S)
    return set(re.findall(r'"(\w+)"', m.group(1)))


def run_corpus(pipe, res):
    """hand-written texts with known verdicts: validates the checker/driver/transport end to end on every run"""
    cdir = os.path.join(VERIF, 'corpus', 'C03')
    items = []
    if os.path.isdir(cdir):
        for f in sorted(os.listdir(cdir)):
            if f.endswith('.json') and f != 'proposed_findings.json':
                for c in json.load(open(os.path.join(cdir, f))):
                    try:
                        tree, pdefs = P.parse_d(c['text'])
                        ext = vparse.sexp(vparse.parse(c['ext'])) if c.get('ext') else '(design)'
                    except vparse.VParseError as e:
                        res.disagree('corpus', dict(case=c['name'], what=f'does not parse: {e}'))
                        continue
                    items.append((c, pipe.ask(f'check (env {vparse.sexp(tree)} {ext} {P.pdefs_sexp(pdefs)})')))

    def done(out):
        for c, i in items:
            got = sorted(set(e.strip().split('|')[0] for e in out[i].split(';;'))) if out[i] != 'ok' else []
            res.count(('corpus', c['name']), hist={'stream': 'corpus'})
            if got != sorted(c['expect']):
                res.disagree('corpus', dict(case=c['name'], expected=c['expect'], checker=out[i][:300]))
    return done


def main(res, tier, rng, replay):
    # S0: nothing of C03 depends on Gen/*: the artefacts regenerated from the working tree are the emitted texts (S2)
    res.proof_stage('Py4hwV.Props.C03', OBLIGATIONS)
    n1, d1, ax1 = res.cov['obligations'], res.cov['discharged'], set(res.cov.get('axioms_seen', []))
    # second proof stage: the universal theorem for the C01 emitter model (flat designs)
    res.proof_stage('Py4hwV.Props.C03Emit', OBLIGATIONS_EMIT)
    n2, d2, ax2 = n1 + res.cov['obligations'], d1 + res.cov['discharged'], ax1 | set(res.cov.get('axioms_seen', []))
    # third proof stage: the conjunction with C01's hierarchy theorem about the same `HierSrc.emit`
    res.proof_stage('Py4hwV.Props.C03C01', OBLIGATIONS_JOINT)
    res.cov['obligations'], res.cov['discharged'] = n2 + res.cov['obligations'], d2 + res.cov['discharged']
    res.cov['axioms_seen'] = sorted(ax2 | set(res.cov.get('axioms_seen', [])))
    res.cov['checker_cmd'] = 'cd lean && lake build Py4hwV.Props.C03 Py4hwV.Props.C03Emit Py4hwV.Props.C03C01 && #print axioms on every obligation'
    kws = lean_keywords()
    pipe = Pipeline(res, kws)
    q = tier == 'quick'
    pipe.after += [run_corpus(pipe, res), names_oracle(pipe, res, rng, kws, tier)]
    stream_reuse(pipe, res, rng.fork('reuse'), tier)
    stream_aliaslocal(pipe, res, rng.fork('aliaslocal'), tier)
    stream_sequences(pipe, res, rng.fork('seq'), tier)
    stream_kwports(pipe, res, rng.fork('kwports'), kws, tier)
    stream_names(pipe, res, rng.fork('names'), kws, tier)
    stream_behav(pipe, res, rng.fork('behav'), tier)
    stream_params(pipe, res, rng.fork('params'), tier)
    stream_bbox(pipe, res, rng.fork('bbox'), tier)
    stream_clkport(pipe, res, rng.fork('clkport'), tier)
    stream_options(pipe, res, rng.fork('options'), tier)
    stream_behavgen(pipe, res, rng.fork('behavgen'), tier)
    pipe.maybe_flush()
    stream_lib(pipe, res, rng.fork('lib'), 6 if q else 160)
    stream_multi(pipe, res, rng.fork('multi'), 4 if q else 120)
    stream_gv(pipe, res, rng.fork('gv'), 150 if q else 6000, 80 if q else 2500)
    stream_hier(pipe, res, rng.fork('hier'), 80 if q else 2500)
    pipe.flush()
    res.cov['designs'] = pipe.n_designs
    res.cov['emit_theorem_coverage'] = pipe.emitcov.summary()
    res.cov['rule'] = ('one evaluation = one design whose REAL emitted text (VerilogGenerator.getVerilogForHierarchy) was parsed, round-trip validated and '
                       'checked by WF.checkE in Lean, plus one pair request per object emitted under an already used module name; distinct = distinct '
                       'canonical text (instance-unique module suffixes renumbered). Streams: every library block at sampled widths/options, random '
                       'primitive netlists, keyword and prefix-collision names in every user-controlled position (port in/out, local wire, instance, '
                       'clock driver, class), reused blocks with different optional ports/widths/clock domains, nested hierarchies of shared modules, '
                       'behavioural classes of the repo and of harness/c03_behav.py through the transpiler, GENERATED behavioural classes (attribute / port / local-variable '
                       'name clashes), modules of interface-only blocks, clock wires through ports, every option of the generator entry points, naming functions vs their Lean model')
    res.assumptions += [
        'harness/vparse.py accepts exactly the emitted subset; it is validated per text by the significant-token round trip (c03_vpp.roundtrip); '
        'documented gaps: attribute instances (* … *) are stripped, parameter declarations without default value are accepted (not IEEE 1364-2005, SystemVerilog only)',
        'width rule uses the self-determined width of IEEE 1364-2005 §5.4 (V.selfW); undeclared identifiers count as 1 bit there and are reported separately',
        'the explanation of an error (which py4hw entity produced a name) is computed with the emitter\'s own helpers and only selects between KNOWN-FINDING and VIOLATION',
        'vendor black-box bodies (py4hw/external/*) are exercised only through the corpus (declared external modules), defparam is outside the grammar',
    ]


if __name__ == '__main__':
    main_wrapper('C03', main)
