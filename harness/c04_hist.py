"""C04 — histories of public simulator operations (construction, pokes on any wire, clk(n) with n >= 0, blocks added after the
simulator exists followed by getSimulator()) on the real simulator vs the Lean session model `Net.Hist` (Drv/C04Hist.lean).

The model computes the evaluation order ITSELF with the sorter model from the exported object graph (propagatable leaves in
allLeaves() order + the sinks the scheduler collects), so the tie covers sorter + propagation + re-sorting together; the decidable
hypotheses of `C04.history_settled` (`HNet.wfB`: complete dependency discovery w.r.t. the PORTS, single driver, distinct outputs)
are evaluated on every exported object graph, and the property's state predicate `Sess.Settled` is evaluated by Lean on the wire
values OBSERVED on the implementation after the construction and after every clock call."""
import contextlib, io
from common import *
import gen_designs as G, dump_ir as D

HKINDS = ['And2', 'Or2', 'Not', 'Buf', 'Mux2', 'Sub', 'Mul', 'AddCarryIn', 'Constant', 'ShiftLeftConstant', 'ShiftRightConstant', 'Bit',
          'Range', 'ZeroExtend', 'SignExtend', 'Repeat', 'ConcatenateLSBF', 'ConcatenateMSBF', 'BitsLSBF', 'BitsMSBF', 'Reg', 'Sequence']


class _Session:
    """one real simulator + the request lines of the same history for the model"""

    def __init__(self, res, label, summary, refix):
        self.res, self.label, self.summary, self.refix = res, label, summary, refix
        self.ids = {}
        self.sent = 0            # leaves already sent
        self.lines = ['reset']
        self.expect = [(0, 'ok', 'reset', 0)]
        self.hist = []
        self.model = True        # False once the object graph cannot be exported (implementation still driven for the oracles)
        self.d = None
        self.failed = False

    def _emit(self, line, want, what):
        self.lines.append(line)
        self.expect.append((len(self.lines) - 1, want, what, len(self.hist)))

    def install(self, top, sim, first):
        """the object graph as it is NOW (after getSimulator()): new leaves, graph, drivers; then create / extend"""
        self.hist.append(('getSimulator', 'first' if first else 'again, after additions'))
        if not self.model:
            return
        try:
            d = D.Dump(top, sim, ids=self.ids)
            sched = d.schedule_lines()
        except Exception as e:
            self.res.hist('history_not_dumpable', f'{type(e).__name__}: {str(e)[:60]}')
            self.model = False
            return
        self.d = d
        chunks = []
        for ln in d.lines[2:]:
            if ln.startswith('leaf '):
                chunks.append([ln])
            elif ln.startswith('cons '):
                chunks[-1].append(ln)
        self._emit(d.lines[1], 'ok', 'wires')
        for k in range(self.sent, len(chunks)):
            for ln in chunks[k]:
                self._emit(ln, 'ok', 'leaf/cons')
            if not first:
                self._emit(f'fresh {k}', 'ok', 'fresh')
        self.sent = len(chunks)
        props = [l for l in top.allLeaves() if l.isPropagatable()]
        succs = {}
        for l in props:
            ss = []
            for port in l.outPorts:
                if port.wire is None:
                    continue
                for sp in port.wire.getSinks():
                    if sp.parent.isPropagatable():
                        ss.append(d.lid[id(sp.parent)])
            succs[d.lid[id(l)]] = ss
        self._emit('graph | ' + ','.join(str(d.lid[id(l)]) for l in props) + ' | ' +
                   ';'.join(','.join(map(str, succs.get(k, []))) for k in range(len(d.leaves))), 'ok', 'graph')
        for ln in sched[1:]:
            self._emit(ln, 'ok', 'drivers')
        self._emit('create' if first else 'extend', 'ok', 'the sorter model accepts the object graph the implementation accepted')
        self._emit('order', sched[0][len('order '):], 'evaluation order computed by the model = Simulator.propagatables')
        self._emit('wf', '1', 'hypotheses of C04.history_settled (HNet.wfB) on the exported object graph')
        self._emit('vals', ','.join(map(str, d.values())), 'wire values after ' + ('construction' if first else 'getSimulator() on the extended design'))
        if first:
            self.observe('after simulator construction', top)

    def observe(self, when, top):
        """the property's state predicate on the implementation: Lean's `Settled` on the observed values + the python re-evaluation"""
        if self.model:
            self._emit('settled', '1', 'model state satisfies Settled ' + when)
            self._emit('settled-obs | ' + ','.join(map(str, self.d.values())), '1', 'OBS ' + when)
        if not self.failed:
            self.failed = not self.refix(self.res, top, dict(self.summary, history=list(self.hist)), when)

    def op(self, top, sim, o):
        if o[0] == 'poke':
            o[1].put(o[2])
            self.hist.append(('poke', o[1].getFullPath(), o[2]))
            if self.model:
                self._emit(f'poke {self.d.wid[id(o[1])]} {o[2]}', 'ok', 'poke')
        else:
            sim.clk(o[1])
            self.hist.append(('clk', o[1]))
            if self.model:
                self._emit(f'clk {o[1]}', 'ok', 'clk')
        if self.model:
            self._emit('vals', ','.join(map(str, self.d.values())), f'wire values after {self.hist[-1]}')
        if o[0] == 'clk':
            self.observe(f'after clk({o[1]})', top)


def history_ops(r, top, ins, n):
    wires = D.all_wires(top)
    ops = []
    for _ in range(n):
        c = r.randint(0, 9)
        if c < 5 and ins:
            w = r.choice(ins)
            ops.append(('poke', w, r.bits(w.getWidth())))
        elif c < 6:
            w = r.choice(wires)          # a disturbance: any wire, also a combinationally driven one
            ops.append(('poke', w, r.bits(max(1, w.getWidth()))))
        else:
            ops.append(('clk', r.choice([0, 1, 1, 1, 2, 3])))
    ops.append(('clk', r.choice([0, 1, 1])))
    return ops


def history_stream(res, rng, n, make_hier_plan, refix):
    sessions = []
    for i in range(n):
        r = rng.fork(i)
        kinds = HKINDS + (['AsynchronousMemory'] if i % 4 == 1 else [])
        if i % 2 == 0:
            plan = make_hier_plan(r, r.choice([2, 3, 5, 8, 13]))
        else:
            plan = G.random_plan(r, r.choice([2, 3, 5, 8, 13, 20]), seq_ratio=(1, 6), wmax=r.choice([1, 3, 8]), kinds=kinds,
                                 n_domains=r.randint(0, 2))
            for dm in plan['domains']:
                dm['gated'] = False
                dm['enable'] = None
            for nd in plan['nodes']:
                nd.pop('own_driver', None)
        if i % 3 == 2:
            G.register_inputs(plan)
        nn = len(plan['nodes'])
        order = r.shuffle(range(nn))
        pause = r.randint(1, nn - 1) if (nn > 1 and i % 5 != 4) else None
        summary = dict(plan=G.plan_summary(plan), inst_order=order, simulator_created_after=pause, cycle_length=None, depth=None, n_leaves=nn,
                       instance_names=[nd.get('inst', nd['name']) for nd in plan['nodes']])
        S = _Session(res, i, summary, refix)
        ro = r.fork('ops')

        def on_pause(top, S=S, ro=ro, plan=plan):
            with contextlib.redirect_stdout(io.StringIO()):
                sim = top.getSimulator()
            S.install(top, sim, True)
            ins = [top._wires[nm] for nm, _ in plan['inputs']]
            for o in history_ops(ro.fork('phase1'), top, ins, ro.randint(0, 4)):
                S.op(top, sim, o)
        try:
            with contextlib.redirect_stdout(io.StringIO()):
                sysobj, ins, W, leaves = G.build(plan, inst_order=order, pause_after=pause, on_pause=on_pause if pause is not None else None)
                sim = sysobj.getSimulator()
        except Exception as e:
            res.hist('history_build_errors', f'{type(e).__name__}: {str(e)[:50]}')
            continue
        S.install(sysobj, sim, pause is None)
        for o in history_ops(ro.fork('phase2'), sysobj, ins, ro.randint(2, 6)):
            S.op(sysobj, sim, o)
        sessions.append(S)
        res.count(('history', i, str(order)), hist={'history_sessions': ('hier' if i % 2 == 0 else 'flat') + ('+late' if pause is not None else ''),
                                                    'history_stateful_propagatables': sum(nd['kind'] == 'AsynchronousMemory' for nd in plan['nodes'])})
    lines = []
    base = []
    for S in sessions:
        base.append(len(lines))
        lines += S.lines
    if not lines:
        return
    out = run_driver('Drv/C04Hist.lean', lines)
    for S, b in zip(sessions, base):
        if not S.model:
            continue
        for ex in S.expect:
            k, want, what = ex[0], ex[1], ex[2]
            got = out[b + k].strip()
            if got == want:
                continue
            hist = list(S.hist[:max(ex[3], 1)])
            if what.startswith('OBS ') and got == '0':
                res.fail('netlist is not at its combinational fixpoint ' + what[4:] + " (Lean predicate Sess.Settled on the implementation's wire values)",
                         dict(S.summary, history=hist, when=what[4:]))
            else:
                res.disagree('history', dict(session=S.label, request=S.lines[k][:120], what=what, lean=got[:160], python=want[:160],
                                             design=S.summary['plan'], inst_order=S.summary['inst_order'],
                                             simulator_created_after=S.summary['simulator_created_after'], history=hist[-8:]))
            break
