"""C04 — Combinational settling is complete and independent of construction order.  DESIGN.md §5 C04,
lean/Py4hwV/Net/Sched.lean (literal model of topologicalSort), lean/Py4hwV/Props/C04.lean."""
import contextlib, io
from common import *
import gen_designs as G, dump_ir as D
import c04_hist

OBLIGATIONS = ['C04.ffdp_le', 'C04.onePass_perm', 'C04.onePass_nochange', 'C04.sortLoop_sound', 'C04.topoSort_sound',
               'C04.edge_order', 'C04.path_increasing', 'C04.cyclic_rejected', 'C04.selfloop_rejected',
               'C04.reverse_chain_needs_n_passes', 'C04.propagate_fixpoint',
               'C04.settled_unique', 'C04.propagate_order_indep', 'C04.propIdem', 'C04.clkCycle_settled',
               'C04.topoOK_of_sorted', 'C04.pairwise_idx']
# completeness side (Props/C04Complete.lean): termination of the swap sorter on acyclic netlists with the explicit bound
# n(n-1)/2 + 1 passes, hence acceptance under the code's limit max(1000, n+1) for every netlist of at most 45 leaves
OBLIGATIONS_COMPLETE = ['C04.accepted_within', 'C04.accepted_of_limit', 'C04.accepted_upto45', 'C04.schedulable_sorted',
                        'C04.accepted_iff_acyclic', 'C04.acyclic_iff_noCycle', 'C04.accepted_iff_noCycle_upto45',
                        'C04.accepted_of_inversions', 'C04.accepted_iff_noCycle_quadratic_limit',
                        'C04.depth2_needs_n_passes']
# the clause "and after every clock call" over arbitrary operation histories, with the stateless / stateful boundary explicit
# (Props/C04Hist.lean), and its instantiation on concrete object graphs running the generated leaf functions (Props/C04HistIR.lean)
OBLIGATIONS_HIST = ['C04.propagate_settled', 'C04.topoOKH_of_schedule', 'C04.clk_ends_with_propagate', 'C04.create_settled',
                    'C04.stepH_inv', 'C04.runH_inv', 'C04.history_settled', 'C04.settledB_iff', 'C04.stateful_not_settled',
                    'C04.latchNotH_wf',
                    'C04.dyn_stateless', 'C04.call_det', 'C04.sem_prop_fst_sublist', 'C04.wf_of_wfB', 'C04.ir_history_settled']
COMB_KINDS = ['And2', 'Or2', 'Not', 'Buf', 'Mux2', 'Sub', 'Mul', 'AddCarryIn', 'Constant', 'ShiftLeftConstant',
              'ShiftRightConstant', 'Bit', 'Range', 'ZeroExtend', 'SignExtend', 'Repeat', 'ConcatenateLSBF',
              'ConcatenateMSBF', 'BitsLSBF', 'BitsMSBF', 'SignedMul']
STATEFUL_PROP = ('Latch', 'AsynchronousMemory', 'Div', 'Mod')


def graph_of(sysobj):
    """initial propagatables (allLeaves order) and succs as the Python collects them; ids = position in that list"""
    props = [l for l in sysobj.allLeaves() if l.isPropagatable()]
    pid = {id(l): i for i, l in enumerate(props)}
    succs = []
    for l in props:
        ss = []
        for port in l.outPorts:
            if port.wire is None:
                continue
            for sp in port.wire.getSinks():
                if sp.parent.isPropagatable():
                    ss.append(pid[id(sp.parent)])
        succs.append(ss)
    return props, pid, succs


def true_graph(sysobj, props=None):
    """the dependency graph the PROPERTY speaks about, read from the ports only (never from Wire.sinks / Wire.source, which are the
    scheduler's own bookkeeping): u -> v iff some output port of the propagatable leaf u and some input (or in/out) port of the
    propagatable leaf v hold the same Wire object.  Leaves are identified by object identity (two leaves in different parents may
    carry the same instance name).  ids = position in the allLeaves() sub-list of propagatable leaves, as in graph_of."""
    if props is None:
        props = [l for l in sysobj.allLeaves() if l.isPropagatable()]
    readers = {}
    for vi, l in enumerate(props):
        for port in list(l.inPorts) + list(getattr(l, 'inOutPorts', [])):
            if port.wire is not None:
                readers.setdefault(id(port.wire), [])
                if vi not in readers[id(port.wire)]:
                    readers[id(port.wire)].append(vi)
    succs = []
    for l in props:
        ss = []
        for port in l.outPorts:
            if port.wire is not None:
                for vi in readers.get(id(port.wire), []):
                    if vi not in ss:
                        ss.append(vi)
        succs.append(ss)
    return succs


def discovery_check(res, sysobj, props, succs, tsuccs, sm):
    """hypothesis `hedges` of C04.topoOK_of_sorted / C04.history_settled on the real object graph: every data dependency between two
    propagatable leaves (ports on a common wire) is among the sinks the scheduler collects, and nothing else is"""
    for u, (a, b) in enumerate(zip(succs, tsuccs)):
        if set(a) != set(b):
            res.disagree('dependency-discovery',
                         dict(leaf=props[u].getFullPath(), wire_sinks=[props[v].getFullPath() for v in a],
                              port_readers=[props[v].getFullPath() for v in b], design=sm.get('plan'), inst_order=sm.get('inst_order')))
            return False
    return True


def comb_cycle_lengths(succs):
    """lengths of the shortest cycle through each node (None if acyclic) — the property's own notion of 'cyclic'"""
    n = len(succs)
    best = None
    for s in range(n):
        # BFS from s back to s
        dist = {s: 0}
        q = [s]
        found = None
        while q and found is None:
            u = q.pop(0)
            for v in succs[u]:
                if v == s:
                    found = dist[u] + 1
                    break
                if v not in dist:
                    dist[v] = dist[u] + 1
                    q.append(v)
        if found is not None and (best is None or found < best):
            best = found
    return best


def longest_path(succs):
    n = len(succs)
    memo = {}
    sys.setrecursionlimit(10000)

    def lp(u):
        if u in memo:
            return memo[u]
        memo[u] = 0
        memo[u] = 1 + max([lp(v) for v in succs[u] if v != u] + [0])
        return memo[u]
    return max([lp(u) for u in range(n)] + [0])


def add_ring(plan, rng, length, twins=False):
    """append a combinational ring of `length` leaves (And2/Or2/Buf/Not) to the plan.  twins: the ring members are spread over
    the containers of the plan and some of them get a TWIN: a second cell of the same kind with the same instance name in
    another container that reads the same wire through the same port (its output goes nowhere) — the ring passes through
    one of two same-named readers of a wire"""
    base = len(plan['nodes'])
    ndom = len(plan.get('domains', [None]))
    tw = []
    for t in range(length):
        prev = ('node', base + (t - 1) % length, 0)
        kind = rng.choice(['Buf', 'Not', 'And2', 'Or2'])
        nd = {'kind': kind, 'name': f'ring{t}', 'ins': [prev], 'outw': [1], 'params': {}, 'dom': 0}
        if kind in ('And2', 'Or2'):
            nd['ins'] = rng.shuffle([prev, ('in', 0)])
        if twins and ndom > 1:
            rt = rng.fork(('twin', t))
            nd['dom'] = rt.randint(0, ndom - 1)
            nd['inst'] = f'ring{t}'
            if rt.chance(2, 3):
                other = rt.choice([d_ for d_ in range(ndom) if d_ != nd['dom']])
                tw.append(dict(nd, name=f'ringtw{t}', dom=other, ins=list(nd['ins'])))
        plan['nodes'].append(nd)
    plan['nodes'] += tw


def hier_plan(rng, n_nodes):
    """a random plan in which a sub-set of the nodes (the 'block') is instantiated several times, each instance in its own
    container with the SAME instance names inside; references inside the block are private to each instance, references
    to the outside are mostly shared between the instances (two instances of one structural block reading the same wires);
    a few cells outside the block reuse the block's instance names in their own container, and a few cells combine the
    outputs of the instances.  Leaves are therefore NOT identified by their instance name, only by their full path."""
    plan = G.random_plan(rng, n_nodes, seq_ratio=(1, 6), wmax=rng.choice([1, 3, 8]), kinds=COMB_KINDS + ['Reg', 'Sequence'], n_domains=0)
    nodes = plan['nodes']
    n = len(nodes)
    rh = rng.fork('hier')
    cand = [j for j in range(n) if not nodes[j].get('late')]
    if not cand:
        cand = [0]
    tsize = rh.randint(1, min(4, len(cand)))
    T = sorted(rh.shuffle(cand)[:tsize])
    m = rh.randint(2, 3)
    for d_ in range(m):
        plan['domains'].append({'parent': rh.randint(0, d_) if rh.chance(1, 3) else 0, 'gated': False, 'enable': None})
    for x, j in enumerate(T):
        nodes[j]['dom'] = 1
        nodes[j]['inst'] = f'u{x}'

    def width_of(ref):
        return plan['inputs'][ref[1]][1] if ref[0] == 'in' else nodes[ref[1]]['outw'][ref[2]]
    for c in range(2, m + 1):
        remap = {j: len(nodes) + x for x, j in enumerate(T)}
        for x, j in enumerate(T):
            src = nodes[j]
            ins = []
            for ref in src['ins']:
                if ref[0] == 'node' and ref[1] in remap:
                    ins.append(('node', remap[ref[1]], ref[2]))
                elif rh.chance(3, 4):
                    ins.append(ref)                                       # shared between the instances
                else:
                    same = [('in', i_) for i_ in range(len(plan['inputs'])) if plan['inputs'][i_][1] == width_of(ref)]
                    ins.append(rh.choice(same) if same else ref)
            nodes.append(dict(src, name=f'n{len(nodes)}', inst=src['inst'], dom=c, ins=ins, outw=list(src['outw']),
                              params=dict(src['params'])))
    # cells outside the block that carry one of the block's instance names (unique within their own container)
    used = {}
    for j, nd in enumerate(nodes):
        used.setdefault(nd.get('dom', 0), set()).add(nd.get('inst', nd['name']))
    for j in range(n):
        if j not in T and rh.chance(1, 3):
            dm = rh.randint(0, m) if rh.chance(1, 2) else 0
            nm = f'u{rh.randint(0, tsize - 1)}'
            if nm not in used.setdefault(dm, set()) and not nodes[j].get('late'):
                nodes[j]['dom'] = dm
                nodes[j]['inst'] = nm
                used[dm].add(nm)
    # consumers of the instances' outputs
    for _ in range(rh.randint(0, 2)):
        a = ('node', rh.choice(T), 0)
        b = ('node', len(nodes) - 1 - rh.randint(0, tsize * (m - 1) - 1), 0)
        nodes.append({'kind': rh.choice(['And2', 'Or2', 'Sub']), 'name': f'n{len(nodes)}', 'ins': rh.shuffle([a, b]),
                      'outw': [rh.randint(1, 8)], 'params': {}, 'dom': 0})
    return plan


def refixpoint_oracle(res, sysobj, summary, when):
    """every wire driven by a stateless combinational block holds what the block computes from the current inputs:
    calling propagate() of each such block again must not change any wire"""
    wires = D.all_wires(sysobj)
    before = [w.value for w in wires]
    for lf in sysobj.allLeaves():
        if lf.isPropagatable() and type(lf).__name__ not in STATEFUL_PROP:
            lf.propagate()
            after = [w.value for w in wires]
            if after != before:
                bad = [(w.getFullPath(), b, a) for w, b, a in zip(wires, before, after) if a != b][:4]
                res.fail('netlist is not at its combinational fixpoint ' + when,
                         dict(summary, leaf=lf.getFullPath(), kind=type(lf).__name__, wires=bad, when=when))
                for w, b in zip(wires, before):
                    w.value = b
                return False
    return True


def after_op(res, sysobj, sm, tr):
    """callback for NetBatch.add: records the wire values after every operation and, after every operation that advanced the clock
    (a poke alone leaves the netlist unsettled by design), applies the fixpoint oracle"""
    st = {'clks': 0, 'failed': False}
    def cb(d, sim):
        if sim.total_clks != st['clks'] and not st['failed']:
            st['failed'] = not refixpoint_oracle(res, sysobj, sm, 'after clk()')
        st['clks'] = sim.total_clks
        tr.append({w.name: w.value for w in d.wires})
    cb.st = st
    return cb


def bidir_stream(res, rng, n):
    """stateless cells that also read an in/out port: BidirBuf between a pad (BidirWire) and ordinary logic; the pad, the output
    enable and the data are poked between clock calls (each alone, the others unchanged); after every clk() the netlist must sit at
    its fixpoint: `pin` follows the pad while poe = 0, the pad follows `pout` while poe = 1, and everything downstream follows"""
    import py4hw, contextlib, io
    for i in range(n):
        r = rng.fork(i)
        w = r.randint(1, 8)
        hw = py4hw.HWSystem()
        pad = hw.bidir_wire('pad', w)
        pin, pout, poe = hw.wire('pin', w), hw.wire('pout', w), hw.wire('poe', 1)
        npin, x = hw.wire('npin', w), hw.wire('x', w)
        order = r.shuffle(range(3))
        for k in order:
            if k == 0:
                py4hw.BidirBuf(hw, 'buf', pin, pout, poe, pad)
            elif k == 1:
                py4hw.Not(hw, 'inv', pin, npin)
            else:
                py4hw.And2(hw, 'and', npin, pout, x)
        with contextlib.redirect_stdout(io.StringIO()):
            sim = hw.getSimulator()
        sm = dict(design='BidirBuf(pin, pout, poe, pad) -> Not -> And2', width=w, inst_order=order, cycle_length=None, depth=3, n_leaves=3)
        hist = []
        ok = refixpoint_oracle(res, hw, dict(sm, history=hist), 'after simulator construction')
        for t in range(r.randint(3, 10)):
            tgt = r.choice(['pad', 'pad', 'poe', 'pout'])
            v = r.bits(w if tgt != 'poe' else 1)
            {'pad': pad, 'poe': poe, 'pout': pout}[tgt].put(v)
            hist.append((tgt, v))
            sim.clk(1)
            hist.append(('clk', 1))
            if ok:
                ok = refixpoint_oracle(res, hw, dict(sm, history=list(hist)), 'after clk()')
        res.count(('bidir', i, w, tuple(order)), hist={'bidir_designs': 'BidirBuf'})


def prepare_stimulus_stream(res, rng, n):
    """test benches that drive the inputs with prepare() (registered stimulus) instead of put(): the value lands at the edge together
    with every other prepared wire and the propagation that follows the edge must reach every cell that reads it"""
    import contextlib, io
    for i in range(n):
        r = rng.fork(i)
        plan = G.random_plan(r, r.randint(2, 14), seq_ratio=(1, 6), wmax=r.choice([1, 3, 8]), kinds=COMB_KINDS + ['Reg'])
        order = r.shuffle(range(len(plan['nodes'])))
        try:
            with contextlib.redirect_stdout(io.StringIO()):
                sysobj, ins, W, leaves = G.build(plan, inst_order=order)
                sim = sysobj.getSimulator()
        except Exception as e:
            res.hist('build_errors', str(e)[:50])
            continue
        hist = []
        sm = dict(plan=G.plan_summary(plan), inst_order=order, stimulus='inputs driven with Wire.prepare() before each clk()', history=hist,
                  cycle_length=None, depth=None, n_leaves=len(plan['nodes']))
        ok = True
        for t in range(r.randint(2, 8)):
            for w in ins:
                v = r.bits(w.getWidth())
                w.prepare(v)
                hist.append(('prepare', w.name, v))
            sim.clk(1)
            hist.append(('clk', 1))
            if ok and t % 2 == 1:
                # a clock call that advances no cycle still settles the combinational logic for inputs changed with put()
                for w in ins:
                    v = r.bits(w.getWidth())
                    w.put(v)
                    hist.append(('put', w.name, v))
                sim.clk(0)
                hist.append(('clk', 0))
                ok = refixpoint_oracle(res, sysobj, dict(sm, history=list(hist)), 'after clk(0)')
                for w in ins:
                    w.prepare(w.get())
                sim.clk(1)
                hist.append(('clk', 1))
                continue
            if ok:
                ok = refixpoint_oracle(res, sysobj, dict(sm, history=list(hist)), 'after clk()')
                for w in ins:
                    want = [h for h in hist if h[0] == 'prepare' and h[1] == w.name][-1][2]
                    if ok and w.get() != want:
                        ok = False
                        res.fail('a value prepared on an input wire before clk() is not on the wire after the edge',
                                 dict(sm, wire=w.name, expected=want, observed=w.get()))
        res.count(('prepstim', i), hist={'prepare_stimulus_designs': 1})


def exhaustive_digraphs(res, rng, tier, lim):
    """EVERY digraph (self-loops included) on n leaves with the leaves instantiated in index order — relabelling makes this
    every instantiation order of every netlist shape on n leaves: real sorter (stub leaves with arbitrary fan-in) vs the Lean
    model (exact order / exception), plus the property's own verdict (accepted iff acyclic) and the pass count"""
    import py4hw

    class Stub(py4hw.Logic):
        def __init__(self, parent, name, ins, out):
            super().__init__(parent, name)
            for k, w in enumerate(ins):
                self.addIn(f'i{k}', w)
            self.addOut('o', out)

        def propagate(self):
            pass

    def cases():
        for n in (1, 2, 3):
            for m in range(1 << (n * n)):
                yield n, m
        if tier == 'quick':
            for _ in range(1500):
                yield 4, rng.randint(0, (1 << 16) - 1)
            for _ in range(500):
                yield 5, rng.randint(0, (1 << 25) - 1)
        else:
            for m in range(1 << 16):
                yield 4, m
            for _ in range(40000):
                yield 5, rng.randint(0, (1 << 25) - 1)
            for _ in range(8000):
                yield 6, rng.randint(0, (1 << 36) - 1)
    reqs, exp, meta = [], [], []
    for n, m in cases():
        adj = [[v for v in range(n) if (m >> (u * n + v)) & 1] for u in range(n)]     # u -> v : v reads u's output
        hw = py4hw.HWSystem()
        outs = [hw.wire(f'w{u}', 1) for u in range(n)]
        for v in range(n):
            Stub(hw, f's{v}', [outs[u] for u in range(n) if v in adj[u]], outs[v])
        props, pid, succs = graph_of(hw)
        exc = None
        try:
            sim = hw.getSimulator()
        except Exception as e:
            exc = str(e)
        cyc = comb_cycle_lengths(succs)
        if cyc is not None and not exc:
            res.fail(f'netlist with a combinational cycle of length {cyc} was accepted and simulated',
                     dict(n_leaves=n, edges=adj, cycle_length=cyc, depth=None, stub_leaves=True))
        if cyc is None and exc:
            res.fail(f'acyclic netlist refused: {exc}', dict(n_leaves=n, edges=adj, cycle_length=None, depth=longest_path(succs), stub_leaves=True))
        reqs.append(f"sort | {lim} | {','.join(map(str, range(n)))} | " + ';'.join(','.join(map(str, s_)) for s_ in succs))
        exp.append('E' if exc else ','.join(str(pid[id(o)]) for o in sim.propagatables))
        meta.append((n, adj, cyc))
        res.count(('digraph', n, m), hist={'exhaustive_digraph_n': n})
    outs_ = run_driver('Drv/C04.lean', reqs)
    worst = {}
    for rq, a, e, (n, adj, cyc) in zip(reqs, outs_, exp, meta):
        got = a.split('|')[0].strip()
        if got != e:
            res.disagree('sorter-exhaustive', dict(request=rq, lean=got, python=e))
        if cyc is None and '|' in a:
            worst[n] = max(worst.get(n, 0), int(a.split('|')[1]))
    # the convergence conjecture: an acyclic netlist on n leaves never needs more than n passes (incl. the confirming one)
    res.cov['max_passes_by_n_acyclic'] = worst
    for n, p_ in worst.items():
        if p_ > max(n, 1):
            res.notes.append(f'convergence conjecture refuted at n={n}: {p_} passes')


def late_additions(res, rng, n):
    """getSimulator() re-sorts on every call so that blocks added AFTER the simulator exists are scheduled: build the same
    plan in one go and in two phases (simulator created in between), also with containers that are empty in phase 1 and receive
    exactly one leaf each in phase 2 (the leaf count of the hierarchy does not change); the two must agree and be at the fixpoint"""
    for i in range(n):
        r = rng.fork(i)
        equal_count = (i % 2 == 0)
        m = r.randint(1, 4)
        plan = G.random_plan(r, r.randint(2, 12) + (m if equal_count else 0), seq_ratio=(1, 8), wmax=r.choice([1, 4, 8]),
                             kinds=['And2', 'Or2', 'Not', 'Buf', 'Mux2', 'Sub', 'AddCarryIn', 'Constant', 'Bit', 'Reg'], n_domains=m)
        for dm in plan['domains']:
            dm['gated'] = False
            dm['enable'] = None
        for nd in plan['nodes']:
            nd.pop('own_driver', None)
        nn = len(plan['nodes'])
        if equal_count:
            # the last m nodes go one into each container, everything else at the top; phase 2 = exactly those m nodes
            for t, nd in enumerate(plan['nodes']):
                nd['dom'] = 0
            for t in range(m):
                plan['nodes'][nn - m + t]['dom'] = t + 1
            for dm in plan['domains'][1:]:
                dm['parent'] = 0
            order = r.shuffle(range(nn - m)) + r.shuffle(range(nn - m, nn))
            pause = nn - m
        else:
            order = r.shuffle(range(nn))
            pause = r.randint(1, nn - 1) if nn > 1 else 0
        # every third case also ADVANCES the clock on the partial design before the remaining blocks are added (the run has started)
        clk_before = (i % 3 == 1)
        summary = dict(plan=G.plan_summary(plan), inst_order=order, simulator_created_after=pause, equal_leaf_count=equal_count,
                       clk_before_additions=clk_before)
        try:
            ref_sys, ref_ins, _, _ = G.build(plan, inst_order=order)
            ref_sim = ref_sys.getSimulator()
            sysobj, ins, W, leaves = G.build(plan, inst_order=order, pause_after=pause,
                                             on_pause=(lambda top: top.getSimulator().clk(1)) if clk_before else (lambda top: top.getSimulator()))
            sim = sysobj.getSimulator()
        except Exception as e:
            res.hist('late_build_errors', str(e)[:50])
            continue
        ops = [(o[0], o[1].name, o[2]) if o[0] == 'poke' else o for o in G.random_ops(r.fork('ops'), ins, 6)]
        ok = True
        for o in ops:
            for so, si in ((ref_sys, ref_sim), (sysobj, sim)):
                names = {w.name: w for w in D.all_wires(so)}
                if o[0] == 'poke':
                    names[o[1]].put(o[2])
                else:
                    si.clk(o[1])
            if o[0] != 'clk':
                continue          # the property speaks about the state at simulator creation and after every clk()
            a = {w.name: w.value for w in D.all_wires(ref_sys)}
            b = {w.name: w.value for w in D.all_wires(sysobj)}
            if a != b and ok and not clk_before:      # after an early clk the register states legitimately differ from the one-go build
                ok = False
                diff = {k: (a[k], b.get(k)) for k in a if a[k] != b.get(k)}
                res.fail('blocks added after the simulator was created are not (correctly) scheduled: values differ from the same design built in one go',
                         dict(summary, ops=ops, differing_wires=dict(list(diff.items())[:5])))
        if ok:
            refixpoint_oracle(res, sysobj, dict(summary, cycle_length=None, depth=None), 'after late additions and clk()')
        res.count(('late', i, str(summary)), hist={'late_additions': 'equal-count' if equal_count else 'random-pause'})


def main(res, tier, rng, replay):
    import py4hw
    ok, metas, errors, changed = regenerate()
    for e in errors:
        res.broken.append(('translator', 'py2lean', e))
    res.proof_stage('Py4hwV.Props.C04HistIR', OBLIGATIONS + OBLIGATIONS_COMPLETE + OBLIGATIONS_HIST,
                    extra_modules=['Py4hwV.Props.C04', 'Py4hwV.Props.C04Complete', 'Py4hwV.Props.C04Hist'])
    # pass limit as written in the source today
    src = open(os.path.join(REPO, 'py4hw', 'simulation.py')).read()
    # the pass limit as written in the source today: either a literal or `maxloops = max(K, len(self.propagatables) + 1)`
    m1 = re.search(r'maxloops\s*=\s*max\(\s*(\d+)\s*,\s*len\(self\.propagatables\)\s*\+\s*1\s*\)', src)
    m2 = re.search(r'loopcount\s*>\s*(\d+)', src)
    if m1 and re.search(r'loopcount\s*>\s*maxloops', src) and int(m1.group(1)) == 1000:
        limit_of = lambda n: max(1000, n + 1)
        lim_tag = 'code'
        limit = None
    elif m2:
        limit = int(m2.group(1))
        limit_of = lambda n: limit
        lim_tag = str(limit)
        res.broken.append(('correspondence', 'pass-limit', f'simulation.py uses a fixed pass limit {limit}; the model (Sched.codeLimit) is max 1000 (n+1)'))
    else:
        limit = None
        limit_of = lambda n: max(1000, n + 1)
        lim_tag = 'code'
        res.broken.append(('correspondence', 'pass-limit', 'pass limit expression not recognised in simulation.py'))
    res.cov['pass_limit_in_source'] = lim_tag
    lim = lim_tag

    n_designs = 220 if tier == 'quick' else 1500
    reqs, expect, info = [], [], []
    nb = D.NetBatch(res, 'net-sim')
    maxpasses = 0

    def run_design(i, r, plan, ring, disturb, tag='flat'):
        """one plan, two random instantiation orders: sorter tie, dependency discovery, every oracle of the property"""
        order1 = r.shuffle(range(len(plan['nodes'])))
        order2 = r.shuffle(range(len(plan['nodes'])))
        summary = dict(plan=G.plan_summary(plan), inst_order=order1, ring=ring)
        if tag != 'flat':
            summary['instance_names'] = [nd.get('inst', nd['name']) for nd in plan['nodes']]
        built = []
        for order in (order1, order2):
            try:
                sysobj, ins, W, leaves = G.build(plan, inst_order=order)
            except Exception as e:
                res.hist('build_errors', str(e)[:50])
                built = None
                break
            built.append((sysobj, ins, W, order))
        if not built:
            return
        traces = []
        for sysobj, ins, W, order in built:
            props, pid, succs = graph_of(sysobj)
            tsuccs = true_graph(sysobj, props)
            cyc = comb_cycle_lengths(tsuccs)          # the property's notion of 'cyclic': over the port-derived graph
            depth = longest_path(tsuccs) if cyc is None else None
            exc = None
            try:
                sim = sysobj.getSimulator()
            except Exception as e:
                exc = str(e)
            reqs.append(f"sort | {lim} | {','.join(map(str, range(len(props))))} | " + ';'.join(','.join(map(str, s)) for s in succs))
            expect.append('E' if exc else ','.join(str(pid[id(o)]) for o in sim.propagatables))
            info.append(dict(summary, inst_order=order))
            res.count(('sort', str(succs)), hist={'netlist_leaves': len(props) // 10 * 10, 'cycle_len': cyc if cyc else 0})
            sm = dict(summary, inst_order=order, cycle_length=cyc, depth=depth, n_leaves=len(props))
            discovered = discovery_check(res, sysobj, props, succs, tsuccs, sm)
            # --- oracle on the implementation
            if cyc is not None and not exc:
                res.fail(f'netlist with a combinational cycle of length {cyc} was accepted and simulated', sm)
            if cyc is None and exc:
                res.fail(f'acyclic netlist refused: {exc}', sm)
            if exc:
                traces.append(None)
                continue
            # soundness of the schedule against Wire.source/Wire.sinks
            pos = {id(o): k for k, o in enumerate(sim.propagatables)}
            if sorted(pos.values()) != list(range(len(props))) or len(pos) != len(props):
                res.fail('Simulator.propagatables is not a permutation of the propagatable leaves', sm)
            if cyc is not None:
                traces.append(None)       # accepted cycle: already reported, nothing further to compare
                continue
            refixpoint_oracle(res, sysobj, sm, 'after simulator construction')
            ops = [(o[0], o[1].name, o[2]) if o[0] == 'poke' else o for o in G.random_ops(r.fork('ops'), ins, 6)]
            names = {w.name: w for w in D.all_wires(sysobj)}
            if disturb:
                # disturbances: a combinationally driven wire is overwritten from outside between clock calls while the inputs of its
                # driver keep their values; the next clk() must bring the netlist back to its fixpoint
                rd = r.fork('disturb')
                pool = sorted(names)
                ops2 = []
                for o in ops:
                    if o[0] == 'clk' and rd.chance(2, 3):
                        wn = rd.choice(pool)
                        ops2.append(('poke', wn, rd.bits(max(1, names[wn].getWidth()))))
                    ops2.append(o)
                ops = ops2
            tr = []
            real_ops = [('poke', names[o[1]], o[2]) if o[0] == 'poke' else o for o in ops]
            try:
                nb.add(sysobj, real_ops, sim=sim, label=(tag, i),
                       extra_check=after_op(res, sysobj, sm, tr))
            except D.NotDumpable:
                pass
            refixpoint_oracle(res, sysobj, sm, 'after clk()')
            traces.append(tr)
        if traces[0] is not None and traces[1] is not None and traces[0] != traces[1] and ring == 0:
            res.fail('wire values depend on the order in which blocks were instantiated',
                     dict(summary, inst_order_a=order1, inst_order_b=order2))
        if i < 2:
            res.sample(summary)

    for i in range(n_designs):
        r = rng.fork(('d', i))
        size = r.choice([2, 3, 5, 8, 13, 30]) if tier == 'quick' else r.choice([2, 3, 5, 8, 13, 30, 30, 80, 120])
        # every fifth design spreads its leaves over several clock domains (gated drivers on containers): combinational paths
        # cross the domains and must be ordered like any other path
        plan = G.random_plan(r, size, seq_ratio=(1, 6), wmax=r.choice([1, 3, 8]),
                             kinds=COMB_KINDS + ['Reg', 'Sequence'], n_domains=(r.fork('nd').randint(1, 3) if i % 5 >= 3 else 0))
        ring = 0
        if i % 3 == 2:
            G.register_inputs(plan)
        if r.chance(1, 4):
            ring = r.choice([1, 1, 2, 2, 3, 5])
            add_ring(plan, r, ring)
        run_design(i, r, plan, ring, i % 4 == 3)
    # hierarchical designs: several instances of one structural block (same instance names inside, shared inputs), cells at the
    # top level that reuse those names, rings that pass through one of two same-named readers of a wire
    for i in range(100 if tier == 'quick' else 400):
        r = rng.fork(('h', i))
        plan = hier_plan(r, r.choice([2, 3, 5, 8, 13]) if tier == 'quick' else r.choice([2, 3, 5, 8, 13, 30]))
        ring = 0
        if i % 3 == 2:
            G.register_inputs(plan)
        if r.chance(1, 4):
            ring = r.choice([1, 2, 2, 3, 5])
            add_ring(plan, r, ring, twins=True)
        run_design(i, r, plan, ring, i % 4 == 3, tag='hier')
        res.hist('hier_designs', 'ring' if ring else 'dag')
    try:
        nb.run()
    except ToolFailure as e:
        res.broken.append(('correspondence', 'net-sim', str(e)[:300]))
    late_additions(res, rng.fork('late'), 60 if tier == 'quick' else 1200)
    try:
        c04_hist.history_stream(res, rng.fork('history'), 60 if tier == 'quick' else 300, hier_plan, refixpoint_oracle)
    except ToolFailure as e:
        res.broken.append(('correspondence', 'history', str(e)[:300]))
    bidir_stream(res, rng.fork('bidir'), 40 if tier == 'quick' else 800)
    prepare_stimulus_stream(res, rng.fork('prepstim'), 40 if tier == 'quick' else 800)
    try:
        exhaustive_digraphs(res, rng.fork('digraphs'), tier, lim)
    except ToolFailure as e:
        res.broken.append(('correspondence', 'sorter-exhaustive', str(e)[:300]))
    # sorter model vs implementation: exact order / exception
    try:
        outs = run_driver('Drv/C04.lean', reqs)
        for rq, a, e, inf in zip(reqs, outs, expect, info):
            got = a.split('|')[0].strip()
            if got != e:
                res.disagree('sorter', dict(request=rq[:300], lean=got[:200], python=e[:200], design=inf))
            elif '|' in a:
                maxpasses = max(maxpasses, int(a.split('|')[1]))
                res.hist('passes_used', a.split('|')[1].strip())
    except ToolFailure as e:
        res.broken.append(('correspondence', 'sorter', str(e)[:300]))
    # exhaustive small: every DAG/digraph on <= k nodes (single-output leaves) x every instantiation order, model only vs
    # a direct run of the real sorter on stub leaves is covered by the sampled stream; here the witnesses of the findings:
    # (1) self loop
    s = py4hw.HWSystem()
    a, rr = s.wire('a', 1), s.wire('r', 1)
    py4hw.Or2(s, 'or', a, rr, rr)
    try:
        s.getSimulator()
        res.fail('netlist with a combinational cycle of length 1 was accepted and simulated',
                 dict(cycle_length=1, witness='Or2(a, r, r)', n_leaves=1))
    except Exception:
        pass
    # (2) deep acyclic chain created sink-first (needs as many passes as leaves; limit + 100 leaves)
    if True:
        n = (limit if limit is not None else 1000) + 100
        s = py4hw.HWSystem()
        ws = [s.wire(f'w{i}', 1) for i in range(n + 1)]
        for i in reversed(range(n)):
            py4hw.Buf(s, f'b{i}', ws[i], ws[i + 1])
        try:
            s.getSimulator()
        except Exception as e:
            res.fail(f'acyclic netlist refused: {e}', dict(cycle_length=None, depth=n, n_leaves=n,
                                                          witness=f'{n} Buf leaves in a chain, instantiated sink-first'))
    res.cov['max_passes_used_by_model'] = maxpasses
    res.cov['rule'] = ('seeded random netlists (DAGs of primitive leaves with fan-out, multi-output BitsLSBF/MSBF, a few registers) with an '
                       'optional combinational ring of length 1-5 appended, each built in two random instantiation orders; real '
                       'Simulator.propagatables (exact order) or exception vs the Lean model of topologicalSort; oracle on the implementation: '
                       're-running propagate() of every stateless leaf changes no wire (fixpoint) after construction and after clk, the two '
                       'instantiation orders give identical values, cyclic netlists raise, acyclic ones do not; all wires vs the Lean simulator model; '
                       'hierarchical plans (replicated blocks with identical inner instance names sharing inputs, rings through one of two '
                       'same-named readers); cyclic/acyclic decided on the PORT-derived graph, which is also compared with the sinks the scheduler '
                       'collects; histories (construction, pokes on any wire, clk(n>=0), late additions + getSimulator()) vs the Lean session model '
                       'that sorts by itself, with the decidable hypotheses of C04.history_settled (HNet.wfB) and the Lean predicate Sess.Settled '
                       'evaluated on the observed wire values after construction and after every clk')
    res.assumptions += ['Part B treats leaves as stateless functions with fixed read/write sets (Latch, AsynchronousMemory, Div/Mod by zero excluded); '
                        'C04.history_settled makes the boundary explicit: propagatables with state may be anywhere in the netlist, the claim is about the '
                        'wires driven by the kinds in Net.statelessKinds (C04.dyn_stateless proves those ignore their attributes, on the generated code)',
                        'convergence of the swap sorter within n passes on acyclic netlists is a conjecture (only explored, see passes_used); '
                        'completeness is therefore claimed only as far as explored — the hard-coded pass limit makes it false in general (known finding)']


if __name__ == '__main__':
    main_wrapper('C04', main)
