"""C03 — GENERATED behavioural classes for the Python->Verilog transpiler (stream `behavgen` of harness/c03.py).

The transpiler reads the source of live objects with `inspect.getsource`, so every generated class is compiled under its own
pseudo file name whose lines are registered in `linecache` (and as a module in sys.modules, which is what inspect needs
for classes).  The SOURCE TEXT is part of the design description, i.e. a failing input found here is replayable as a file.

A spec fixes, independently:
   method        clock | propagate
   ports         (attribute name, port name, direction) — attribute names equal to the port names, different from them,
                 or PERMUTED among the ports (self.b = addIn('a'), self.a = addIn('b'))
   state         names of integer state variables (clock only)
   locals        names of the method-local variables of the body; the interesting choices are names that are ALSO something
                 else in the module's name space: a port name, the reserved_-escaped form of a port name, an attribute name,
                 a state variable, the clock, or a Verilog keyword
The property's oracle is the ordinary one (parse + WF.checkE); a TranspilationException is a refusal (no text returned)."""
import linecache, sys, types

_N = [0]


def source_of(spec):
    cls = spec['cls']
    L = ['import py4hw', '', '',
         'class %s(py4hw.Logic):' % cls,
         '    def __init__(self, parent, name, %s):' % ', '.join('w%d' % i for i in range(len(spec['ports']))),
         '        super().__init__(parent, name)']
    for i, (attr, pname, d) in enumerate(spec['ports']):
        L.append("        self.%s = self.%s(%r, w%d)" % (attr, 'addIn' if d == 'in' else 'addOut', pname, i))
    for s in spec.get('state', []):
        L.append('        self.%s = 0' % s)
    ins = [a for a, _, d in spec['ports'] if d == 'in']
    outs = [a for a, _, d in spec['ports'] if d == 'out']
    loc = list(spec.get('locals', []))
    clocked = spec['method'] == 'clock'
    put = 'prepare' if clocked else 'put'
    L += ['', '    def %s(self):' % spec['method']]
    B = []
    shape = spec.get('shape', 0)
    # docstrings of the transpiled method become comments of the emitted text: none / one line / several lines (seeded/C03q)
    doc = spec.get('doc', (shape + len(spec['ports']) + len(spec.get('locals', []))) % 3)
    if doc == 1:
        L.append('        """one step of the block"""')
    elif doc == 2:
        L += ['        """one step of the block:', '        the inputs are sampled first, then the state is updated', '        and the outputs follow.', '        """']
    e0 = 'self.%s.get()' % ins[0]
    e1 = 'self.%s.get()' % ins[-1]
    st = spec.get('state', [])
    if len(loc) >= 1:
        B.append('%s = %s' % (loc[0], e0 if shape % 2 == 0 else '%s & %s' % (e0, e1)))
        v0 = loc[0]
    else:
        v0 = e0
    if len(loc) >= 2:
        B.append('%s = (%s >> 1) | %s' % (loc[1], e1, v0))
        if shape >= 2:
            B.append('%s = %s ^ %s' % (loc[1], loc[1], e0))
        v1 = loc[1]
    else:
        v1 = e1
    if clocked and st:
        B.append('if (%s == 1):' % v0)
        B.append('    self.%s = 0' % st[0])
        B.append('else:')
        B.append('    self.%s = self.%s + %s' % (st[0], st[0], v1))
        res = 'self.%s' % st[0]
    else:
        res = '%s + 1' % v1 if shape % 2 == 0 else '%s ^ %s' % (v0, v1)
    if shape >= 2 and not (clocked and st):
        B.append('if (%s == 0):' % v0)
        B.append('    self.%s.%s(%s)' % (outs[0], put, v1))
        B.append('else:')
        B.append('    self.%s.%s(%s)' % (outs[0], put, res))
    else:
        B.append('self.%s.%s(%s)' % (outs[0], put, res))
    for o in outs[1:]:
        B.append('self.%s.%s(%s)' % (o, put, v0))
    L += ['        ' + b for b in B]
    return '\n'.join(L) + '\n'


def make_class(spec):
    """compile the class under a pseudo file registered in linecache / sys.modules; returns (class, source)"""
    src = source_of(spec)
    _N[0] += 1
    modname = 'c03_behavgen_live_%d' % _N[0]
    fname = '/c03-generated/%s.py' % modname
    linecache.cache[fname] = (len(src), None, src.splitlines(True), fname)
    mod = types.ModuleType(modname)
    mod.__file__ = fname
    sys.modules[modname] = mod
    exec(compile(src, fname, 'exec'), mod.__dict__)
    cls = mod.__dict__[spec['cls']]
    cls._c03_source = src
    return cls, src


def build(spec, w=8):
    import py4hw
    cls, src = make_class(spec)
    hw = py4hw.HWSystem()
    wires = [hw.wire('n%d' % i, 1 if spec.get('narrow') == i else w) for i in range(len(spec['ports']))]
    dut = cls(hw, 'dut', *wires)
    return hw, dut, src


PORT_SETS = [
    [('start', 'in'), ('din', 'in'), ('total', 'out')],
    [('a', 'in'), ('b', 'in'), ('r', 'out')],
    [('a', 'in'), ('wire', 'in'), ('q', 'out')],            # a reserved word: the header declares reserved_wire
    [('x', 'in'), ('y', 'in'), ('s', 'out'), ('c', 'out')],
]


def specs(rng, quick):
    """the grid: attribute naming × local-variable names drawn from the module's other names × method × shape"""
    out = []
    k = 0
    for pi, pset in enumerate(PORT_SETS):
        names = [p for p, _ in pset]
        namings = {
            'same': names,
            'short': ['p%d' % i for i in range(len(names))],
            'rot': names[1:] + names[:1],                    # attribute names are the port names of OTHER ports
            'mixed': [names[0]] + ['m%d' % i for i in range(1, len(names))],
        }
        for nk, attrs in namings.items():
            ports = [(attrs[i], names[i], pset[i][1]) for i in range(len(names))]
            for method in ('clock', 'propagate'):
                state = ['acc'] if method == 'clock' else []
                esc = ['reserved_' + n for n in names]
                cands = [[], ['t'], ['t', 'u']]
                cands += [[n] for n in names]                          # a local named like a PORT
                cands += [[e] for e in esc[1:2]]                       # … like the escaped form of a port name
                cands += [[a] for a in attrs if a not in names]        # … like an ATTRIBUTE
                cands += [['t', names[-1]], [names[0], names[1]]]
                cands += [[s] for s in state] + [['clk'], ['t', 'reg']]
                for loc in cands:
                    for shape in ((0, 3) if not quick else (k % 4,)):
                        k += 1
                        if quick and nk in ('rot', 'mixed') and (k % 3) and not (set(loc) & set(names)):
                            continue
                        out.append(dict(cls='Gen%d' % k, method=method, ports=ports, state=state, locals=loc, shape=shape,
                                        naming=nk, pset=pi))
    return out
