"""Python side of the Verilog interpreter (lean/Drv/V.lean): generate text with the real VerilogGenerator, parse it with
vparse, run input histories on both the py4hw simulator and the Lean Verilog semantics."""
import io, contextlib
from common import *
import vparse


def gen_text(gen_obj, dut, **kw):
    """real emitter; its progress prints are swallowed"""
    with contextlib.redirect_stdout(io.StringIO()):
        return gen_obj.getVerilogForHierarchy(dut, **kw)


class VBatch:
    """accumulates (text, top, clk, history) jobs and runs them in one driver session.
    history: list of dict input_name -> value per cycle; observed: list of output names"""

    def __init__(self):
        self.lines, self.jobs = [], []

    def add(self, text, top, clk, inputs_per_cycle, outputs, label=None, tree=None):
        tree = tree if tree is not None else vparse.parse(text)
        start = len(self.lines)
        self.lines.append('design ' + vparse.sexp(tree))
        self.lines.append(f'begin {top} {clk}')
        # py4hw wires power up at 0: the test bench drives every input with 0 before the first observation
        names = set()
        for cyc in inputs_per_cycle:
            names |= set(cyc)
        for n in sorted(names):
            self.lines.append(f'set {n} 0')
        self.lines.append('settle')
        self.lines.append('gets ' + ','.join(outputs))
        for cyc in inputs_per_cycle:
            for n, v in cyc.items():
                self.lines.append(f'set {n} {v}')
            self.lines.append('step 1')
            self.lines.append('gets ' + ','.join(outputs))
        self.lines.append('errors')
        self.jobs.append(dict(start=start, end=len(self.lines), label=label, outputs=outputs))

    def run(self):
        """-> list of dict(label, begin, errors, trace=[{out: int|'x'}])"""
        if not self.jobs:
            return []
        out = run_driver('Drv/V.lean', self.lines)
        res = []
        for jb in self.jobs:
            ls, os_ = self.lines[jb['start']:jb['end']], out[jb['start']:jb['end']]
            trace = []
            for l, o in zip(ls, os_):
                if l.startswith('gets '):
                    vals = o.split(',')
                    trace.append({n: (v if v == 'x' else int(v)) for n, v in zip(jb['outputs'], vals)})
            res.append(dict(label=jb['label'], parse=os_[0], begin=os_[1], errors=os_[-1], trace=trace))
        self.lines, self.jobs = [], []
        return res
