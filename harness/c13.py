"""C13 — Single-precision floating-point blocks meet IEEE-754 within stated error bounds.
See DESIGN.md §5 C13, lean/Py4hwV/Props/C13.lean, lean/Py4hwV/Lib/{Fp,FpSpec}.lean, notes/C13.md.

Streams
  T1       generated leaf definitions (Gen.*) vs the real propagate() methods, for every leaf class the FP blocks flatten to
  blocks   the hand-written block models (Lib.Fp.* through Drv/C13.lean: compositions of the C07/C08 constructor models) vs
           the REAL blocks built with the real constructors, run by the real simulator (put → propagateAll → get)
  net      the flattened netlists of the real blocks executed by the Lean simulator model with the generated leaves
  char     (inside `oracle`) outside the property's domain the Lean oracle evaluates the characterisation theorems C13.charCheck_*
           on the observed outputs; inside it also the tightened bounds mulTight/addTight: failures = disagreements, not violations
  oracle   the SPECIFICATION (FpSpec.oracle: the property's inequalities in exact integer arithmetic, unit 2^-149, evaluated
           in Lean through the driver on the output bits OBSERVED on the real implementation; the fallback driver
           Drv/C13Spec.lean imports no generated code and no model, so it runs even when a bridge or a model is broken)
           + commutativity of the real adder / multiplier (both operand orders evaluated on the real block)
           = the failing-input search
"""
import io, contextlib, json, os
from concurrent.futures import ThreadPoolExecutor
from common import *
import t1, dump_ir as D

OBLIGATIONS = [
    # bridges: generated propagate() bodies -> reference leaves, for every leaf the FP blocks are made of
    'Leaf.gen_and2', 'Leaf.gen_or2', 'Leaf.gen_not', 'Leaf.gen_buf', 'Leaf.gen_bit', 'Leaf.gen_mux2', 'Leaf.gen_const',
    'Leaf.gen_range', 'Leaf.gen_repeat', 'Leaf.gen_sub', 'Leaf.gen_addc', 'Leaf.gen_mul', 'Leaf.gen_zext', 'Leaf.gen_shlC',
    'Leaf.gen_shrC', 'Leaf.gen_concatLSBF', 'C08.gen_bitsLSBF', 'C08.gen_concatMSBF',
    # library theorems the FP proofs rest on
    'C08.comparator_spec', 'C08.comparatorSU_spec', 'C08.equal_spec', 'C08.notEqualConstant_spec', 'C08.concatMSBF_spec',
    'C08.select_spec', 'C07.add_spec', 'C07.abs_spec', 'C07.abs_inverted_spec', 'C07.neg_spec', 'C07.shiftLeft_spec',
    'C07.shiftRight_logical_spec', 'C07.countLeadingZeros_spec', 'C07.countLeadingZeros_z_spec',
    # property theorems (lean/Py4hwV/Props/C13.lean) — filled in by PROPS below
]
PROPS = []          # the property theorems: assigned at the bottom of this file

T1_CLASSES = ['And2', 'Or2', 'Not', 'Buf', 'Bit', 'BitsLSBF', 'Constant', 'Mux2', 'Repeat', 'Range', 'ShiftLeftConstant',
              'ShiftRightConstant', 'ConcatenateMSBF', 'ConcatenateLSBF', 'AddCarryIn', 'Sub', 'Mul', 'ZeroExtend']

MASK32 = (1 << 32) - 1


def enc(s, e, m):
    return ((s & 1) << 31) | ((e & 255) << 23) | (m & 0x7FFFFF)


def fields(x):
    return (x >> 31) & 1, (x >> 23) & 255, x & 0x7FFFFF


def is_normal(x):
    return 1 <= ((x >> 23) & 255) <= 254


# ------------------------------------------------------------------------------------------------------------------
# the real blocks
class Real:
    """real block instances, one HWSystem each, built on demand with the real constructors"""

    def __init__(self):
        self.inst = {}

    def get(self, blk, p):
        key = (blk, tuple(p))
        if key in self.inst:
            return self.inst[key]
        import py4hw
        import py4hw.logic.arithmetic_fp as FP
        import py4hw.logic.relational as REL
        with contextlib.redirect_stdout(io.StringIO()):
            hw = py4hw.HWSystem()
            if blk in ('cmp', 'cmpabs'):
                ins = [hw.wire('a', 32), hw.wire('b', 32)]
                outs = [hw.wire('gt'), hw.wire('eq'), hw.wire('lt')]
                REL.FPComparator_SP(hw, 'dut', ins[0], ins[1], outs[0], outs[1], outs[2], absolute=(blk == 'cmpabs'))
            elif blk == 'add':
                ins = [hw.wire('a', 32), hw.wire('b', 32)]
                outs = [hw.wire('r', 32)]
                FP.FPAdder_SP(hw, 'dut', ins[0], ins[1], outs[0])
            elif blk == 'mul':
                ins = [hw.wire('a', 32), hw.wire('b', 32)]
                outs = [hw.wire('r', 32)]
                FP.FPMult_SP(hw, 'dut', ins[0], ins[1], outs[0])
            elif blk == 'f2i':
                ins = [hw.wire('a', 32)]
                outs = [hw.wire('r', 32), hw.wire('p_lost'), hw.wire('denorm'), hw.wire('invalid')]
                FP.FPtoInt_SP(hw, 'dut', ins[0], outs[0], outs[1], outs[2], outs[3])
            elif blk == 'i2f':
                ins = [hw.wire('a', 32)]
                outs = [hw.wire('r', 32), hw.wire('p_lost')]
                FP.InttoFP_SP(hw, 'dut', ins[0], outs[0], outs[1])
            elif blk == 'fx2f':
                aw, f1 = p
                ins = [hw.wire('a', aw)]
                outs = [hw.wire('r', 32), hw.wire('p_lost')]
                FP.FixedPointtoFP_SP(hw, 'dut', ins[0], (1, f1, aw - 1 - f1), outs[0], outs[1])
            elif blk == 'parts':
                ins = [hw.wire('a', 32)]
                outs = [hw.wire('s'), hw.wire('e', 8), hw.wire('m', 24), hw.wire('isDenorm'), hw.wire('isZero')]
                FP._FP_parts(hw, 'dut', ins[0], outs[0], outs[1], outs[2], outs[3], outs[4])
            elif blk == 'raw':
                ins = [hw.wire('a', 32)]
                outs = [hw.wire('s'), hw.wire('e', 8), hw.wire('m', 23)]
                FP._FP_parts_raw(hw, 'dut', ins[0], outs[0], outs[1], outs[2])
            else:
                raise KeyError(blk)
            sim = hw.getSimulator()
        self.inst[key] = (hw, ins, outs, sim)
        return self.inst[key]

    def run(self, blk, p, x):
        hw, ins, outs, sim = self.get(blk, p)
        for w, v in zip(ins, x):
            w.put(v)
        sim.propagateAll()
        return [o.get() for o in outs]


# ------------------------------------------------------------------------------------------------------------------
# findings of this property.  Both are REPAIRED in /repo; status "fixed" suppresses nothing: a failure inside the class of a
# fixed finding is a regression and always a VIOLATION, also while /verif/known_findings.json still lists the entry as
# "known" (the integrator merges these proposals; corpus/C13/proposed_findings.json holds the same entries).
# `cls` in the replay is computed IN LEAN by FpSpec.oracle (gapClass / f2iOddClass).
PROPOSED_FINDINGS = [
    {"id": "C13-fpadd-exponent-gap-ge-32", "property": "C13", "status": "fixed", "fixed_by": "f8136d7",
     "anchor": "py4hw/logic/arithmetic_fp.py:141",
     "class_expr": "r.get('block') == 'add' and r.get('cls') == 'fpadd-exponent-gap-ge-32'",
     "witness": {"block": "add", "params": [], "inputs": [1333788672, 1069547520], "r_before_fix": 1344274432, "r": 1333788672},
     "what": "fixed: property=C13 f8136d7 FPAdder_SP: ediff was a 5-bit wire, so the alignment shift of the smaller operand wrapped "
             "when the exponent gap was >= 32 (2**32 + 1.5 gave 1.0737e10, expected 4294967296.0)"},
    {"id": "C13-fptoint-plost-odd-integer", "property": "C13", "status": "fixed", "fixed_by": "87c4dcb",
     "anchor": "py4hw/logic/arithmetic_fp.py:273",
     "class_expr": "r.get('block') == 'f2i' and r.get('cls') == 'f2i-plost-odd-integer'",
     "witness": {"block": "f2i", "params": [], "inputs": [1065353216], "out_before_fix": [1, 1, 0, 0], "out": [1, 0, 0, 0]},
     "what": "fixed: property=C13 87c4dcb FPtoInt_SP: p_lost tested hw_range(shifted, 32, 0), which included bit 32 = the least "
             "significant INTEGER bit, so every odd integral value (1.0, 3.0, -1.0, ...) raised precision-lost although "
             "truncation discarded nothing"},
]


def report_fail(res, what, replay):
    """res.fail with PROPOSED_FINDINGS consulted first (they are authoritative for the ids they contain)"""
    import common
    mine = {k['id'] for k in PROPOSED_FINDINGS}
    for k in PROPOSED_FINDINGS:
        if k['status'] == 'fixed' and common._matches(k, what, replay):
            res.failures.append({'what': what + f"  [regression of {k['id']}, fixed by /repo commit {k['fixed_by']}]", 'replay': replay})
            return
    for k in PROPOSED_FINDINGS:
        if k['status'] == 'known' and common._matches(k, what, replay):
            res.known_hits.append((k, what))
            return
    # entries of the global file with one of OUR ids are superseded by PROPOSED_FINDINGS
    for k in common.load_known():
        if k.get('property') == res.prop and k.get('status') == 'known' and k.get('id') not in mine and common._matches(k, what, replay):
            res.known_hits.append((k, what))
            return
    res.failures.append({'what': what, 'replay': replay})


def describe(blk, x):
    """human-readable operands for the replay"""
    import struct
    if blk in ('i2f', 'fx2f'):
        return [hex(v) for v in x]
    return [f'{hex(v)}={struct.unpack("<f", struct.pack("<I", v & MASK32))[0]!r}' for v in x]


# ------------------------------------------------------------------------------------------------------------------
class Batch:
    """collects (block, params, inputs, observed outputs of the REAL block); evaluates model + oracle through the driver"""
    CHUNK = 4000

    def __init__(self, res, real, workers):
        self.res, self.real, self.workers = res, real, workers
        self.items = []
        self.driver = 'Drv/C13.lean'
        self.model_available = True
        self.seen = set()
        self.n_fail = {}

    def add(self, blk, p, x, tag=''):
        key = (blk, tuple(p), tuple(x))
        if key in self.seen:
            return
        self.seen.add(key)
        try:
            obs = self.real.run(blk, p, x)
        except Exception as e:
            obs = f'{type(e).__name__}: {str(e)[:80]}'
        self.items.append((blk, tuple(p), tuple(x), obs, tag))
        if blk in ('add', 'mul') and x[0] != x[1]:
            # commutativity needs both orders observed on the real block
            key2 = (blk, tuple(p), (x[1], x[0]))
            if key2 not in self.seen:
                self.seen.add(key2)
                try:
                    obs2 = self.real.run(blk, p, (x[1], x[0]))
                except Exception as e:
                    obs2 = f'{type(e).__name__}: {str(e)[:80]}'
                self.items.append((blk, tuple(p), (x[1], x[0]), obs2, tag + '/swapped'))

    def _drive(self, lines):
        chunks = [lines[i:i + self.CHUNK] for i in range(0, len(lines), self.CHUNK)]
        ensure_driver_built(self.driver)
        with ThreadPoolExecutor(max_workers=self.workers) as ex:
            outs = list(ex.map(lambda c: run_driver(self.driver, c), chunks))
        return [o for c in outs for o in c]

    def flush(self):
        if not self.items:
            return
        items, self.items = self.items, []
        res = self.res
        lines = []
        for b, p, x, obs, _ in items:
            o = ','.join(map(str, obs)) if not isinstance(obs, str) else ''
            lines.append(f"{b} | {','.join(map(str, p))} | {','.join(map(str, x))} | {o}")
        try:
            try:
                outs = self._drive(lines)
            except ToolFailure:
                # another check may be rebuilding a shared module right now (its .olean is missing for a moment):
                # rebuild the driver's imports under the lake lock and try once more before giving up on the model
                import common, time
                common._DRIVER_BUILT.discard(self.driver)
                time.sleep(5)
                outs = self._drive(lines)
        except ToolFailure as e:
            if self.driver == 'Drv/C13.lean':
                res.broken.append(('correspondence', 'blocks', f'model driver unavailable ({str(e)[:200]}); oracle runs on the '
                                                               f'specification-only driver Drv/C13Spec.lean'))
                self.driver, self.model_available = 'Drv/C13Spec.lean', False
                outs = self._drive(lines)
            else:
                raise
        observed = {}
        verdicts = {}
        for (blk, p, x, obs, tag), ans in zip(items, outs):
            parts = [s.strip() for s in ans.split('|')]
            if len(parts) != 3:
                raise ToolFailure(f'driver answer {ans!r} for {blk} {x}')
            model, verdict, cls = parts
            replay = dict(block=blk, params=list(p), inputs=list(x), operands=describe(blk, x), observed=obs, cls=cls, tag=tag)
            if isinstance(obs, str):
                res.disagree('blocks', dict(replay, what='the real block raised'))
                report_fail(res, f'{blk}{list(p)} inputs {describe(blk, x)}: real block raised {obs}', replay)
                continue
            # --- correspondence: model vs implementation (every input, also outside the property's domain)
            if model == '!':
                res.disagree('blocks', dict(replay, what='model says the constructor raises, the real one built'))
            elif model != '?':
                mv = [int(v) for v in model.split(',') if v != '']
                if mv != obs:
                    res.disagree('blocks', dict(replay, model=mv, what='model output differs from implementation'))
            observed[(blk, p, x)] = obs
            verdicts[(blk, p, x)] = (verdict, cls)
            # --- oracle: the specification evaluated on the observed outputs
            res.count((blk, p, x), nontrivial=(not verdict.startswith('out')),
                      hist={'block': blk, 'verdict': f'{blk}:{verdict.split(":")[0]}'})
            self.branch_hist(blk, x, verdict)
            if verdict.startswith('out'):
                # outside the property's domain: no claim; where a characterisation theorem exists (C13.charCheck_*) it is
                # evaluated by the Lean oracle on the OBSERVED outputs -- a failure is a model-vs-implementation disagreement
                if verdict != 'out':
                    res.hist('characterisation', f'{blk}:{verdict[4:]}')
                    if verdict == 'out:char-FAIL':
                        res.disagree('characterisation', dict(replay, what='the real block does not do what the '
                                     'characterisation theorem (C13.charCheck_*) states outside the domain'))
                verdicts[(blk, p, x)] = ('out', cls)
                continue
            if verdict == 'ok-not-tight':
                # inside the property's bound but outside the tightened one proved for the model (C13.fpmul_tight / fpadd_tight)
                res.hist('tight_bounds', f'{blk}:NOT-TIGHT')
                res.disagree('tight-bounds', dict(replay, what='property bound holds, tightened bound (mulTight/addTight) does not'))
                verdict = 'ok'
                verdicts[(blk, p, x)] = ('ok', cls)
            elif verdict == 'ok' and blk in ('add', 'mul'):
                res.hist('tight_bounds', f'{blk}:tight')
            if verdict.startswith('FAIL'):
                res.hist('classes', f'{blk}:{cls or "IN-DOMAIN-FAILURE"}')
                self.n_fail[(blk, cls)] = self.n_fail.get((blk, cls), 0) + 1
                if self.n_fail[(blk, cls)] <= 40:
                    report_fail(res, f'{blk}{list(p)} inputs {describe(blk, x)} observed {obs}: {verdict[5:]}', replay)
            elif verdict != 'ok':
                raise ToolFailure(f'driver verdict {verdict!r}')
            elif cls:
                res.hist('classes', f'{blk}:{cls}(property holds here)')
        # --- commutativity on the REAL block (inside the property's domain: both normal, exact result normal)
        for (blk, p, x), obs in observed.items():
            if blk not in ('add', 'mul') or x[0] >= x[1]:
                continue
            other = observed.get((blk, p, (x[1], x[0])))
            v = verdicts[(blk, p, x)]
            if other is None or v[0] == 'out':
                continue
            res.hist('commutativity_checked', blk)
            if other != obs:
                replay = dict(block=blk, params=list(p), inputs=list(x), operands=describe(blk, x), observed=obs,
                              observed_swapped=other, cls=v[1], tag='commutativity')
                report_fail(res, f'{blk} is not commutative on {describe(blk, x)}: {obs} vs {other}', replay)

    def branch_hist(self, blk, x, verdict):
        res = self.res
        if blk == 'add':
            (sa, ea, ma), (sb, eb, mb) = fields(x[0]), fields(x[1])
            gap = abs(ea - eb)
            res.hist('add_gap', gap if gap < 26 else ('26-31' if gap < 32 else ('32-63' if gap < 64 else '64+')))
            res.hist('add_branches', ('swap' if (ea, ma) < (eb, mb) else 'noswap') + ('/sub' if sa != sb else '/add'))
        elif blk == 'mul' and verdict != 'out':
            (sa, ea, ma), (sb, eb, mb) = fields(x[0]), fields(x[1])
            res.hist('mul_branches', 'prod>=2' if ((1 << 23 | ma) * (1 << 23 | mb)) >> 47 else 'prod<2')
        elif blk == 'f2i':
            s, e, m = fields(x[0])
            res.hist('f2i_exponent', 'e<127' if e < 127 else ('127..150' if e <= 150 else ('151..157' if e <= 157 else '>=158')))
        elif blk == 'i2f':
            v = x[0] if x[0] < (1 << 31) else (1 << 32) - x[0]
            res.hist('i2f_bitlen', v.bit_length())


# ------------------------------------------------------------------------------------------------------------------
# stimulus
MANTS = [0, 1, 2, 3, 0x3FFFFF, 0x400000, 0x400001, 0x555555, 0x2AAAAA, 0x7FFFFE, 0x7FFFFF, 0x3504F3, 0x3504F4, 0x0000FF, 0x7FFF00]
EXPS_B = [1, 2, 3, 22, 23, 24, 25, 31, 32, 33, 34, 64, 100, 125, 126, 127, 128, 129, 150, 151, 157, 158, 159, 200, 222, 223, 230,
          252, 253, 254]


def rmant(r):
    k = r.next() % 4
    if k == 0:
        return r.choice(MANTS)
    if k == 1:
        return r.bits(23)
    return r.randint(0, 0x7FFFFF)


def gen_add(tier, rng):
    q = tier == 'quick'
    # (1) every exponent gap 0..60, both orders, several base exponents, boundary mantissas, all sign combinations
    r = rng.fork('gaps')
    for gap in range(0, 61):
        for base in ([254, 160, 70] if q else [254, 253, 200, 160, 128, 100, 70, 62]):
            if base - gap < 1:
                continue
            for _ in range(4 if q else 40):
                ma, mb = rmant(r), rmant(r)
                for sa, sb in ((0, 0), (0, 1), (1, 0), (1, 1)):
                    yield enc(sa, base, ma), enc(sb, base - gap, mb), f'gap{gap}'
    # (2) close magnitudes of opposite sign (massive cancellation)
    r = rng.fork('close')
    for _ in range(400 if q else 20000):
        e = r.choice(EXPS_B + [r.randint(1, 254)])
        m = rmant(r)
        d = r.choice([0, 1, 1, 2, 3, 1 << r.randint(0, 22), r.randint(0, 255)])
        de = r.choice([0, 0, 0, 1, 1, 2])
        m2 = (m + d) & 0x7FFFFF if de == 0 else r.choice([0, 1, 2, 0x7FFFFF, 0x7FFFFE, (m ^ 0x7FFFFF), r.randint(0, 0x7FFFFF)])
        e2 = min(254, e + de)
        s = r.next() & 1
        yield enc(s, e, m), enc(1 - s, e2, m2), 'close'
    # (3) exponent pairs with boundary mantissas: all 254x254 in the thorough tier
    r = rng.fork('epairs')
    es = EXPS_B if q else range(1, 255)
    for ea in es:
        for eb in es:
            for _ in range(1 if q else 2):
                s = r.next() & 3
                yield enc(s & 1, ea, r.choice(MANTS)), enc(s >> 1, eb, r.choice(MANTS)), 'epairs'
    # (4) random, gaps biased to the interesting range
    r = rng.fork('random')
    for _ in range(3000 if q else 150000):
        ea = r.randint(1, 254)
        eb = max(1, min(254, ea + r.randint(-34, 34))) if r.chance(4, 5) else r.randint(1, 254)
        yield enc(r.next() & 1, ea, rmant(r)), enc(r.next() & 1, eb, rmant(r)), 'random'
    # (5) operands outside the domain (zero, subnormal, inf, nan): correspondence only
    r = rng.fork('special')
    sp = [0, 1 << 31, 1, 0x7FFFFF, 0x7F800000, 0xFF800000, 0x7FC00000, 0x7F800001, enc(0, 0, 0x400000)]
    for a in sp:
        for b in sp + [enc(0, 127, 0), enc(1, 1, 5), enc(0, 254, 0x7FFFFF)]:
            yield a, b, 'special'
    for _ in range(100 if q else 3000):
        yield r.choice(sp), r.randint(0, MASK32), 'special'
    # characterisation C13.fpadd_zero_operand / fpadd_exact_cancellation / fpadd_datapath_all: x + (+-0) and x + (-x) for EVERY
    # exponent field (also 0 and 255), subnormal operands against every gap
    for e in range(0, 256):
        for m in ((0, r.bits(23)) if q else (0, 1, 0x400000, 0x7FFFFF, r.bits(23), r.bits(23))):
            x = enc(r.next() & 1, e, m)
            yield x, x ^ (1 << 31), 'cancel'
            yield x, r.choice([0, 1 << 31]), 'zero-operand'
            yield r.choice([0, 1 << 31]), x, 'zero-operand'
            yield x, enc(r.next() & 1, 0, rmant(r)), 'subnormal-operand'
    for _ in range(200 if q else 10000):
        yield enc(r.next() & 1, 0, rmant(r)), enc(r.next() & 1, r.choice([0, 0, 1, 2, 24, 25, r.randint(0, 255)]), rmant(r)), 'subnormal-operand'


def gen_mul(tier, rng):
    q = tier == 'quick'
    r = rng.fork('mul-boundary')
    # exponent sums around the ends of the normal range and in the middle
    for esum in [126, 127, 128, 129, 130, 253, 254, 255, 256, 379, 380, 381, 382, 383]:
        for _ in range(30 if q else 600):
            ea = r.randint(max(1, esum - 254), min(254, esum - 1))
            eb = esum - ea
            if not (1 <= eb <= 254):
                continue
            yield enc(r.next() & 1, ea, rmant(r)), enc(r.next() & 1, eb, rmant(r)), f'esum{esum}'
    # mantissa products around 2^47 (1-bit normalisation boundary)
    r = rng.fork('mul-norm')
    for _ in range(600 if q else 30000):
        ma = rmant(r) | (1 << 23)
        mb = min((1 << 24) - 1, max(1 << 23, ((1 << 47) + r.randint(-3, 3) * ma + r.randint(-2, 2)) // ma))
        e = r.randint(60, 190)
        yield enc(r.next() & 1, e, ma & 0x7FFFFF), enc(r.next() & 1, 254 - e + r.randint(-3, 3), mb & 0x7FFFFF), 'norm-boundary'
    for ma in MANTS:
        for mb in MANTS:
            yield enc(0, 127, ma), enc(1, 127, mb), 'mant-boundary'
    r = rng.fork('mul-random')
    for _ in range(3000 if q else 150000):
        ea = r.randint(1, 254)
        eb = max(1, min(254, 254 - ea + r.randint(-130, 130)))
        yield enc(r.next() & 1, ea, rmant(r)), enc(r.next() & 1, eb, rmant(r)), 'random'
    # full-entropy significand pairs (every bit of the 24x24 product matters: partial-product / carry defects show on a small
    # fraction of random pairs only) and carry-chain patterns (runs of ones, one-hot, low bytes/halfwords all ones)
    r = rng.fork('mul-entropy')
    for _ in range(1500 if q else 200000):
        e = r.randint(64, 190)
        yield enc(r.next() & 1, e, r.bits(23)), enc(r.next() & 1, 254 - e, r.bits(23)), 'entropy'
    pats = [0x7FFFFF, 0x7FFFFE, 0x7FFF00, 0x7F00FF, 0x00FFFF, 0x0000FF, 0x00FF00, 0x7F0000, 0x555555, 0x2AAAAA, 0x333333, 0x0F0F0F]
    pats += [(1 << k) - 1 for k in range(1, 24)] + [1 << k for k in range(0, 23)] + [0x7FFFFF ^ (1 << k) for k in range(0, 23)]
    pats = sorted(set(pats))
    for i, ma in enumerate(pats):
        for mb in (pats if not q else [pats[(i * 7 + j * 11) % len(pats)] for j in range(5)] + [0x7FFFFF, ma]):
            yield enc(0, 127, ma), enc(0, 127, mb), 'carry-patterns'
    # outside the domain (characterisation C13.fpmul_all / fpmul_zero_operand): zero, subnormal, inf, nan operands; overflow/underflow
    sp = [0, 1 << 31, 1, 0x7FFFFF, 0x80000001, 0x7F800000, 0xFF800000, 0x7FC00000, enc(0, 127, 0), enc(1, 1, 0), enc(0, 254, 0x7FFFFF)]
    for a in sp:
        for b in sp:
            yield a, b, 'special'
    r = rng.fork('mul-special')
    for e in (EXPS_B if q else range(0, 256)):
        for z in (0, 1 << 31):
            yield z, enc(r.next() & 1, e, rmant(r)), 'zero-operand'
            yield enc(r.next() & 1, e, rmant(r)), z, 'zero-operand'
    for _ in range(150 if q else 20000):
        yield r.choice(sp), r.bits(32), 'special'
        ea = r.randint(1, 254)       # exact product outside the normal range: the 8-bit exponent wraps
        yield enc(r.next() & 1, ea, rmant(r)), enc(r.next() & 1, r.choice([r.randint(1, max(1, 126 - ea)) if ea < 126 else 1,
                                                                         min(254, max(1, 382 - ea + r.randint(0, 20)))]), rmant(r)), 'range'


def gen_cmp(tier, rng):
    q = tier == 'quick'
    # exhaustive small grid: all sign x exponent-relation x mantissa-relation combinations
    es = [1, 2, 127, 128, 253, 254]
    ms = [0, 1, 0x400000, 0x7FFFFF]
    pts = [enc(s, e, m) for s in (0, 1) for e in es for m in ms]
    for a in pts:
        for b in pts:
            yield a, b, 'grid'
    r = rng.fork('cmp')
    for _ in range(1500 if q else 100000):
        a = enc(r.next() & 1, r.randint(1, 254), rmant(r))
        k = r.next() % 6
        if k == 0:
            b = a ^ (1 << 31)
        elif k == 1:
            b = a ^ (1 << r.randint(0, 31))
        elif k == 2:
            b = (a & (1 << 31)) | ((a + r.choice([1, -1, 2, 1 << 23, -(1 << 23)])) & 0x7FFFFFFF)
        else:
            b = enc(r.next() & 1, r.randint(1, 254), rmant(r))
        yield a, b, 'random'
    # a vs -a and a vs a for EVERY exponent field (powers of two and boundary fractions): sign-only decisions
    for e in range(1, 255):
        for m in ((0, 0x7FFFFF, r.bits(23)) if q else (0, 1, 0x400000, 0x7FFFFF, r.bits(23))):
            a = enc(0, e, m)
            yield a, a ^ (1 << 31), 'negation'
            yield a ^ (1 << 31), a, 'negation'
            if not q or m == 0:
                yield a, a, 'negation'
                yield a ^ (1 << 31), a ^ (1 << 31), 'negation'
    # neighbours across an exponent boundary, all sign combinations
    for e in (EXPS_B if q else range(1, 254)):
        if e >= 254:
            continue
        a, b = enc(0, e, 0x7FFFFF), enc(0, e + 1, 0)
        for sa in (0, 1):
            for sb in (0, 1):
                yield a | (sa << 31), b | (sb << 31), 'exp-boundary'
                yield b | (sb << 31), a | (sa << 31), 'exp-boundary'
    # outside the domain (characterisation C13.fpcmp_totalOrder / fpcmp_abs_total): zeros, subnormals, inf, nan x everything
    sp = [0, 1 << 31, 1, 2, 0x7FFFFF, 0x80000001, 0x80000002, 0x807FFFFF, 0x00400000, 0x7F800000, 0xFF800000, 0x7FC00000,
          0xFFC00000, 0x7F800001, 0x7FFFFFFF, enc(0, 127, 0), enc(1, 127, 0), enc(0, 1, 0), enc(1, 1, 0), enc(0, 254, 0x7FFFFF)]
    for a in sp:
        for b in sp:
            yield a, b, 'special'
    for _ in range(200 if q else 20000):
        a = r.choice(sp) if r.chance(1, 2) else enc(r.next() & 1, r.choice([0, 0, 255]), rmant(r))
        b = r.choice(sp) if r.chance(1, 3) else enc(r.next() & 1, r.choice([0, 1, 254, 255, r.randint(0, 255)]), rmant(r))
        yield a, b, 'special'


def gen_f2i(tier, rng):
    q = tier == 'quick'
    for e in range(0, 256):
        for m in (MANTS if not q else MANTS[:11]):
            for s in (0, 1):
                yield enc(s, e, m), 'all-exponents'
    # exactly representable integers (odd and even) and integers plus a fraction
    r = rng.fork('f2i-int')
    import struct
    for _ in range(1500 if q else 100000):
        k = r.randint(0, 31)
        v = r.randint(1 << k, (2 << k) - 1) if k else 1
        f = r.choice([0, 0, 0.5, 0.25, 0.75, 2.0 ** -r.randint(1, 23)])
        x = struct.unpack('<I', struct.pack('<f', (v + f) * r.choice([1, -1])))[0]
        yield x, 'integers'
    for _ in range(1000 if q else 100000):
        yield enc(r.next() & 1, r.randint(100, 165), rmant(r)), 'random'
    for _ in range(200 if q else 5000):
        yield r.randint(0, MASK32), 'random32'


def gen_i2f(tier, rng):
    q = tier == 'quick'
    seen = [0, 1, MASK32, 1 << 31, (1 << 31) - 1, (1 << 31) + 1]
    for k in range(0, 32):
        for d in (-3, -2, -1, 0, 1, 2, 3):
            for sg in (1, -1):
                seen.append((sg * ((1 << k) + d)) & MASK32)
    for k in range(23, 32):     # 24/25/26-bit patterns shifted to every position: boundary of the discarded byte
        for pat in (0xFFFFFF, 0x1FFFFFF, 0x1000001, 0x800001, 0xFFFFFE, 0x1FFFFFE, 0x3FFFFFF, 0x2000001, 0xAAAAAA, 0x1555555):
            v = (pat << max(0, k - pat.bit_length() + 1)) & 0x7FFFFFFF
            seen += [v, (-v) & MASK32, (v | 1), (-(v | 1)) & MASK32]
    for v in seen:
        yield v, 'boundary'
    r = rng.fork('i2f')
    for _ in range(1500 if q else 150000):
        k = r.randint(1, 32)
        yield r.randint(0, (1 << k) - 1) if r.chance(1, 2) else ((-r.randint(0, (1 << k) - 1)) & MASK32), 'random'
    for _ in range(500 if q else 50000):
        yield r.bits(32), 'random'


FX_CONFIGS_Q = [(32, 31), (32, 15), (16, 7), (8, 3), (8, 7), (8, 0), (5, 2), (1, 0), (2, 0), (24, 11), (31, 30), (10, 4)]
# formats outside "0 <= f1 < aw": the constructor accepts any integer f[1] (the 8-bit exponent constant 127+f[1] and the Sub wrap):
# negative / large f1 inside the normal range (domain of C13.fixedtofp_spec), and formats whose values leave it (verdict "out",
# model-vs-real only: the 8-bit wrap of the exponent is part of the model, C13.fixedtofp_eq)
FX_CONFIGS_X = [(8, -5), (8, 127), (8, -119), (8, 130), (8, -130), (8, 200), (6, -300), (4, 124), (4, -124), (3, 1000),
                (32, 127), (32, -95), (32, -96), (16, 120), (16, -111), (16, -112), (20, 128)]
FX_CONFIGS_Q = FX_CONFIGS_Q + FX_CONFIGS_X
FX_CONFIGS_T = FX_CONFIGS_Q + [(w, f) for w in range(1, 33) for f in (0, (w - 1) // 2, w - 1, w - 127, 127, -150, 140)]


def gen_fx(tier, rng):
    q = tier == 'quick'
    r = rng.fork('fx')
    for aw, f1 in (FX_CONFIGS_Q if q else FX_CONFIGS_T):
        if aw <= (8 if q else 12):
            for a in range(1 << aw):
                yield (aw, f1), a, 'exhaustive'
        else:
            for _ in range(150 if q else 3000):
                yield (aw, f1), r.bits(aw), 'sampled'
            for k in range(aw):
                for d in (-1, 0, 1):
                    yield (aw, f1), ((1 << k) + d) & ((1 << aw) - 1), 'boundary'


# ------------------------------------------------------------------------------------------------------------------
def corpus_first(batch):
    """witnesses of the known findings + minimised past disagreements: run before everything else"""
    d = os.path.join(VERIF, 'corpus', 'C13')
    n = 0
    if os.path.isdir(d):
        for f in sorted(os.listdir(d)):
            if not f.endswith('.json'):
                continue
            try:
                j = json.load(open(os.path.join(d, f)))
            except Exception:
                continue
            cases = j.get('cases', []) + [k['witness'] for k in j.get('findings', []) if 'witness' in k]
            for c in cases:
                if 'block' in c and 'inputs' in c:
                    batch.add(c['block'], c.get('params', []), c['inputs'], tag=f'corpus:{f}')
                    n += 1
    return n


def net_stream(res, real, rng, tier):
    """the flattened netlists of the real blocks in the Lean simulator model (generated leaves), every wire compared"""
    nb = D.NetBatch(res, 'net')
    r = rng.fork('net')
    nvec = 3 if tier == 'quick' else 25
    for blk, p in [('cmp', ()), ('cmpabs', ()), ('mul', ()), ('add', ()), ('i2f', ()), ('f2i', ()), ('fx2f', (16, 7)), ('parts', ())]:
        hw, ins, outs, sim = real.get(blk, p)
        ops = []
        for _ in range(nvec):
            for w in ins:
                v = enc(r.next() & 1, r.randint(1, 254), rmant(r)) if w.getWidth() == 32 and blk not in ('i2f',) else r.bits(w.getWidth())
                ops.append(('poke', w, v))
            ops.append(('clk', 1))
        try:
            with contextlib.redirect_stdout(io.StringIO()):
                nb.add(hw, ops, sim=sim, label=blk)
            res.hist('net_blocks', blk)
        except D.NotDumpable as e:
            res.hist('net_not_dumpable', f'{blk}:{e}')
    try:
        good = nb.run()
        res.cov['net_designs_agreeing'] = good
    except ToolFailure as e:
        res.broken.append(('correspondence', 'net', str(e)[:300]))


def main(res, tier, rng, replay):
    ok, metas, errors, changed = regenerate()
    for e in errors:
        res.broken.append(('translator', 'py2lean', e))
    res.proof_stage('Py4hwV.Props.C13', OBLIGATIONS + PROPS)
    q = tier == 'quick'
    workers = 6 if q else 8
    real = Real()
    batch = Batch(res, real, workers)

    if replay:
        j = json.load(open(replay if os.path.exists(replay) else os.path.join(VERIF, replay)))
        for f in j.get('failing_inputs', []):
            rp = f.get('replay', {})
            if 'block' in rp:
                batch.add(rp['block'], rp.get('params', []), rp['inputs'], tag='replay')
        batch.flush()
        return

    # T1: the generated leaves the blocks are made of
    if ok:
        try:
            t1.validate_generated(res, rng.fork('t1'), 30 if q else 300, classes=T1_CLASSES)
        except ToolFailure as e:
            res.broken.append(('correspondence', 'T1', f'generated definitions do not run: {e}'))

    n_corpus = corpus_first(batch)
    batch.flush()
    res.cov['corpus_cases'] = n_corpus

    for a, b, tag in gen_cmp(tier, rng.fork('cmp')):
        batch.add('cmp', (), (a, b), tag)
        batch.add('cmpabs', (), (a, b), tag)
    for a, tag in gen_f2i(tier, rng.fork('f2i')):
        batch.add('f2i', (), (a,), tag)
    for a, tag in gen_i2f(tier, rng.fork('i2f')):
        batch.add('i2f', (), (a,), tag)
    for p, a, tag in gen_fx(tier, rng.fork('fx')):
        batch.add('fx2f', p, (a,), tag)
    batch.flush()
    for a, b, tag in gen_mul(tier, rng.fork('mul')):
        batch.add('mul', (), (a, b), tag)
    batch.flush()
    for a, b, tag in gen_add(tier, rng.fork('add')):
        batch.add('add', (), (a, b), tag)
        if len(batch.items) >= 120000:
            batch.flush()
    batch.flush()
    # field extraction blocks (model-vs-real only)
    r = rng.fork('parts')
    for _ in range(300 if q else 5000):
        v = r.bits(32) if r.chance(1, 2) else enc(r.next() & 1, r.choice([0, 1, 127, 254, 255, r.randint(0, 255)]), rmant(r))
        batch.add('parts', (), (v,), 'parts')
        batch.add('raw', (), (v,), 'parts')
    batch.flush()

    net_stream(res, Real(), rng, tier)      # fresh instances: the Lean simulator model starts from power-up

    res.cov['rule'] = ('one evaluation = one operand tuple put on the REAL block (real constructor, real simulator: put -> propagateAll -> '
                       'get), compared with the Lean block model (Lib.Fp, through Drv/C13.lean) AND judged by the Lean oracle (FpSpec.oracle: '
                       'exact integer arithmetic in units of 2^-149) on the observed output bits; distinct_nontrivial = distinct tuples inside '
                       'the property domain (normal operands, exact result normal). Adder/multiplier pairs are evaluated in both operand '
                       'orders (commutativity on the real block). Structured operands: every exponent gap 0-60 x base exponents x boundary '
                       'mantissas x 4 sign combinations; close magnitudes of opposite sign; exponent-pair grid (all 254x254 in the thorough '
                       'tier); exponent sums at both ends of the normal range and mantissa products around 2^47 for the multiplier; all 256 '
                       'exponent fields x boundary mantissas, representable integers +- fractions for FPtoInt; all powers of two +-3, 24/25/26-'
                       'bit patterns at every position, random for InttoFP; FixedPointtoFP exhaustive for widths <= 8 (12 thorough). '
                       'net: flattened real netlists run by the Lean simulator model on the generated leaves, every wire compared.')
    res.cov['model_driver'] = batch.driver
    res.assumptions += [
        'value function: a normal encoding x denotes sval(x) * 2^-149 (C13.decode_normal ties FpSpec.sval to Helper.IEEE.decode IEEE.single)',
        'inputs of the blocks are 32-bit wire values (C06); operands outside "finite normal" (zero, subnormal, inf, nan) are outside the '
        'property: compared model-vs-real only',
        'the two former findings (adder exponent gap >= 32, FPtoInt p_lost on odd integers) are repaired in /repo (f8136d7, 87c4dcb): '
        'their classes are still computed by the oracle and a failure inside them is reported as a regression (VIOLATION)',
        'FixedPointtoFP_SP is not named by the property text; it is modelled, PROVED (C13.fixedtofp_spec: every width 1..32, every '
        'integer f[1], every encoding whose exact value is 0 or in the normal range) and checked on the real block against the same '
        'truncation spec under the format reading value = a * 2^(f[1] + 1 - width); formats/encodings whose exact value leaves the '
        'normal range are model-vs-real only (the 8-bit exponent wraps, C13.fixedtofp_eq)',
        'outside the domain the Lean oracle also evaluates the characterisation theorems (C13.charCheck_*: comparator = IEEE totalOrder '
        'on all encodings, 0*x, x+0, x-x) on the observed outputs (verdicts out:char-ok / out:char-FAIL) and inside the domain the '
        'tightened bounds C13.fpmul_tight / fpadd_tight (verdict ok-not-tight); a failure of either is reported as a model-vs-'
        'implementation disagreement, never as a violation of the property (which claims neither)',
    ]


PROPS = [
    # value function
    'C13.decode_normal', 'C13.sval_decode', 'C13.mag_lt_iff', 'C13.mag_eq_iff',
    # field extraction (_FP_parts_raw / _FP_parts)
    'C13.bit31', 'C13.range_e', 'C13.range_m', 'C13.parts_eq',
    # (1) comparator
    'C13.fpcmp_fields', 'C13.fpcmp_abs_fields', 'C13.fpcmp_spec', 'C13.fpcmp_abs_spec', 'C13.fpcmp_iff',
    # (2) conversions
    'C13.i2f_core', 'C13.inttofp_eq', 'C13.inttofp_spec', 'C13.inttofp_oracle',
    'C13.fptoint_eq', 'C13.shift_view_right', 'C13.shift_view_left', 'C13.fptoint_small', 'C13.fptoint_mid', 'C13.fptoint_big',
    'C13.fptoint_spec', 'C13.fptoint_oracle',
    # (3) multiplier
    'C13.fpmul_eq', 'C13.fpmul_ulp', 'C13.fpmul_comm',
    # (4) adder
    'C13.fpadd_swap', 'C13.fpaddCore_eq', 'C13.fpadd_datapath', 'C13.fpadd_datapath_far', 'C13.add_exact', 'C13.norm_mant',
    'C13.norm_exp', 'C13.norm_value', 'C13.fpaddCore_ulp', 'C13.fpadd_sign_ulp', 'C13.fpadd_sign_ulp_iff', 'C13.fpadd_comm_fields',
    'C13.fpadd_comm',
    # (5) FixedPointtoFP_SP: every accepted format
    'C13.fixedtofp_eq', 'C13.fixedtofp_spec', 'C13.fixedtofp_format', 'C13.fixedtofp_oracle', 'C13.fixedtofp_int',
    # (6) tightened bounds and their tightness
    'C13.fpmul_tight', 'C13.fpmul_bound_tight', 'C13.fpaddCore_strong', 'C13.fpadd_tight',
    'C13.fpadd_bound_tight', 'C13.fpadd_cancellation_witness',
    # (7) characterisation outside the domain
    'C13.magx_lt_iff', 'C13.magx_eq_iff', 'C13.fpcmp_abs_total', 'C13.fpcmp_totalOrder', 'C13.fpcmp_nonzero_spec',
    'C13.fpmul_all', 'C13.fpmul_zero_operand', 'C13.fpadd_datapath_all', 'C13.fpadd_zero_operand', 'C13.fpadd_exact_cancellation',
    'C13.charCheck_cmp', 'C13.charCheck_cmpabs', 'C13.charCheck_mul', 'C13.charCheck_add',
]

if __name__ == '__main__':
    main_wrapper('C13', main, level='proof')
