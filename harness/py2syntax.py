"""
C02 front end (own module; harness/py2lean.py is not touched).

  class_to_syntax(obj)      live behavioural py4hw.Logic instance -> dict(sexp=..., info=...) : the constructor facts and
                            the clock()/propagate() body as Tp.PySyntax DATA (S-expression read by
                            lean/Py4hwV/Transpile/PyRead.lean).  Independent of the transpiler: it uses only `ast` on
                            inspect.getsource and the live object's ports.  Raises NotInSubset(construct) outside PySyntax.
  gen_ops_table(outdir)     T3 import of the REAL transpiler's emission tables: executes VerilogOperator.getOp on every ast
                            operator class and the toVerilog() of the three assignment nodes, writes
                            lean/Py4hwV/Gen/TranspileOps.lean (only when changed).  The Lean model of the translation
                            (Transpile/Model.lean) and therefore the theorems of Props/C02.lean are stated over these
                            generated tables, so a change of the operator table breaks a proof obligation.
"""
import ast, inspect, textwrap, os, io, contextlib


class NotInSubset(Exception):
    def __init__(self, construct, detail=''):
        super().__init__(f'{construct}: {detail}')
        self.construct = construct


BINOPS = {ast.Add: 'add', ast.Sub: 'sub', ast.Mult: 'mul', ast.FloorDiv: 'fdiv', ast.Mod: 'fmod', ast.BitAnd: 'band',
          ast.BitOr: 'bor', ast.BitXor: 'bxor', ast.LShift: 'shl', ast.RShift: 'shr'}
CMPOPS = {ast.Eq: 'eq', ast.NotEq: 'ne', ast.Lt: 'lt', ast.LtE: 'le', ast.Gt: 'gt', ast.GtE: 'ge'}
UNOPS = {ast.USub: 'neg', ast.Invert: 'inv', ast.Not: 'lnot'}


def sx(*a):
    return '(' + ' '.join(str(x) for x in a) + ')'


class Front:
    def __init__(self, seq, wire_name=None):
        self.seq = seq
        self.constructs = {}
        # attribute that holds a wire -> the name the emitted text uses for it (the PORT name since /repo 53243dd); the syntax
        # handed to Lean names every wire by that name, so attribute name and port name coincide there by construction
        self.wire_name = wire_name or {}

    def wn(self, attr):
        return self.wire_name.get(attr, attr)

    def note(self, k):
        self.constructs[k] = self.constructs.get(k, 0) + 1

    # ---- expressions
    def expr(self, e):
        if isinstance(e, ast.Constant):
            v = e.value
            if isinstance(v, bool):
                self.note('bool-const')
                return sx('const', int(v))
            if isinstance(v, int):
                return sx('const', v)
            raise NotInSubset('constant', type(v).__name__)
        if isinstance(e, ast.Name):
            return sx('loc', e.id)
        if isinstance(e, ast.Attribute):
            if isinstance(e.value, ast.Name) and e.value.id == 'self':
                return sx('attr', self.wn(e.attr))
            raise NotInSubset('attribute', ast.unparse(e))
        if isinstance(e, ast.Call):
            f = e.func
            if isinstance(f, ast.Attribute) and f.attr == 'get' and not e.args and isinstance(f.value, ast.Attribute) \
                    and isinstance(f.value.value, ast.Name) and f.value.value.id == 'self':
                return sx('get', self.wn(f.value.attr))
            if isinstance(f, ast.Attribute) and f.attr == 'getParameterValue' and len(e.args) == 1 and \
                    isinstance(e.args[0], ast.Constant) and isinstance(e.args[0].value, str):
                self.note('param')
                return sx('par', e.args[0].value)
            if isinstance(f, ast.Name) and f.id == 'ord' and len(e.args) == 1 and isinstance(e.args[0], ast.Constant) \
                    and isinstance(e.args[0].value, str) and len(e.args[0].value) == 1 and self.seq:
                self.note('ord')
                return sx('const', ord(e.args[0].value))
            raise NotInSubset('call', ast.unparse(e))
        if isinstance(e, ast.UnaryOp):
            if type(e.op) not in UNOPS:
                raise NotInSubset('unaryop', type(e.op).__name__)
            self.note('un-' + UNOPS[type(e.op)])
            return sx('un', UNOPS[type(e.op)], self.expr(e.operand))
        if isinstance(e, ast.BinOp):
            if type(e.op) not in BINOPS:
                raise NotInSubset('binop', type(e.op).__name__)
            self.note('bin-' + BINOPS[type(e.op)])
            return sx('bin', BINOPS[type(e.op)], self.expr(e.left), self.expr(e.right))
        if isinstance(e, ast.Compare):
            if len(e.ops) != 1:
                raise NotInSubset('chained-compare', ast.unparse(e))
            if type(e.ops[0]) not in CMPOPS:
                raise NotInSubset('cmpop', type(e.ops[0]).__name__)
            self.note('cmp-' + CMPOPS[type(e.ops[0])])
            return sx('cmp', CMPOPS[type(e.ops[0])], self.expr(e.left), self.expr(e.comparators[0]))
        if isinstance(e, ast.BoolOp):
            k = 'and' if isinstance(e.op, ast.And) else 'or'
            self.note('bool-' + k + ('' if len(e.values) == 2 else '-nary'))
            xs = [self.expr(v) for v in e.values]
            # pairwise (logarithmic) association, as the transpiler builds it; any association is the same Python value
            while len(xs) > 1:
                ys = []
                for i in range(0, len(xs), 2):
                    ys.append(sx(k, xs[i], xs[i + 1]) if i + 1 < len(xs) else xs[i])
                xs = ys
            return xs[0]
        if isinstance(e, ast.IfExp):
            self.note('ternary')
            return sx('ite', self.expr(e.test), self.expr(e.body), self.expr(e.orelse))
        raise NotInSubset(type(e).__name__.lower(), ast.unparse(e)[:60])

    # ---- statements
    def body(self, stmts):
        out = [s for s in (self.stmt(x) for x in stmts) if s is not None]
        if not out:
            return '(skip)'
        r = out[-1]
        for s in reversed(out[:-1]):
            r = sx('seq', s, r)
        return r

    def target(self, t, value_sexp):
        if isinstance(t, ast.Name):
            return sx('setLoc', t.id, value_sexp)
        if isinstance(t, ast.Attribute) and isinstance(t.value, ast.Name) and t.value.id == 'self':
            return sx('setAttr', t.attr, value_sexp)
        raise NotInSubset('assign-target', ast.unparse(t))

    def stmt(self, s):
        if isinstance(s, ast.Assign):
            if len(s.targets) != 1:
                raise NotInSubset('multi-target')
            self.note('assign-loc' if isinstance(s.targets[0], ast.Name) else 'assign-attr')
            return self.target(s.targets[0], self.expr(s.value))
        if isinstance(s, ast.AugAssign):
            if type(s.op) not in BINOPS:
                raise NotInSubset('binop', type(s.op).__name__)
            self.note('augassign')
            cur = self.expr(s.target)
            return self.target(s.target, sx('bin', BINOPS[type(s.op)], cur, self.expr(s.value)))
        if isinstance(s, ast.Expr):
            v = s.value
            if isinstance(v, ast.Constant) and isinstance(v.value, str):
                self.note('docstring')
                return None
            if isinstance(v, ast.Call):
                f = v.func
                if isinstance(f, ast.Name) and f.id == 'print':
                    self.note('print')
                    return None
                if isinstance(f, ast.Attribute) and f.attr in ('put', 'prepare') and len(v.args) == 1 and \
                        isinstance(f.value, ast.Attribute) and isinstance(f.value.value, ast.Name) and f.value.value.id == 'self':
                    self.note(f.attr)
                    return sx('put' if f.attr == 'put' else 'prep', self.wn(f.value.attr), self.expr(v.args[0]))
            raise NotInSubset('expr-stmt', ast.unparse(s)[:60])
        if isinstance(s, ast.Assert):
            self.note('assert')
            return None
        if isinstance(s, ast.If):
            self.note('if' + ('-else' if s.orelse else ''))
            return sx('ife', self.expr(s.test), self.body(s.body), self.body(s.orelse))
        if hasattr(ast, 'Match') and isinstance(s, ast.Match):
            self.note('match')
            chain = None
            dflt = '(skip)'
            arms = []
            for c in s.cases:
                if isinstance(c.pattern, ast.MatchAs) and c.pattern.name is None and c.pattern.pattern is None:
                    if c.guard is not None:
                        raise NotInSubset('guarded-default')
                    dflt = self.body(c.body)
                    self.note('case-default')
                    continue
                if not isinstance(c.pattern, ast.MatchValue):
                    raise NotInSubset('match-pattern', type(c.pattern).__name__)
                g = '(none)'
                if c.guard is not None:
                    self.note('case-guard')
                    g = sx('some', self.expr(c.guard))
                arms.append((self.expr(c.pattern.value), g, self.body(c.body)))
            chain = sx('dflt', dflt)
            for v, g, b in reversed(arms):
                chain = sx('arm', v, g, b, chain)
            return sx('mtch', self.expr(s.subject), chain)
        raise NotInSubset(type(s).__name__.lower(), ast.unparse(s)[:60])


def method_ast(obj, name):
    src = textwrap.dedent(inspect.getsource(getattr(type(obj), name)))
    return ast.parse(src).body[0]


def class_to_syntax(obj, modname=None):
    """-> dict(sexp, ports, state, consts, params, isSeq, constructs).  Constructor facts are read with `ast` from
    __init__ (which attribute holds which port / constant) and from the LIVE object (port names, widths, values)."""
    import py4hw
    is_seq = obj.isClockable()
    init = method_ast(obj, '__init__')
    port_by_wire_name = {}
    ports, state, consts, inits = [], [], [], []
    in_names = {p.name: p for p in obj.inPorts}
    out_names = {p.name: p for p in obj.outPorts}
    argnames = [a.arg for a in init.args.args]
    for st in init.body:
        if isinstance(st, ast.Assign) and len(st.targets) == 1 and isinstance(st.targets[0], ast.Attribute) \
                and isinstance(st.targets[0].value, ast.Name) and st.targets[0].value.id == 'self':
            attr = st.targets[0].attr
            v = st.value
            if isinstance(v, ast.Call) and isinstance(v.func, ast.Attribute) and v.func.attr in ('addIn', 'addOut') \
                    and isinstance(v.args[0], ast.Constant):
                pname = v.args[0].value
                p = (in_names if v.func.attr == 'addIn' else out_names)[pname]
                from py4hw.rtl_generation import getValidVerilogName
                vname = getValidVerilogName(pname)
                ports.append(dict(attr=vname, port=vname, pyattr=attr, pyport=pname, width=p.wire.getWidth(), isOut=v.func.attr == 'addOut'))
            elif isinstance(v, ast.Constant) and isinstance(v.value, (int, bool)):
                # every constant assignment, in order (the emitted `initial` block repeats them all); `state` keeps one entry
                # per attribute, first-assignment order, with the LAST assigned value = what the constructed object holds
                inits.append((attr, int(v.value)))
                if attr in [k for k, _ in state]:
                    state = [(k, int(v.value)) if k == attr else (k, x) for k, x in state]
                else:
                    state.append((attr, int(v.value)))
            elif isinstance(v, ast.Name) and v.id in argnames:
                val = getattr(obj, attr)
                if not isinstance(val, int):
                    raise NotInSubset('ctor-const', f'{attr} is {type(val).__name__}')
                consts.append((attr, int(val)))
            else:
                raise NotInSubset('ctor-assign', ast.unparse(st)[:60])
    params = []
    if hasattr(obj, 'parameters'):
        for k in obj.parameters:
            params.append((k, int(obj.getParameterValue(k))))
    fr = Front(is_seq, {p['pyattr']: p['attr'] for p in ports})
    meth = method_ast(obj, 'clock' if is_seq else 'propagate')
    body = fr.body(meth.body)
    clk = 'clk'
    if is_seq:
        clk = py4hw.getObjectClockDriver(obj).name
    if modname is None:
        # module naming belongs to the structural emitter (C01/C03): taken from the real function, not modelled
        from py4hw.rtl_generation import getVerilogModuleName
        modname = getVerilogModuleName(obj, noInstanceNumber=True)
    name = modname
    sexp = sx('class', name,
              sx('ports', *[sx('port', p['attr'], p['port'], p['width'], int(p['isOut'])) for p in ports]),
              sx('state', *[sx('s', k, v) for k, v in state]),
              sx('inits', *[sx('s', k, v) for k, v in inits]),
              sx('consts', *[sx('s', k, v) for k, v in consts]),
              sx('params', *[sx('s', k, v) for k, v in params]),
              int(is_seq), clk, body)
    return dict(sexp=sexp, ports=ports, state=state, inits=inits, consts=consts, params=params, isSeq=is_seq, clk=clk,
                constructs=fr.constructs, name=name)


# ------------------------------------------------------------------------------------------------ real operator tables
def real_tables():
    """executes the real transpiler's emission primitives"""
    import py4hw.transpilation.python2verilog_transpilation as T
    tab = {'bin': {}, 'cmp': {}, 'un': {}, 'bool': {}}

    def sym(opcls):
        try:
            return T.VerilogOperator(T.VerilogConstant(1), opcls(), T.VerilogConstant(2)).op
        except Exception as e:
            return 'raise:' + type(e).__name__
    for k, n in BINOPS.items():
        tab['bin'][n] = sym(k)
    for k, n in CMPOPS.items():
        tab['cmp'][n] = sym(k)
    for k, n in UNOPS.items():
        tab['un'][n] = sym(k)
    tab['bool']['and'] = sym(ast.And)
    tab['bool']['or'] = sym(ast.Or)
    refused = {}
    for k in (ast.Pow, ast.Div, ast.MatMult, ast.UAdd, ast.Is, ast.IsNot, ast.In, ast.NotIn):
        refused[k.__name__] = sym(k)
    tab['refused'] = refused

    def asg(cls, left):
        return cls(left, T.VerilogConstant(1)).toVerilog().strip()
    tab['assign'] = {
        'var': asg(T.VerilogVariableAssignment, T.VerilogVariable('a', 'integer')),
        'sync': asg(T.VerilogSynchronousAssignment, T.VerilogWire('a')),
        'async': asg(T.VerilogAsynchronousAssignment, T.VerilogWire('a')),
    }
    # parenthesisation rule of VerilogOperator.toVerilog on nested operators
    inner = T.VerilogOperator(T.VerilogConstant(1), ast.Add(), T.VerilogConstant(2))
    tab['paren'] = {
        'left': T.VerilogOperator(inner, ast.Mult(), T.VerilogConstant(3)).toVerilog(),
        'right': T.VerilogOperator(T.VerilogConstant(3), ast.Mult(), inner).toVerilog(),
        'cmp_right_list': T.VerilogOperator(T.VerilogConstant(3), [ast.Eq()], [inner]).toVerilog(),
        'unary': T.VerilogOperator(None, ast.USub(), inner).toVerilog(),
    }
    # every ordered pair (outer, inner) of binary / comparison operators, inner nested on the left and on the right
    BO = ['add', 'sub', 'mul', 'fdiv', 'fmod', 'band', 'bor', 'bxor', 'shl', 'shr']
    CO = ['eq', 'ne', 'lt', 'le', 'gt', 'ge']
    inv_b = {v: k for k, v in BINOPS.items()}
    inv_c = {v: k for k, v in CMPOPS.items()}

    def mk(name, l, r_):
        if name in inv_b:
            return T.VerilogOperator(l, inv_b[name](), r_)
        return T.VerilogOperator(l, [inv_c[name]()], [r_])       # a Compare keeps its comparators as a list
    C = T.VerilogConstant
    pairs = []
    for o in BO + CO:
        for i in BO + CO:
            try:
                pairs.append(mk(o, mk(i, C(3), C(2)), C(1)).toVerilog())
            except Exception as e:
                pairs.append('raise:' + type(e).__name__)
            try:
                pairs.append(mk(o, C(3), mk(i, C(2), C(1))).toVerilog())
            except Exception as e:
                pairs.append('raise:' + type(e).__name__)
    tab['paren_pairs'] = pairs
    return tab


def lean_str(s):
    return '"' + s.replace('\\', '\\\\').replace('"', '\\"') + '"'


def ops_lean(tab):
    L = ['-- GENERATED by harness/py2syntax.py from the real VerilogOperator.getOp / toVerilog - do not edit',
         'import Py4hwV.Transpile.PySyntax', 'namespace Gen.TranspileOps', 'open Tp', '',
         '/-- Verilog operator text the real transpiler emits for a Python binary operator -/',
         'def binSym : BinOp → String']
    for n in ['add', 'sub', 'mul', 'fdiv', 'fmod', 'band', 'bor', 'bxor', 'shl', 'shr']:
        L.append(f'  | .{n} => {lean_str(tab["bin"][n])}')
    L += ['', 'def cmpSym : CmpOp → String']
    for n in ['eq', 'ne', 'lt', 'le', 'gt', 'ge']:
        L.append(f'  | .{n} => {lean_str(tab["cmp"][n])}')
    L += ['', 'def unSym : UnOp → String']
    for n in ['neg', 'inv', 'lnot']:
        L.append(f'  | .{n} => {lean_str(tab["un"][n])}')
    L += ['', f'def andSym : String := {lean_str(tab["bool"]["and"])}', f'def orSym : String := {lean_str(tab["bool"]["or"])}', '',
          '/-- text of `a := 1` through the three assignment nodes -/',
          f'def varAssign : String := {lean_str(tab["assign"]["var"])}',
          f'def syncAssign : String := {lean_str(tab["assign"]["sync"])}',
          f'def asyncAssign : String := {lean_str(tab["assign"]["async"])}', '',
          '/-- parenthesisation of nested operators: (1+2)*3, 3*(1+2), 3==[1+2], -(1+2) -/',
          f'def parenLeft : String := {lean_str(tab["paren"]["left"])}',
          f'def parenRight : String := {lean_str(tab["paren"]["right"])}',
          f'def parenCmpRightList : String := {lean_str(tab["paren"]["cmp_right_list"])}',
          f'def parenUnary : String := {lean_str(tab["paren"]["unary"])}', '',
          '/-- for every ordered pair (outer, inner) of the 10 binary + 6 comparison operators, in table order: the text of',
          '    `(3 inner 2) outer 1` and of `3 outer (2 inner 1)` as emitted by the real VerilogOperator.toVerilog -/',
          'def parenPairs : List String := [' + ', '.join(lean_str(x) for x in tab['paren_pairs']) + ']', '',
          'end Gen.TranspileOps', '']
    return '\n'.join(L)


def gen_ops_table(outdir):
    """-> (changed, table)"""
    with contextlib.redirect_stdout(io.StringIO()):
        tab = real_tables()
    txt = ops_lean(tab)
    p = os.path.join(outdir, 'TranspileOps.lean')
    old = open(p).read() if os.path.exists(p) else None
    if old != txt:
        with open(p, 'w') as f:
            f.write(txt)
        return True, tab
    return False, tab
