"""
C18 — design sources for the schematic check (only py4hw's public constructors are used; nothing from schematic.py).

  library_cases(rng, tier)   (label, spec) for every structural block of py4hw.logic at sampled widths / arities
  random_plan(rng, size)     seeded random netlist plan: a block with ports, fan-out, register feedback, long forward
                             edges, dangling inputs/outputs, nested structural children (pure data, JSON-able)
  build(spec)                spec -> the real py4hw Logic object (a structural block)
  export_design(obj)         the netlist as the property reads it: children, ports, wire identities
"""
import py4hw
from py4hw import *
import py4hw.logic.arithmetic_fp as _fp
import py4hw.logic.arithmetic_fxp as _fxp
from py4hw.base import Wire, Logic, HWSystem


class Unsupported(Exception):
    pass


# ------------------------------------------------------------------------------------------------
# library catalogue: name -> builder(hw, P) with P a dict of ints (w = width, n = arity, k = small constant)
def _ws(hw, pre, n, w):
    return [hw.wire(f'{pre}{i}', w) for i in range(n)]


def _cat():
    C = {}

    def reg(name, params):
        def deco(f):
            C[name] = (f, params)
            return f
        return deco

    W, N, K = 'w', 'n', 'k'
    reg('And', [W, N])(lambda hw, P: And(hw, 'dut', _ws(hw, 'i', P['n'], P['w']), hw.wire('r', P['w'])))
    reg('Or', [W, N])(lambda hw, P: Or(hw, 'dut', _ws(hw, 'i', P['n'], P['w']), hw.wire('r', P['w'])))
    reg('Xor', [W, N])(lambda hw, P: Xor(hw, 'dut', _ws(hw, 'i', max(2, P['n']), P['w']), hw.wire('r', P['w'])))
    reg('Nor', [W, N])(lambda hw, P: Nor(hw, 'dut', _ws(hw, 'i', P['n'], P['w']), hw.wire('r', P['w'])))
    reg('AndBits', [W])(lambda hw, P: AndBits(hw, 'dut', hw.wire('a', P['w']), hw.wire('r', 1)))
    reg('OrBits', [W])(lambda hw, P: OrBits(hw, 'dut', hw.wire('a', P['w']), hw.wire('r', 1)))
    reg('Nand2', [W])(lambda hw, P: Nand2(hw, 'dut', hw.wire('a', P['w']), hw.wire('b', P['w']), hw.wire('r', P['w'])))
    reg('Nor2', [W])(lambda hw, P: Nor2(hw, 'dut', hw.wire('a', P['w']), hw.wire('b', P['w']), hw.wire('r', P['w'])))
    reg('Xor2', [W])(lambda hw, P: Xor2(hw, 'dut', hw.wire('a', P['w']), hw.wire('b', P['w']), hw.wire('r', P['w'])))
    reg('BufEnable', [W])(lambda hw, P: BufEnable(hw, 'dut', hw.wire('a', P['w']), hw.wire('en', 1), hw.wire('r', P['w'])))
    reg('Demux', [W, K])(lambda hw, P: Demux(hw, 'dut', hw.wire('a', P['w']), hw.wire('sel', max(1, P['k'])),
                                             _ws(hw, 'r', 1 << max(1, P['k']), P['w'])))
    reg('Mux', [W, K])(lambda hw, P: Mux(hw, 'dut', hw.wire('sel', max(1, P['k'])), _ws(hw, 'i', 1 << max(1, P['k']), P['w']),
                                         hw.wire('r', P['w'])))
    reg('Select', [W, N])(lambda hw, P: Select(hw, 'dut', _ws(hw, 's', P['n'], 1), _ws(hw, 'i', P['n'], P['w']), hw.wire('r', P['w'])))
    reg('OneHotMux', [W, N])(lambda hw, P: OneHotMux(hw, 'dut', _ws(hw, 's', P['n'], 1), _ws(hw, 'i', P['n'], P['w']), hw.wire('r', P['w'])))
    reg('OneHotDemux', [W, N])(lambda hw, P: OneHotDemux(hw, 'dut', _ws(hw, 's', P['n'], 1), hw.wire('a', P['w']), _ws(hw, 'o', P['n'], P['w'])))
    reg('SelectDefault', [W, N])(lambda hw, P: SelectDefault(hw, 'dut', _ws(hw, 's', P['n'], 1), _ws(hw, 'i', P['n'], P['w']),
                                                             hw.wire('d', P['w']), hw.wire('r', P['w'])))
    reg('Decoder', [K])(lambda hw, P: Decoder(hw, 'dut', hw.wire('a', max(1, P['k'])), _ws(hw, 'b', 1 << max(1, P['k']), 1)))
    reg('Minterm', [N, K])(lambda hw, P: Minterm(hw, 'dut', _ws(hw, 'b', P['n'], 1), P['k'] % (1 << P['n']), hw.wire('r', 1)))
    reg('SumOfMinterms', [K])(lambda hw, P: SumOfMinterms(hw, 'dut', hw.wire('a', max(2, P['k'])),
                                                         sorted(set([(P['w'] * 7 + i * 3) % (1 << max(2, P['k'])) for i in range(1 + P['n'] % 4)])),
                                                         hw.wire('r', 1)))
    reg('Digit7Segment', [])(lambda hw, P: Digit7Segment(hw, 'dut', hw.wire('v', 4), hw.wire('led', 7)))
    reg('PriorityEncoder', [N, K])(lambda hw, P: PriorityEncoder(hw, 'dut', _ws(hw, 'a', P['n'], 1), _ws(hw, 'r', P['n'], 1), inc_priority=bool(P['k'] & 1)))
    reg('Add', [W])(lambda hw, P: Add(hw, 'dut', hw.wire('a', P['w']), hw.wire('b', P['w']), hw.wire('r', P['w'])))
    reg('Add_ci_co', [W])(lambda hw, P: Add(hw, 'dut', hw.wire('a', P['w']), hw.wire('b', P['w']), hw.wire('r', P['w']),
                                            ci=hw.wire('ci', 1), co=hw.wire('co', 1)))
    reg('SignedAdd', [W])(lambda hw, P: SignedAdd(hw, 'dut', hw.wire('a', P['w']), hw.wire('b', P['w']), hw.wire('r', P['w'] + 1)))
    reg('Abs', [W])(lambda hw, P: Abs(hw, 'dut', hw.wire('a', P['w']), hw.wire('r', P['w'])))
    reg('Abs_inv', [W])(lambda hw, P: Abs(hw, 'dut', hw.wire('a', P['w']), hw.wire('r', P['w']), hw.wire('inv', 1)))
    reg('Neg', [W])(lambda hw, P: Neg(hw, 'dut', hw.wire('a', P['w']), hw.wire('r', P['w'])))
    reg('Sign', [W])(lambda hw, P: Sign(hw, 'dut', hw.wire('a', P['w']), hw.wire('r', 1)))
    reg('SignedDiv', [W])(lambda hw, P: SignedDiv(hw, 'dut', hw.wire('a', P['w']), hw.wire('b', P['w']), hw.wire('r', P['w'])))
    reg('SignedSub', [W])(lambda hw, P: SignedSub(hw, 'dut', hw.wire('a', P['w']), hw.wire('b', P['w']), hw.wire('r', P['w'] + 1)))

    reg('Counter', [W])(lambda hw, P: Counter(hw, 'dut', hw.wire('reset', 1), hw.wire('inc', 1), hw.wire('q', P['w'])))
    reg('ModuloCounter', [W, K])(lambda hw, P: ModuloCounter(hw, 'dut', 2 + P['k'] % ((1 << P['w']) - 1 if P['w'] > 1 else 1),
                                                             hw.wire('reset', 1), hw.wire('inc', 1), hw.wire('q', P['w']), hw.wire('co', 1)))
    reg('StepUpCounter', [W])(lambda hw, P: StepUpCounter(hw, 'dut', hw.wire('reset', 1), hw.wire('inc', 1), hw.wire('step', P['w']), hw.wire('q', P['w'])))
    reg('ShiftRight', [W, K])(lambda hw, P: ShiftRight(hw, 'dut', hw.wire('a', P['w']), hw.wire('b', 1 + P['k'] % 4), hw.wire('r', P['w']),
                                                       arithmetic=bool(P['n'] & 1)))
    reg('ShiftRight_arithwire', [W, K])(lambda hw, P: ShiftRight(hw, 'dut', hw.wire('a', P['w']), hw.wire('b', 1 + P['k'] % 3), hw.wire('r', P['w']),
                                                                 arithmetic=hw.wire('ar', 1)))
    reg('ShiftLeft', [W, K])(lambda hw, P: ShiftLeft(hw, 'dut', hw.wire('a', P['w']), hw.wire('b', 1 + P['k'] % 4), hw.wire('r', P['w'])))
    reg('RotateRight', [W, K])(lambda hw, P: RotateRight(hw, 'dut', hw.wire('a', P['w']), hw.wire('b', 1 + P['k'] % 4), hw.wire('r', P['w'])))
    reg('RotateLeft', [W, K])(lambda hw, P: RotateLeft(hw, 'dut', hw.wire('a', P['w']), hw.wire('b', 1 + P['k'] % 4), hw.wire('r', P['w'])))
    reg('BinaryToBCD', [W])(lambda hw, P: BinaryToBCD(hw, 'dut', hw.wire('a', max(4, P['w'])), hw.wire('r', 4 * ((len(str((1 << max(4, P['w'])) - 1))))))  )
    reg('CountLeadingZeros', [W])(lambda hw, P: CountLeadingZeros(hw, 'dut', hw.wire('a', max(2, P['w'])),
                                                                 hw.wire('r', max(1, max(2, P['w']).bit_length())), hw.wire('z', 1)))
    reg('AnyEqual', [W, N])(lambda hw, P: AnyEqual(hw, 'dut', _ws(hw, 'i', max(2, P['n']), P['w']), hw.wire('r', 1)))
    reg('NotEqualConstant', [W, K])(lambda hw, P: NotEqualConstant(hw, 'dut', hw.wire('a', P['w']), P['k'] % (1 << P['w']), hw.wire('r', 1)))
    reg('EqualConstant', [W, K])(lambda hw, P: EqualConstant(hw, 'dut', hw.wire('a', P['w']), P['k'] % (1 << P['w']), hw.wire('r', 1)))
    reg('Equal', [W])(lambda hw, P: Equal(hw, 'dut', hw.wire('a', P['w']), hw.wire('b', P['w']), hw.wire('r', 1)))
    reg('Comparator', [W])(lambda hw, P: Comparator(hw, 'dut', hw.wire('a', P['w']), hw.wire('b', P['w']), hw.wire('gt', 1), hw.wire('eq', 1), hw.wire('lt', 1)))
    reg('ComparatorSignedUnsigned', [W])(lambda hw, P: ComparatorSignedUnsigned(hw, 'dut', hw.wire('a', P['w']), hw.wire('b', P['w']),
                                                                               hw.wire('gtu', 1), hw.wire('eq', 1), hw.wire('ltu', 1), hw.wire('gt', 1), hw.wire('lt', 1)))
    for nm, cls in (('Max2', Max2), ('SignedMax2', SignedMax2), ('Min2', Min2), ('SignedMin2', SignedMin2)):
        reg(nm, [W])(lambda hw, P, cls=cls: cls(hw, 'dut', hw.wire('a', P['w']), hw.wire('b', P['w']), hw.wire('r', P['w'])))
    reg('Swap', [W])(lambda hw, P: Swap(hw, 'dut', hw.wire('a', P['w']), hw.wire('b', P['w']), hw.wire('swap', 1), hw.wire('ra', P['w']), hw.wire('rb', P['w'])))
    reg('FPComparator_SP', [K])(lambda hw, P: FPComparator_SP(hw, 'dut', hw.wire('a', 32), hw.wire('b', 32), hw.wire('gt', 1), hw.wire('eq', 1), hw.wire('lt', 1),
                                                             absolute=bool(P['k'] & 1)))
    reg('FixedPointComparator', [W])(lambda hw, P: FixedPointComparator(hw, 'dut', hw.wire('a', P['w'] + 2), (1, 1, P['w']),
                                                                       hw.wire('b', P['w'] + 2), (1, 1, P['w']), hw.wire('gt', 1), hw.wire('eq', 1), hw.wire('lt', 1)))
    reg('TReg', [])(lambda hw, P: TReg(hw, 'dut', hw.wire('t', 1), hw.wire('q', 1)))
    reg('TReg_en_rst', [])(lambda hw, P: TReg(hw, 'dut', hw.wire('t', 1), hw.wire('q', 1), enable=hw.wire('en', 1), reset=hw.wire('rst', 1)))
    reg('DelayLine', [W, N])(lambda hw, P: DelayLine(hw, 'dut', hw.wire('a', P['w']), hw.wire('en', 1) if P['k'] & 1 else None,
                                                     hw.wire('rst', 1) if P['k'] & 2 else None, hw.wire('r', P['w']), P['n']))
    reg('PipelinePhase', [W, N])(lambda hw, P: PipelinePhase(hw, 'dut', hw.wire('rst', 1), _ws(hw, 'i', P['n'], P['w']), _ws(hw, 'o', P['n'], P['w'])))
    reg('ShiftRegisterBidirectional', [W, N])(lambda hw, P: ShiftRegisterBidirectional(
        hw, 'dut', hw.wire('li', P['w']), hw.wire('ri', P['w']), hw.wire('lo', P['w']), hw.wire('ro', P['w']), hw.wire('sl', 1), hw.wire('sr', 1), max(2, P['n'])))
    reg('Stack_ShiftRegister', [W, N])(lambda hw, P: Stack_ShiftRegister(hw, 'dut', hw.wire('din', P['w']), hw.wire('dout', P['w']), hw.wire('push', 1),
                                                                         hw.wire('pop', 1), hw.wire('empty', 1), hw.wire('full', 1), max(2, P['n'])))
    reg('ClockDivider', [K])(lambda hw, P: ClockDivider(hw, 'dut', 100, max(1, 100 // (2 + P['k'])), hw.wire('clkout', 1)))
    reg('ClockDivider_rst', [K])(lambda hw, P: ClockDivider(hw, 'dut', 100, max(1, 100 // (2 + P['k'])), hw.wire('clkout', 1), reset=hw.wire('rst', 1)))
    reg('EdgeDetector', [K])(lambda hw, P: EdgeDetector(hw, 'dut', hw.wire('a', 1), hw.wire('r', 1), ['pos', 'neg', 'both'][P['k'] % 3]))
    reg('FPAdder_SP', [])(lambda hw, P: _fp.FPAdder_SP(hw, 'dut', hw.wire('a', 32), hw.wire('b', 32), hw.wire('r', 32)))
    reg('FPMult_SP', [])(lambda hw, P: _fp.FPMult_SP(hw, 'dut', hw.wire('a', 32), hw.wire('b', 32), hw.wire('r', 32)))
    reg('FPtoInt_SP', [])(lambda hw, P: _fp.FPtoInt_SP(hw, 'dut', hw.wire('a', 32), hw.wire('r', 32), hw.wire('pl', 1), hw.wire('dn', 1), hw.wire('iv', 1)))
    reg('InttoFP_SP', [])(lambda hw, P: _fp.InttoFP_SP(hw, 'dut', hw.wire('a', 32), hw.wire('r', 32), hw.wire('pl', 1)))
    reg('FixedPointtoFP_SP', [K])(lambda hw, P: _fp.FixedPointtoFP_SP(hw, 'dut', hw.wire('a', 16), (1, 7 - P['k'] % 3, 8 + P['k'] % 3), hw.wire('r', 32), hw.wire('pl', 1)))
    reg('_FP_parts', [])(lambda hw, P: _fp._FP_parts(hw, 'dut', hw.wire('a', 32), hw.wire('s', 1), hw.wire('e', 8), hw.wire('m', 24), hw.wire('dn', 1), hw.wire('z', 1)))
    reg('_FP_parts_raw', [])(lambda hw, P: _fp._FP_parts_raw(hw, 'dut', hw.wire('a', 32), hw.wire('s', 1), hw.wire('e', 8), hw.wire('m', 23)))
    for nm, cls in (('FixedPointAdd', _fxp.FixedPointAdd), ('FixedPointSub', _fxp.FixedPointSub), ('FixedPointMult', _fxp.FixedPointMult)):
        reg(nm, [W])(lambda hw, P, cls=cls: cls(hw, 'dut', hw.wire('a', P['w'] + 2), (1, 1, P['w']), hw.wire('b', P['w'] + 2), (1, 1, P['w']),
                                               hw.wire('r', P['w'] + 2), (1, 1, P['w'])))
    def _uart():
        import py4hw.logic.protocol.uart.clock as uc
        import py4hw.logic.protocol.uart.sequencer as us
        return uc, us
    reg('uart.ClockGenerationAndRecovery', [K])(lambda hw, P: _uart()[0].ClockGenerationAndRecovery(
        hw, 'dut', hw.wire('rx', 1), hw.wire('desync', 1), hw.wire('txp', 1), hw.wire('rxs', 1), 1000, 1000 // (2 + P['k'])))
    reg('uart.ReadyFlowControl', [K])(lambda hw, P: _uart()[1].ReadyFlowControl(
        hw, 'dut', hw.wire('in_ready', 1), hw.wire('in_valid', 1), hw.wire('clk_en', 1), hw.wire('out_ready', 1), hw.wire('out_valid', 1), 3 + P['k'] * 5))
    reg('uart.UARTMsgGenerator', [K])(lambda hw, P: _uart()[1].UARTMsgGenerator(hw, 'dut', hw.wire('tx', 1), 1000, 1000 // (2 + P['k']), 'hi' * (1 + P['k'])))
    reg('FixedPointSign', [W])(lambda hw, P: _fxp.FixedPointSign(hw, 'dut', hw.wire('a', P['w'] + 2), (1, 1, P['w']), hw.wire('s', 1)))
    return C


CATALOGUE = _cat()


def library_cases(rng, tier):
    """-> list of spec dicts {'kind':'lib','name':..,'P':{w,n,k}}; small widths/arities exhaustively, larger sampled"""
    out = []
    if tier == 'quick':
        ws, ns, ks, extra = [1, 2, 3, 8], [1, 2, 3, 5], [0, 1, 2], 2
    else:
        ws, ns, ks, extra = [1, 2, 3, 4, 5, 8, 16, 32], [1, 2, 3, 4, 5, 6, 8, 12], [0, 1, 2, 3, 4, 5], 12
    for name, (f, params) in CATALOGUE.items():
        seen = set()
        Wl = ws if 'w' in params else [8]
        Nl = ns if 'n' in params else [2]
        Kl = ks if 'k' in params else [0]
        cases = [(w, n, k) for w in Wl for n in Nl for k in Kl]
        r = rng.fork(('lib', name))
        lim = 10 if tier == 'quick' else 80
        if len(cases) > lim:
            cases = cases[:3] + r.shuffle(cases[3:])[:lim - 3]
        for i in range(extra if params else 0):
            cases.append((r.randint(1, 40) if 'w' in params else 8, r.randint(1, 10 if tier == 'quick' else 24) if 'n' in params else 2,
                          r.randint(0, 9) if 'k' in params else 0))
        for (w, n, k) in cases:
            if (w, n, k) in seen:
                continue
            seen.add((w, n, k))
            out.append({'kind': 'lib', 'name': name, 'P': {'w': w, 'n': n, 'k': k}})
    return out


# ------------------------------------------------------------------------------------------------
# random netlists.  plan = {'w': W, 'nin': .., 'nodes': [{'k': kind, 'ins': [ref], 'p': {...}}], 'outs': [ref], 'undriven': bool}
#   ref = ['in', i] | ['n', j, k] (output k of node j; j may be >= the reader = feedback) | ['free', i] (undriven local wire)
KINDS = {
    # kind: (n_inputs or None = variable, n_outputs, is_register)
    'And2': (2, 1, False), 'Or2': (2, 1, False), 'Xor2': (2, 1, False), 'Nor2': (2, 1, False), 'Nand2': (2, 1, False),
    'Not': (1, 1, False), 'Buf': (1, 1, False), 'Add': (2, 1, False), 'Sub': (2, 1, False), 'Mul': (2, 1, False),
    'Mux2': (3, 1, False), 'Reg': (1, 1, True), 'RegEn': (2, 1, True), 'RegEnRst': (3, 1, True), 'AndN': (None, 1, False),
    'OrN': (None, 1, False), 'Bit': (1, 1, False), 'Range': (1, 1, False), 'Constant': (0, 1, False), 'Equal': (2, 1, False),
    'Comparator': (2, 3, False), 'Swap': (3, 2, False), 'ModuloCounter': (2, 2, True), 'Select': (None, 1, False),
    'Sign': (1, 1, False), 'TReg': (1, 1, True), 'Sub2': (2, 2, False),
    # optional-port variants (every port a constructor can add)
    'AddCo': (2, 2, False), 'AddCi': (3, 1, False), 'AddCiCo': (3, 2, False), 'Abs': (1, 1, False), 'AbsInv': (1, 2, False),
    'TRegEnRst': (3, 1, True), 'Counter': (2, 1, True), 'RegRst': (2, 1, True), 'Nor3': (3, 1, False),
    'Xor3': (3, 1, False),
    # drawn with ScopeSymbol; only in the symbol-class stream (their constructors start a simulator)
    'Scope': (None, 0, False), 'Waveform': (None, 0, False),
}
BINOP3_KINDS = ('AddCi', 'AddCiCo')            # the class of the known finding C18-binop-third-pin
SIM_KINDS = ('Scope', 'Waveform')
KIND_LIST = sorted(k for k in KINDS if k not in SIM_KINDS)


def out_width(kind, o, W):
    """width of output o of a node of this kind when the data width is W"""
    if kind in ('Equal', 'Comparator', 'Sign', 'TReg', 'TRegEnRst', 'Bit'):
        return 1
    if kind in ('ModuloCounter', 'AddCo', 'AddCiCo', 'AbsInv') and o == 1:
        return 1
    return W


def random_plan(rng, n_nodes, profile=None, exclude=()):
    """profile: dict of probabilities (percent): fb = feedback edge from a later register, far = prefer old sources (long forward
    edges), self = register reading itself, dangle = leave an output unread, free = undriven input (outside the premise)"""
    pf = {'fb': 15, 'far': 30, 'self': 0, 'free': 0, 'fan': 30}
    pf.update(profile or {})
    nin = rng.randint(0 if n_nodes > 0 else 1, 4)
    nodes = []
    for j in range(n_nodes):
        k = rng.choice([q for q in KIND_LIST if q not in exclude] if exclude else KIND_LIST)
        ni, no, isreg = KINDS[k]
        if ni is None:
            ni = rng.randint(1, 5) if k != 'Select' else 2 * rng.randint(1, 3)
        if k in ('Nor3', 'Xor3'):
            ni = rng.randint(2, 5)
        nodes.append({'k': k, 'ni': ni, 'no': no, 'ins': [], 'p': {'v': rng.randint(0, 7)}})
    regs_out = [j for j, nd in enumerate(nodes) if KINDS[nd['k']][2]]
    nfree = 0
    hot = None
    for j, nd in enumerate(nodes):
        for i in range(nd['ni']):
            ref = None
            if rng.chance(pf['free'], 100):
                ref = ['free', nfree]
                nfree += 1
            elif KINDS[nd['k']][2] and rng.chance(pf['self'], 100):
                ref = ['n', j, rng.randint(0, nd['no'] - 1)]
            elif regs_out and rng.chance(pf['fb'], 100):
                cands = [q for q in regs_out if q > j]
                if cands:
                    q = rng.choice(cands)
                    ref = ['n', q, rng.randint(0, nodes[q]['no'] - 1)]
            if ref is None and hot is not None and rng.chance(pf['fan'], 100):
                ref = hot
                if ref[0] == 'n' and ref[1] >= j:
                    ref = None
            if ref is None:
                cands = [['in', q] for q in range(nin)]
                lo = 0
                if not rng.chance(pf['far'], 100):
                    lo = max(0, j - 3)
                    cands = cands if lo == 0 else []
                for q in range(lo, j):
                    for o in range(nodes[q]['no']):
                        cands.append(['n', q, o])
                if not cands:
                    cands = [['in', q] for q in range(nin)]
                if not cands:
                    # no inputs and nothing earlier: read a later register or a constant-like free wire is not allowed -> use own feedback
                    later = [q for q in regs_out if q != j]
                    if later:
                        q = rng.choice(later)
                        cands = [['n', q, 0]]
                    else:
                        cands = [['free', nfree]]
                        nfree += 1
                ref = rng.choice(cands)
            nd['ins'].append(ref)
            if rng.chance(1, 4):
                hot = ref
    nout = rng.randint(0 if nodes else 1, 4)
    outs = []
    for i in range(nout):
        cands = [['n', q, o] for q in range(len(nodes)) for o in range(nodes[q]['no'])]
        if not cands or rng.chance(1, 10):
            cands = cands + [['in', q] for q in range(nin)]
        if cands:
            c = rng.choice(cands)
            if c not in outs:
                outs.append(c)
    return {'kind': 'plan', 'w': rng.choice([1, 2, 8, 8, 16]), 'nin': nin, 'nodes': nodes, 'outs': outs, 'nfree': nfree}


# every logic class that has a symbol of its own, with the plan kinds that instantiate it — the last one is the variant with the
# largest number of ports the constructor can give it
CLASS_KINDS = {
    'And2': ['And2'], 'And': ['AndN'], 'Not': ['Not'], 'Or2': ['Or2'], 'Or': ['OrN'], 'Nor2': ['Nor2'], 'Xor2': ['Xor2'],
    'Add': ['Add', 'AddCo', 'AddCi', 'AddCiCo'], 'Sub': ['Sub'], 'Mul': ['Mul'], 'Reg': ['Reg', 'RegEn', 'RegRst', 'RegEnRst'],
    'Scope': ['Scope'], 'Buf': ['Buf'], 'Bit': ['Bit'], 'Mux2': ['Mux2'], 'Range': ['Range'], 'Waveform': ['Waveform'],
}
# drawn with the generic InstanceSymbol: optional / multiple ports
GENERIC_KINDS = ['Abs', 'AbsInv', 'TReg', 'TRegEnRst', 'Counter', 'ModuloCounter', 'Comparator', 'Swap', 'Select', 'Nor3', 'Xor3',
                 'Nand2', 'Equal', 'Sign', 'Constant', 'Sub2']


def single_kind_plans(kind):
    """small deterministic blocks around ONE instance of this kind: every input from its own block input, every output to its own
    block output (and read by a buffer), once plain and once one column further away (so that pass-through chains start on every pin)"""
    ni, no, _ = KINDS[kind]
    if ni is None:
        ni = 5 if kind != 'Select' else 4
    if kind in ('Nor3', 'Xor3'):
        ni = 4
    plans = []
    for far in (0, 1):
        nodes, ins = [], []
        for i in range(ni):
            if far and i % 2 == 0:
                nodes.append({'k': 'Buf', 'ni': 1, 'no': 1, 'ins': [['in', i]], 'p': {'v': 0}})
                ins.append(['n', len(nodes) - 1, 0])
            else:
                ins.append(['in', i])
        j = len(nodes)
        nodes.append({'k': kind, 'ni': ni, 'no': no, 'ins': ins, 'p': {'v': 1}})
        outs = [['n', j, o] for o in range(no)]
        if kind in SIM_KINDS:
            # the monitor must be created last (its constructor builds the simulator): put the logic before it
            nodes.insert(j, {'k': 'Not', 'ni': 1, 'no': 1, 'ins': [['in', 0]], 'p': {'v': 0}})
            outs = [['n', j, 0]]
        if far:
            for o in range(no):
                nodes.append({'k': 'Buf', 'ni': 1, 'no': 1, 'ins': [['n', j, o]], 'p': {'v': 0}})
                nodes.append({'k': 'Not', 'ni': 1, 'no': 1, 'ins': [['n', len(nodes) - 1, 0]], 'p': {'v': 0}})
                outs.append(['n', len(nodes) - 1, 0])
        plans.append({'kind': 'plan', 'w': 1 if kind in ('TReg', 'TRegEnRst', 'Select') else 4, 'nin': max(ni, 1), 'nodes': nodes, 'outs': outs[:8], 'nfree': 0})
    return plans


def self_loop_plans(kinds=None):
    """the class 'an instance reading its own output', systematically: for every kind, every (output o, input i) pair, a block around
    ONE instance whose output o is wired straight back to its input i (all other inputs from block inputs, every output also a block
    output), once with the instance in the first instance column and once one column further right (another input goes through a Buf)"""
    plans = []
    for kind in (kinds or KIND_LIST):
        ni, no, _ = KINDS[kind]
        if ni is None:
            ni = 3 if kind != 'Select' else 4
        if kind in ('Nor3', 'Xor3'):
            ni = 3
        if ni == 0 or no == 0:
            continue
        for o in range(no):
            for i in range(ni):
                for far in (0, 1):
                    if far and ni < 2:
                        continue
                    nodes, ins = [], []
                    j = 1 if far else 0
                    fi = (i + 1) % ni
                    for q in range(ni):
                        if q == i:
                            ins.append(['n', j, o])
                        elif far and q == fi:
                            ins.append(['n', 0, 0])
                        else:
                            ins.append(['in', q])
                    if far:
                        nodes.append({'k': 'Buf', 'ni': 1, 'no': 1, 'ins': [['in', fi]], 'p': {'v': 0}})
                    nodes.append({'k': kind, 'ni': ni, 'no': no, 'ins': ins, 'p': {'v': 1}})
                    plans.append({'kind': 'plan', 'w': 1, 'nin': ni, 'nodes': nodes, 'outs': [['n', j, q] for q in range(no)], 'nfree': 0})
    return plans


class _Blk(Logic):
    def __init__(self, parent, name, plan, inw, outw):
        super().__init__(parent, name)
        W = plan['w']
        ins = [self.addIn(f'in{i}', inw[i]) for i in range(plan['nin'])]
        nodes = plan['nodes']
        # one wire per node output; block outputs reuse the driving wire object when they name a node output
        outmap = {}
        for i, ref in enumerate(plan['outs']):
            outmap[tuple(ref)] = outw[i]
        nw = {}
        for j, nd in enumerate(nodes):
            for o in range(nd['no']):
                key = ('n', j, o)
                ww = out_width(nd['k'], o, W)
                if key in outmap and outmap[key].getWidth() == ww:
                    nw[key] = outmap[key]
                elif key in outmap:
                    raise Unsupported('width')
                else:
                    nw[key] = self.wire(f'n{j}_{o}', ww)
        free = [self.wire(f'free{i}', W) for i in range(plan['nfree'])]

        def R(ref):
            if ref[0] == 'in':
                return ins[ref[1]]
            if ref[0] == 'free':
                return free[ref[1]]
            return nw[('n', ref[1], ref[2])]
        for i, ref in enumerate(plan['outs']):
            self.addOut(f'out{i}', R(ref) if ref[0] != 'n' else nw[tuple(ref)])
        for j, nd in enumerate(nodes):
            k, I, O, nm = nd['k'], [R(r) for r in nd['ins']], [nw[('n', j, o)] for o in range(nd['no'])], f'u{j}'
            v = nd['p']['v']
            if k in ('And2', 'Or2', 'Xor2', 'Nor2', 'Nand2', 'Add', 'Sub', 'Mul', 'Equal'):
                {'And2': And2, 'Or2': Or2, 'Xor2': Xor2, 'Nor2': Nor2, 'Nand2': Nand2, 'Add': Add, 'Sub': Sub, 'Mul': Mul,
                 'Equal': Equal}[k](self, nm, I[0], I[1], O[0])
            elif k == 'Not':
                Not(self, nm, I[0], O[0])
            elif k == 'Buf':
                Buf(self, nm, I[0], O[0])
            elif k == 'Sign':
                Sign(self, nm, I[0], O[0])
            elif k == 'Mux2':
                Mux2(self, nm, I[0], I[1], I[2], O[0])
            elif k == 'Reg':
                Reg(self, nm, I[0], O[0])
            elif k == 'RegEn':
                Reg(self, nm, I[0], O[0], enable=I[1])
            elif k == 'RegEnRst':
                Reg(self, nm, I[0], O[0], enable=I[1], reset=I[2])
            elif k == 'TReg':
                TReg(self, nm, I[0], O[0])
            elif k == 'AndN':
                And(self, nm, I, O[0])
            elif k == 'OrN':
                Or(self, nm, I, O[0])
            elif k == 'Bit':
                Bit(self, nm, I[0], v % max(1, I[0].getWidth()), O[0])
            elif k == 'Range':
                Range(self, nm, I[0], I[0].getWidth() - 1, 0, O[0])
            elif k == 'Constant':
                Constant(self, nm, v, O[0])
            elif k == 'Comparator':
                Comparator(self, nm, I[0], I[1], O[0], O[1], O[2])
            elif k == 'Swap':
                Swap(self, nm, I[0], I[1], I[2], O[0], O[1])
            elif k == 'ModuloCounter':
                ModuloCounter(self, nm, 3 + v, I[0], I[1], O[0], O[1])
            elif k == 'Select':
                h = len(I) // 2
                Select(self, nm, I[:h], I[h:], O[0])
            elif k == 'Sub2':
                _Sub2(self, nm, I[0], I[1], O[0], O[1])
            elif k == 'AddCo':
                Add(self, nm, I[0], I[1], O[0], co=O[1])
            elif k == 'AddCi':
                Add(self, nm, I[0], I[1], O[0], ci=I[2])
            elif k == 'AddCiCo':
                Add(self, nm, I[0], I[1], O[0], ci=I[2], co=O[1])
            elif k == 'Abs':
                Abs(self, nm, I[0], O[0])
            elif k == 'AbsInv':
                Abs(self, nm, I[0], O[0], O[1])
            elif k == 'TRegEnRst':
                TReg(self, nm, I[0], O[0], enable=I[1], reset=I[2])
            elif k == 'RegRst':
                Reg(self, nm, I[0], O[0], reset=I[1])
            elif k == 'Counter':
                Counter(self, nm, I[0], I[1], O[0])
            elif k == 'Nor3':
                Nor(self, nm, I, O[0])
            elif k == 'Xor3':
                Xor(self, nm, I, O[0])
            elif k == 'Scope':
                py4hw.Scope(self, nm, I)
            elif k == 'Waveform':
                py4hw.Waveform(self, nm, I)
            else:
                raise Unsupported(k)


class _Sub2(Logic):
    """a small nested structural child with two outputs (generic InstanceSymbol)"""
    def __init__(self, parent, name, a, b, x, y):
        super().__init__(parent, name)
        self.addIn('a', a)
        self.addIn('b', b)
        self.addOut('x', x)
        self.addOut('y', y)
        And2(self, 'g0', a, b, x)
        Or2(self, 'g1', a, b, y)


def build(spec):
    """-> the structural block (a real py4hw Logic). raises Unsupported / whatever the constructor raises"""
    hw = HWSystem()
    if spec['kind'] == 'lib':
        f, _ = CATALOGUE[spec['name']]
        obj = f(hw, spec['P'])
        for p in spec.get('path', []):
            obj = obj.children[p]
        return obj
    if spec['kind'] == 'plan':
        W = spec['w']
        inw = [hw.wire(f'in{i}', W) for i in range(spec['nin'])]
        outw = []
        for i, ref in enumerate(spec['outs']):
            if ref[0] == 'in':
                outw.append(inw[ref[1]])
            else:
                nd = spec['nodes'][ref[1]]
                ww = out_width(nd['k'], ref[2], W)
                outw.append(hw.wire(f'out{i}', ww))
        return _Blk(hw, 'blk', spec, inw, outw)
    raise Unsupported(spec['kind'])


def structural_descendants(obj, prefix=()):
    """(path, block) for obj and every structural block below it"""
    yield prefix, obj
    for nm, ch in obj.children.items():
        if ch.isStructural():
            yield from structural_descendants(ch, prefix + (nm,))


# ------------------------------------------------------------------------------------------------
def export_design(obj):
    """the netlist of one block as the property reads it.
    -> dict(insts=[{'name','cls','ins':[wid],'outs':[wid]}], inp=[wid], outp=[wid], nw, wname=[..]); wires identified by object identity"""
    if len(obj.inOutPorts) > 0:
        raise Unsupported('inout ports')
    wid, wname = {}, []

    def W(w):
        if w is None:
            raise Unsupported('port without wire')
        if id(w) not in wid:
            wid[id(w)] = len(wname)
            wname.append(w.getFullPath() if hasattr(w, 'getFullPath') else str(w))
        return wid[id(w)]
    inp = [W(p.wire) for p in obj.inPorts]
    outp = [W(p.wire) for p in obj.outPorts]
    insts = []
    for ch in obj.children.values():
        if len(ch.inOutPorts) > 0:
            raise Unsupported('inout ports')
        insts.append({'name': ch.name, 'cls': type(ch).__name__, 'ins': [W(p.wire) for p in ch.inPorts], 'outs': [W(p.wire) for p in ch.outPorts]})
    return {'insts': insts, 'inp': inp, 'outp': outp, 'nw': len(wname), 'wname': wname, '_wid': wid}
