"""C05 — streams for the commit phase of an edge (duplicates in Wire.prepared, shared lines) and for silent edges.
See lean/Py4hwV/Net/C05Spec.lean (spec + model, driver Drv/C05.lean) and lean/Py4hwV/Props/C05Edge.lean (theorems)."""
import contextlib, io, itertools
from common import *

DRIVER = 'Drv/C05.lean'


def _line(widths, vals, calls):
    return 'commit|' + ','.join(map(str, widths)) + '|' + ','.join(map(str, vals)) + '|' + ','.join(f'{w}:{v}' for w, v in calls)


class Batch:
    """collects the driver requests of several streams: ONE `lean --run` session for all of them"""
    def __init__(self, res):
        self.res, self.lines, self.parts = res, [], []

    def add(self, lines, on_answers):
        self.parts.append((len(self.lines), len(lines), on_answers))
        self.lines += lines

    def run(self):
        try:
            out = run_driver(DRIVER, self.lines)
        except ToolFailure as e:
            self.res.broken.append(('correspondence', 'commit-model', f'driver failed: {str(e)[:200]}'))
            out = [None] * len(self.lines)
        for start, n, cb in self.parts:
            cb(out[start:start + n])
        self.lines, self.parts = [], []


def _parse(ans):
    f = ans.split('|')
    if len(f) != 3:
        return None
    ints = lambda s: [int(x) for x in s.split(',')] if s.strip() else []
    return ints(f[0]), int(f[1]), ints(f[2])


# ------------------------------------------------------------------------------------------------
def commit_stream(res, rng, n_random, batch):
    """T1-style tie of the hand-modelled `Wire.settle` / `Wire.settleAll` / `BidirWire.settleAll` (a loop over a class-level list
    is outside the translator's subset) together with the generated `prepare`: arbitrary sequences of prepare() calls on real
    Wire / BidirWire objects -- any wire any number of times, in any positions -- followed by settleAll(), against the Lean model
    (`C05.commitModel`) and the Lean spec (`C05.commitSpec`: every wire ends with the LAST value prepared for it, masked; wires
    nobody prepared keep their value; the pending list is empty).  Exhaustive: 3 wires, every call list of length <= 4, plain /
    bidirectional / mixed wires, both settleAll entry points; then seeded random longer lists with out-of-range values, two
    rounds on the same wires."""
    import py4hw
    cases = []
    for kinds in ('www', 'bbb', 'wbw'):
        for L in range(5):
            for tgt in itertools.product(range(3), repeat=L):
                for via in ('Wire', 'BidirWire'):
                    cases.append(dict(kinds=kinds, widths=[4, 3, 5], init=[1, 2, 3], via=via,
                                      rounds=[[(t, 5 + 2 * i) for i, t in enumerate(tgt)]]))
    for i in range(n_random):
        r = rng.fork(i)
        k = r.randint(1, 5)
        widths = [r.randint(1, 9) for _ in range(k)]
        hot = [r.randint(0, k - 1) for _ in range(2)]
        rounds = []
        for _ in range(r.choice([1, 2, 2, 3])):
            calls = []
            for _ in range(r.randint(0, 12)):
                t = r.choice(hot) if r.chance(1, 2) else r.randint(0, k - 1)
                v = r.bits(widths[t]) if r.chance(3, 4) else r.choice([-1, -r.randint(1, 600), (1 << widths[t]) + r.randint(0, 9), 1 << 40])
                calls.append((t, v))
            rounds.append(calls)
        cases.append(dict(kinds=''.join(r.choice('wb') for _ in range(k)), widths=widths, init=[r.bits(w) for w in widths],
                          via=r.choice(['Wire', 'BidirWire']), rounds=rounds))
    lines, obs = [], []
    for ci, c in enumerate(cases):
        hw = py4hw.HWSystem()
        ws = [(hw.wire(f'w{j}', w) if kd == 'w' else hw.bidir_wire(f'w{j}', w)) for j, (kd, w) in enumerate(zip(c['kinds'], c['widths']))]
        py4hw.Wire.prepared = []          # harness hygiene: a case never inherits a pending list
        for w_, v in zip(ws, c['init']):
            w_.put(v)
        for rd, calls in enumerate(c['rounds']):
            pre = [w_.get() for w_ in ws]
            with contextlib.redirect_stdout(io.StringIO()):
                for t, v in calls:
                    ws[t].prepare(v)
                queued = len(py4hw.Wire.prepared)
                (py4hw.Wire if c['via'] == 'Wire' else py4hw.BidirWire).settleAll()
            post = [w_.get() for w_ in ws]
            lines.append(_line(c['widths'], pre, calls))
            obs.append((ci, rd, pre, calls, post, len(py4hw.Wire.prepared), queued))
        py4hw.Wire.prepared = []
        res.count(('commit', ci if ci >= 726 else str(c)), nontrivial=len(c['rounds'][0]) >= 2,
                  hist={'commit_dup_calls': min(4, max([0] + [len(cl) - len({t for t, _ in cl}) for cl in c['rounds']]))})
    batch.add(lines, lambda out: _commit_check(res, cases, obs, out))
    res.hist('commit_cases', 'exhaustive(3 wires, <=4 calls)', 726)
    res.hist('commit_cases', 'random', n_random)


def _commit_check(res, cases, obs, out):
    n_fail = n_dis = 0
    for (ci, rd, pre, calls, post, left, queued), ans in zip(obs, out):
        c = cases[ci]
        p = _parse(ans) if ans else None
        if p is None:
            # the model side is unavailable: evaluate the spec directly (last prepared value wins, masked; others unchanged)
            exp = list(pre)
            for t, v in calls:
                exp[t] = v & ((1 << c['widths'][t]) - 1)
            p = (exp, 0, exp)
        model, mleft, spec = p
        if (post != spec or left != 0) and n_fail < 3:
            n_fail += 1
            res.fail('settleAll(): a wire prepared at the edge does not hold its LAST prepared value, or another wire\'s update was lost, '
                     'or the pending list was not emptied',
                     dict(wires=[dict(kind='BidirWire' if kd == 'b' else 'Wire', width=w) for kd, w in zip(c['kinds'], c['widths'])],
                          values_before=pre, prepare_calls_in_order=[list(x) for x in calls], settle_via=c['via'] + '.settleAll()', round=rd,
                          observed_after=post, expected_after=spec, pending_left=left))
        if ans and (post != model or left != mleft) and n_dis < 3:
            n_dis += 1
            res.disagree('commit-model', dict(case=ci, widths=c['widths'], kinds=c['kinds'], before=pre, calls=calls, python=post,
                                              lean=model, pending_python=left, pending_lean=mleft))


# ------------------------------------------------------------------------------------------------
def _make_prog_class():
    import py4hw

    class Prog(py4hw.Logic):
        """a user-written sequential block: clock() advances a counter and runs a fixed list of statements
        `target.prepare(a*n + b + src.get())`, some of them guarded by bit 0 of a wire.  The same target may be prepared several
        times in one clock() (default assignment, later override); targets are own outputs or shared bidirectional lines."""

        def __init__(self, parent, name, wires, steps):
            super().__init__(parent, name)
            self.n = 0
            self.steps = steps
            self.tg, self.rd = {}, {}
            for (t, a, b, src, cond) in steps:
                if t not in self.tg:
                    w = wires[t]
                    self.tg[t] = self.addInOut(f't{t}', w) if isinstance(w, py4hw.BidirWire) else self.addOut(f't{t}', w)
                for x in (src, cond):
                    if x is not None and x not in self.rd:
                        self.rd[x] = self.addIn(f'r{x}', wires[x])

        def clock(self):
            self.n += 1
            for (t, a, b, src, cond) in self.steps:
                if cond is not None and (self.rd[cond].get() & 1) == 0:
                    continue
                self.tg[t].prepare(a * self.n + b + (self.rd[src].get() if src is not None else 0))
    return Prog


def gen_dup_spec(r):
    """wires: [(kind, width)]; blocks: ('prog', steps) | ('reg', src, q) | ('seq', values, target).  Every plain wire has exactly one
    driving block; a bidirectional line may have several.  agree: all drivers of a shared line prepare the same value at an edge."""
    wires, blocks = [], []
    agree = r.chance(1, 2)
    nb = r.choice([0, 1, 1, 2])
    lines_ = []
    for _ in range(nb):
        lines_.append(len(wires))
        wires.append(('b', r.randint(2, 8)))
    line_step = {L: (r.choice([1, 3, 5]), r.randint(0, 7)) for L in lines_}
    progs = []
    for _ in range(r.randint(1, 4)):
        own = []
        for _ in range(r.randint(1, 2)):
            own.append(len(wires))
            wires.append(('w', r.randint(1, 8)))
        progs.append(own)
    regs = []
    for _ in range(r.choice([0, 1, 1, 2])):
        regs.append(len(wires))
        wires.append(('w', r.randint(1, 8)))
    seqs = []
    for _ in range(r.choice([0, 1, 2])):
        if lines_ and not agree and r.chance(1, 2):
            seqs.append(r.choice(lines_))
        else:
            seqs.append(len(wires))
            wires.append(('w', r.randint(1, 8)))
    nw = len(wires)
    any_w = lambda: r.randint(0, nw - 1)
    for own in progs:
        steps = []
        for t in own:
            k = r.choice([1, 2, 2, 3])
            for j in range(k):
                # first statement for a target: the default (unconditional); later ones: overrides, mostly guarded
                cond = None if (j == 0 or r.chance(1, 3)) else any_w()
                steps.append((t, r.choice([0, 1, 2, 5]), r.randint(0, 9), any_w() if r.chance(1, 2) else None, cond))
        for L in lines_:
            if r.chance(2, 3):
                if agree:
                    steps.append((L, line_step[L][0], line_step[L][1], None, None))
                    if r.chance(1, 3):
                        steps.append((L, line_step[L][0], line_step[L][1], None, None))     # the same line driven twice by one block
                else:
                    for _ in range(r.choice([1, 1, 2])):
                        steps.append((L, r.choice([1, 2, 3]), r.randint(0, 9), any_w() if r.chance(1, 3) else None,
                                      any_w() if r.chance(1, 4) else None))
        # statements of different targets interleave; statements of one target keep their order
        keyed = [(r.randint(0, 99), i) for i in range(len(steps))]
        order, seen = [], {}
        for i, s in enumerate(steps):
            seen.setdefault(s[0], []).append(i)
        slots = sorted(range(len(steps)), key=lambda i: keyed[i])
        pos = {t: 0 for t in seen}
        for sl in slots:
            t = steps[sl][0]
            order.append(steps[seen[t][pos[t]]])
            pos[t] += 1
        blocks.append(('prog', order))
    for q in regs:
        blocks.append(('reg', any_w(), q))
    for t in seqs:
        blocks.append(('seq', [r.randint(0, 255) for _ in range(r.randint(1, 4))], t))
    return dict(wires=wires, blocks=blocks, agree=agree)


CONFLICT_ID = 'C05-bidir-conflict-last-visited-wins'


def bus_conflict_witness(res):
    """complement of the hypothesis `SharedOK` of C05.clkCycle_perm_indep_shared (negative theorem
    C05.shared_line_conflict_counterexample): two sequential blocks prepare DIFFERENT values on one BidirWire at the same edge; the
    line silently takes the value of the block the simulator visits last, i.e. the post-edge state depends on the instantiation
    order.  Re-derived on the real code at every run; reported through res.fail only once the integrator has listed it in
    known_findings.json (until then it is recorded in the evidence histograms and in notes/C05.md)."""
    import py4hw
    outs = []
    with contextlib.redirect_stdout(io.StringIO()):
        for order in ((0, 1), (1, 0)):
            hw = py4hw.HWSystem()
            bus, z = hw.bidir_wire('bus', 8), hw.wire('z', 8)
            vals = ([10, 11], [20, 21])
            for k in order:
                py4hw.Sequence(hw, f'drv{k}', list(vals[k]), bus)
            py4hw.Reg(hw, 'z', bus, z)
            sim = hw.getSimulator()
            sim.clk(2)
            outs.append((bus.get(), z.get()))
    differs = outs[0] != outs[1]
    res.hist('bus_conflict_witness', 'order-dependent' if differs else 'order-independent')
    if differs and any(k.get('id') == CONFLICT_ID for k in load_known()):
        res.fail('shared line: two sequential drivers prepare different values on one BidirWire at the same edge, the post-edge state depends on the visiting order',
                 dict(bus_conflict=True, design='Sequence([10,11]) and Sequence([20,21]) both driving BidirWire bus(8) -> Reg z; clk(2)',
                      instantiation_orders=[[0, 1], [1, 0]], bus_z_after_2_edges=[list(o) for o in outs]))
    return outs


def dup_prepare_stream(res, rng, n, batch):
    """designs in which a wire is prepared MORE THAN ONCE at an edge -- a BidirWire with several sequential drivers (user blocks,
    library Sequences), user blocks written in default-then-override style -- next to library registers and sequences whose
    updates are queued in between, built in random instantiation orders and visited in externally permuted orders.
    Oracle: at every edge the harness lists the prepare() calls of the edge in the simulator's visiting order (each block's
    statements evaluated on the OBSERVED pre-edge values) and the Lean spec `C05.commitSpec` gives the post-edge value of every
    wire; the implementation must show exactly that (no update lost, last value wins, nothing carried over).  Order
    independence: where no two blocks prepare different values on a shared line, a permuted visiting order must give the
    same values at every edge.  Splitting: clk(k) chunks against single cycles."""
    import py4hw
    Prog = _make_prog_class()

    def build(spec, inst_order, perm_rng=None):
        hw = py4hw.HWSystem()
        wires = [(hw.wire(f'w{j}', w) if kd == 'w' else hw.bidir_wire(f'w{j}', w)) for j, (kd, w) in enumerate(spec['wires'])]
        objs = {}
        for bi in inst_order:
            b = spec['blocks'][bi]
            if b[0] == 'prog':
                o = Prog(hw, f'p{bi}', wires, b[1])
            elif b[0] == 'reg':
                o = py4hw.Reg(hw, f'r{bi}', wires[b[1]], wires[b[2]])
            else:
                o = py4hw.Sequence(hw, f's{bi}', list(b[1]), wires[b[2]])
            objs[id(o)] = bi
        sim = hw.getSimulator()
        if perm_rng is not None:
            for drv in list(sim.clockDrivers):
                sim.clockDrivers[drv].clockables = perm_rng.shuffle(sim.clockDrivers[drv].clockables)
        visit = []
        for drv in sim.clockDrivers:
            visit += [objs[id(o)] for o in sim.clockDrivers[drv].clockables if id(o) in objs]
        return hw, sim, wires, visit

    def calls_of_edge(spec, visit, pre, cnt):
        """the prepare() calls of one edge in execution order; cnt: per block counter state (n of a Prog, i of a Sequence)"""
        calls = []
        for bi in visit:
            b = spec['blocks'][bi]
            if b[0] == 'prog':
                cnt[bi] += 1
                for (t, a, bb, src, cond) in b[1]:
                    if cond is not None and (pre[cond] & 1) == 0:
                        continue
                    calls.append((t, a * cnt[bi] + bb + (pre[src] if src is not None else 0)))
            elif b[0] == 'reg':
                calls.append((b[2], pre[b[1]]))
            else:
                calls.append((b[2], b[1][cnt[bi] % len(b[1])]))
                cnt[bi] += 1
        return calls

    bus_conflict_witness(res)
    lines, obs, deferred = [], [], []
    for i in range(n):
        r = rng.fork(i)
        spec = gen_dup_spec(r.fork('spec'))
        nblk = len(spec['blocks'])
        inst = r.shuffle(range(nblk))
        T = r.randint(3, 9)
        widths = [w for _, w in spec['wires']]
        try:
            with contextlib.redirect_stdout(io.StringIO()):
                py4hw.Wire.prepared = []
                hw, sim, wires, visit = build(spec, inst, perm_rng=r.fork('permA') if r.chance(1, 2) else None)
                cnt = {bi: 0 for bi in range(nblk)}
                traceA = []
                for t in range(T):
                    pre = [w_.get() for w_ in wires]
                    calls = calls_of_edge(spec, visit, pre, cnt)
                    sim.clk(1)
                    post = [w_.get() for w_ in wires]
                    traceA.append(post)
                    lines.append(_line(widths, pre, calls))
                    obs.append((i, spec, inst, visit, t + 1, pre, calls, post, len(py4hw.Wire.prepared)))
                # a second visiting order
                hwB, simB, wiresB, visitB = build(spec, inst, perm_rng=r.fork('permB'))
                traceB = []
                for t in range(T):
                    simB.clk(1)
                    traceB.append([w_.get() for w_ in wiresB])
                # the same run as multi-cycle calls
                hwC, simC, wiresC, visitC = build(spec, inst, perm_rng=None)
                rest, sp, marksC = T, [], {}
                while rest > 0:
                    k = r.randint(1, rest)
                    sp.append(k)
                    rest -= k
                    simC.clk(k)
                    marksC[simC.total_clks] = [w_.get() for w_ in wiresC]
                hwD, simD, wiresD, visitD = build(spec, inst, perm_rng=None)
                traceD = []
                for t in range(T):
                    simD.clk(1)
                    traceD.append([w_.get() for w_ in wiresD])
        except Exception as e:
            res.hist('simulation_errors', f'dupprep:{type(e).__name__}:{str(e)[:40]}')
            continue
        ndup = max(len(c) - len({t for t, _ in c}) for c in [o[6] for o in obs[-T:]])
        res.count(('dupprep', i, str(spec)), nontrivial=ndup > 0, hist={'dupprep_max_duplicates_per_edge': min(ndup, 6),
                                                                      'dupprep_shared_lines': sum(1 for k, _ in spec['wires'] if k == 'b')})
        summary = dict(design='user blocks preparing own outputs / shared BidirWire lines several times per clock(), library Reg and Sequence in between',
                       wires=spec['wires'], blocks=spec['blocks'], inst_order=inst)
        # order independence: only where the drivers of a shared line never disagree (a bus conflict resolves to the block visited last)
        conflict_free = spec['agree'] or not any(k == 'b' for k, _ in spec['wires'])
        if conflict_free and traceA != traceB:
            t_ = next(j for j in range(T) if traceA[j] != traceB[j])
            deferred.append(('post-edge state depends on the order in which the simulator visits the sequential blocks',
                             dict(summary, visiting_orders=[visit, visitB], edge=t_ + 1, values=[traceA[t_], traceB[t_]])))
        elif not conflict_free:
            res.hist('dupprep_bus_conflict_designs', 'order-dependent' if traceA != traceB else 'same')
        for c_, st in marksC.items():
            if traceD[c_ - 1] != st or simC.total_clks != T:
                deferred.append(('clk(n) differs from n single-cycle clk(1) calls',
                                 dict(summary, splitting=sp, after_cycles=c_, values=st, single_cycle_values=traceD[c_ - 1], total_clks=simC.total_clks)))
                break
    batch.add(lines, lambda out: _dup_check(res, obs, out, deferred))


def _dup_check(res, obs, out, deferred):
    """first the per-edge commit oracle (it names the lost update), then the order / splitting comparisons of the same designs"""
    bad_designs = set()
    for (i, spec, inst, visit, edge, pre, calls, post, left), ans in zip(obs, out):
        if i in bad_designs:
            continue
        p = _parse(ans) if ans else None
        if p is None:
            exp = list(pre)
            for t, v in calls:
                exp[t] = v & ((1 << spec['wires'][t][1]) - 1)
        else:
            exp = p[2]
        if post != exp or left != 0:
            bad_designs.add(i)
            if len(bad_designs) <= 3:
                lost = [j for j in range(len(post)) if post[j] != exp[j]]
                res.fail('an update prepared at the edge was lost, or a wire prepared several times did not settle to its last prepared value '
                         '(all prepared updates must become visible together after the edge)',
                         dict(design='user blocks preparing own outputs / shared BidirWire lines several times per clock(), library Reg and Sequence in between',
                              wires=spec['wires'], blocks=spec['blocks'], inst_order=inst, visiting_order=visit, edge=edge,
                              values_before=pre, prepare_calls_in_order=[list(c) for c in calls], observed_after=post, expected_after=exp,
                              wrong_wires=lost, pending_left=left))

    for what, rp in deferred:
        res.fail(what, rp)

# ------------------------------------------------------------------------------------------------
def quiet_stream(res, rng, n):
    """designs with SILENT edges: made only of blocks that do not call prepare() at every edge -- prepare-on-change FSMs (user
    pulse generators, the library AutoReset), Moore machines whose outputs are decoded in propagate(), monitors (StreamCapture,
    checksum monitors), registers under a gated clock -- so that at some edges nothing at all is queued; a free-running
    Sequence is added to a minority of designs.  Oracle (implementation only): every splitting of N cycles into clk(n) calls
    (one call, random pieces, empty pieces) gives, at every piece boundary, the wires / hidden states / cycle counter of N
    single-cycle calls, the same captured streams and the same listener notifications; absolute expectations for the pulse
    generators and AutoReset."""
    import py4hw
    from py4hw.logic.simulation import StreamCapture
    from py4hw.logic.clock import AutoReset

    class OnChange(py4hw.Logic):
        """one-cycle pulse every `period` edges; touches its output only when it has to change"""
        def __init__(self, parent, name, out, period, hi):
            super().__init__(parent, name)
            self.out = self.addOut('out', out)
            self.period, self.hi, self.count, self.high = period, hi, 0, False

        def clock(self):
            self.count += 1
            if self.count == self.period:
                self.count = 0
                self.out.prepare(self.hi)
                self.high = True
            elif self.high:
                self.out.prepare(0)
                self.high = False

    class Moore(py4hw.Logic):
        def __init__(self, parent, name, go, code, period, mul):
            super().__init__(parent, name)
            self.go = self.addIn('go', go)
            self.code = self.addOut('code', code)
            self.state, self.period, self.mul = 0, period, mul

        def clock(self):
            if self.state == 0:
                if self.go.get() & 1:
                    self.state = 1
            elif self.state >= self.period:
                self.state = 0
            else:
                self.state += 1

        def propagate(self):
            self.code.put(self.state * self.mul)

    class Checksum(py4hw.Logic):
        """a monitor: never prepares, its state is a checksum of every sample"""
        def __init__(self, parent, name, x):
            super().__init__(parent, name)
            self.x = self.addIn('x', x)
            self.acc, self.n = 0, 0

        def clock(self):
            self.acc = (self.acc * 3 + self.x.get() + 1) & 0xffff
            self.n += 1

    class Rec:
        def __init__(self, sim, wires):
            self.sim, self.wires, self.seen = sim, wires, []

        def simulatorUpdated(self):
            self.seen.append((self.sim.total_clks,) + tuple(w_.get() for w_ in self.wires))

    def build(spec, inst):
        hw = py4hw.HWSystem()
        W = {nm: hw.wire(nm, w) for nm, w in spec['wires']}
        hidden, caps = [], []
        for bi in inst:
            b = spec['blocks'][bi]
            k = b[0]
            if k == 'pulse':
                OnChange(hw, f'b{bi}', W[b[1]], b[2], b[3])
            elif k == 'autoreset':
                AutoReset(hw, f'b{bi}', W[b[1]])
            elif k == 'moore':
                hidden.append((bi, 'state', Moore(hw, f'b{bi}', W[b[1]], W[b[2]], b[3], b[4])))
            elif k == 'greg':
                c = py4hw.Logic(hw, f'dom{bi}')
                c.clockDriver = py4hw.ClockDriver(f'gclk{bi}', base=hw.clockDriver, enable=W[b[3]])
                py4hw.Reg(c, f'b{bi}', W[b[1]], W[b[2]])
            elif k == 'cap':
                caps.append((bi, StreamCapture(hw, f'b{bi}', W[b[1]])))
            elif k == 'chk':
                o = Checksum(hw, f'b{bi}', W[b[1]])
                hidden.append((bi, 'acc', o))
                hidden.append((bi, 'n', o))
            elif k == 'seq':
                py4hw.Sequence(hw, f'b{bi}', list(b[2]), W[b[1]])
        sim = hw.getSimulator()
        hidden.sort(key=lambda x: (x[0], x[1]))
        caps.sort(key=lambda x: x[0])
        return hw, sim, [W[nm] for nm, _ in spec['wires']], hidden, caps

    def run(spec, inst, splitting):
        hw, sim, wires, hidden, caps = build(spec, inst)
        rec = Rec(sim, wires)
        sim.addListener(rec)
        marks = {}
        for k in splitting:
            c0 = sim.total_clks
            sim.clk(k)
            marks[c0 + k] = (sim.total_clks, tuple(w_.get() for w_ in wires), tuple(getattr(o, a) for _, a, o in hidden))
        return marks, [list(c.data) for _, c in caps], rec.seen, sim.total_clks

    for i in range(n):
        r = rng.fork(i)
        wires, blocks = [], []
        w = r.choice([4, 8])
        onebit, wide = [], []
        for j in range(r.randint(1, 3)):
            wd = 1 if (j == 0 or r.chance(1, 2)) else w
            wires.append((f'p{j}', wd))
            (onebit if wd == 1 else wide).append(f'p{j}')
            blocks.append(('pulse', f'p{j}', r.randint(2, 6), 1 if wd == 1 else r.randint(1, (1 << w) - 1)))
        if r.chance(1, 2):
            wires.append(('reset', 1))
            onebit.append('reset')
            blocks.append(('autoreset', 'reset'))
        if r.chance(1, 2):
            wires.append(('code', w))
            wide.append('code')
            blocks.append(('moore', r.choice(onebit), 'code', r.randint(1, 5), r.choice([1, 3, 7])))
        for j in range(r.choice([0, 1, 1, 2])):
            wires.append((f'q{j}', w))
            blocks.append(('greg', r.choice(wide + onebit), f'q{j}', r.choice(onebit)))
        noisy = r.chance(1, 6)
        if noisy:
            wires.append(('s', w))
            blocks.append(('seq', 's', [r.randint(0, (1 << w) - 1) for _ in range(r.randint(1, 4))]))
        names = [nm for nm, _ in wires]
        for j in range(r.randint(1, 3)):
            blocks.append(('cap', r.choice(names)))
        for j in range(r.randint(1, 2)):
            blocks.append(('chk', r.choice(names)))
        spec = dict(wires=wires, blocks=blocks)
        inst = r.shuffle(range(len(blocks)))
        N = r.randint(4, 24)
        splits = [[N]]
        for _ in range(3):
            rest, sp = N, []
            while rest > 0:
                k = r.randint(1, rest)
                sp.append(k)
                rest -= k
                if r.chance(1, 5):
                    sp.append(0)
            splits.append(sp)
        try:
            with contextlib.redirect_stdout(io.StringIO()):
                py4hw.Wire.prepared = []
                ref = run(spec, inst, [1] * N)
                outs = [(sp, run(spec, inst, sp)) for sp in splits]
        except Exception as e:
            res.hist('simulation_errors', f'quiet:{type(e).__name__}:{str(e)[:40]}')
            continue
        res.count(('quiet', i, str(spec)), nontrivial=True, hist={'quiet_designs': 'with free-running Sequence' if noisy else 'silent edges possible'})
        summary = dict(design='prepare-on-change FSMs / AutoReset / Moore machines / monitors / gated registers', wires=wires, blocks=blocks,
                       inst_order=inst, cycles=N)
        ref_marks, ref_caps, ref_seen, ref_clks = ref
        src_of = {b[1]: b for b in blocks if b[0] in ('pulse', 'autoreset')}
        bad = None
        # absolute expectations on the single-cycle reference itself
        for c_, (clks, vals, hid) in ref_marks.items():
            for (nm, _), v in zip(wires, vals):
                b = src_of.get(nm)
                if b is not None and b[0] == 'pulse' and v != (b[3] if c_ % b[2] == 0 else 0):
                    bad = f'pulse generator {nm} (period {b[2]}) shows {v} after {c_} single-cycle edges'
                if b is not None and b[0] == 'autoreset' and v != (1 if c_ in (1, 2) else 0):
                    bad = f'AutoReset output is {v} after {c_} single-cycle edges'
            if clks != c_:
                bad = f'total_clks is {clks} after {c_} single-cycle calls'
        if any(len(c) != N for c in ref_caps):
            bad = f'a StreamCapture holds {[len(c) for c in ref_caps]} samples after {N} single-cycle edges'
        if bad:
            res.fail('an edge did not take place as specified (single-cycle run)', dict(summary, detail=bad))
            continue
        for sp, (marks, caps, seen, clks) in outs:
            for c_, st in marks.items():
                if ref_marks.get(c_) != st:
                    bad = (f'after the call that should end at cycle {c_}: (total_clks, wires {names}, hidden states) = {st}, '
                           f'with single-cycle calls {ref_marks.get(c_)}')
                    break
            if bad is None and caps != ref_caps:
                bad = f'captured streams {[c[:16] for c in caps]} (lengths {[len(c) for c in caps]}) differ from {[c[:16] for c in ref_caps]} (lengths {[len(c) for c in ref_caps]})'
            if bad is None and seen != ref_seen:
                bad = f'a simulator listener saw {len(seen)} notifications, {len(ref_seen)} with single-cycle calls'
            if bad is None and clks != ref_clks:
                bad = f'total_clks {clks} instead of {ref_clks}'
            if bad:
                res.fail('clk(n) differs from n single-cycle clk(1) calls (design with silent edges: no block prepares anything at some edge)',
                         dict(summary, splitting=sp, detail=bad))
                break
