"""C05 — Clock edges are atomic.  See DESIGN.md §5 C05 and lean/Py4hwV/Props/C05.lean."""
import ast, os
from common import *
import t1, gen_designs as G, dump_ir as D

OBLIGATIONS = ['C05.clockLeaf_val', 'C05.foldl_clockLeaf_eq', 'C05.clockDrivers_eq', 'C05.settle_perm',
               'C05.clkCycle_perm_indep', 'C05.leaf_sees_pre_edge', 'C05.unclocked_keeps_state',
               'C05.no_update_before_settle', 'C05.settle_exactly', 'C05.prepared_empty_after_cycle',
               'C05.clk_settled', 'C05.clk_split', 'C05.clk_eq_singles']
SEQ_CLASSES = ['Reg', 'Sequence', 'SynchronousMemory', 'AutoReset', 'UARTSerializer', 'UARTDeserializer', 'ClockSyncFSM',
               'MsgSequencer', 'CMDRequest', 'CMDResponse', 'Axi2ClkFSM', 'VitisKernelFSM']


def discipline_scan(res):
    """the theorem's leaf shape: a clock() method only prepares (never put(), never assigns a wire's .value).
    Scans every class with a clock() method in py4hw/logic and py4hw/emulation."""
    n = 0
    for sub in ('logic', 'emulation'):
        for root, _, files in os.walk(os.path.join(REPO, 'py4hw', sub)):
            for f in files:
                if not f.endswith('.py'):
                    continue
                p = os.path.join(root, f)
                try:
                    tree = ast.parse(open(p).read())
                except SyntaxError:
                    continue
                for c in ast.walk(tree):
                    if not isinstance(c, ast.ClassDef):
                        continue
                    for m in c.body:
                        if isinstance(m, ast.FunctionDef) and m.name == 'clock':
                            n += 1
                            for nd in ast.walk(m):
                                if isinstance(nd, ast.Call) and isinstance(nd.func, ast.Attribute) and nd.func.attr == 'put':
                                    res.disagree('discipline-scan', dict(file=os.path.relpath(p, REPO), cls=c.name, line=nd.lineno,
                                                                        what='clock() calls put(): the update is visible to blocks clocked later in the same edge'))
                                if isinstance(nd, (ast.Assign, ast.AugAssign)):
                                    for t in (nd.targets if isinstance(nd, ast.Assign) else [nd.target]):
                                        if isinstance(t, ast.Attribute) and t.attr == 'value' and isinstance(t.value, ast.Attribute):
                                            res.disagree('discipline-scan', dict(file=os.path.relpath(p, REPO), cls=c.name, line=nd.lineno,
                                                                                what='clock() assigns a wire value directly'))
    res.hist('discipline_scan', 'clock_methods', n)


def run_variant(plan, inst_order, ops_spec, perm_rng=None, split=False, res=None, nb=None, label=None):
    """build the plan, optionally permute clockables / drivers, run ops; returns the list of value vectors by WIRE NAME"""
    import py4hw
    sysobj, ins, W, leaves = G.build(plan, inst_order=inst_order)
    sim = sysobj.getSimulator()
    if perm_rng is not None:
        for drv in list(sim.clockDrivers):
            sim.clockDrivers[drv].clockables = perm_rng.shuffle(sim.clockDrivers[drv].clockables)
        items = perm_rng.shuffle(list(sim.clockDrivers.items()))
        sim.clockDrivers = dict(items)
    names = {nm: w for nm, w in ((w.name, w) for w in D.all_wires(sysobj))}
    ops = []
    for o in ops_spec:
        if o[0] == 'poke':
            ops.append(('poke', names[o[1]], o[2]))
        elif split and o[1] > 1:
            ops += [('clk', 1)] * o[1]
        else:
            ops.append(o)
    trace = []
    prepared_after = []

    def snap():
        trace.append({nm: w.value for nm, w in names.items()})
    if nb is not None:
        nb.add(sysobj, ops, sim=sim, label=label,
               extra_check=lambda d, s: prepared_after.append(len(py4hw.Wire.prepared)))
        snap()
        return trace, prepared_after, sim
    for o in ops:
        if o[0] == 'poke':
            o[1].put(o[2])
        else:
            sim.clk(o[1])
            prepared_after.append(len(py4hw.Wire.prepared))
            snap()
    return trace, prepared_after, sim


def reg_rule_variant(plan, inst_order, ops_spec, res, summary):
    """implementation-only oracle, independent of the model: at every single edge each plain register must end up with exactly the
    value the register rule yields from the wire values that held BEFORE the edge (reset value if r == 1, else d if there is no
    enable or e != 0, else unchanged; unchanged if its clock driver's enable was 0) -- no prepared update lost, altered or late"""
    import py4hw
    sysobj, ins, W, leaves = G.build(plan, inst_order=inst_order)
    sim = sysobj.getSimulator()
    regs = [l for l in sysobj.allLeaves() if type(l).__name__ == 'Reg']
    if not regs:
        return
    names = {w.name: w for w in D.all_wires(sysobj)}
    edge = 0
    for o in ops_spec:
        if o[0] == 'poke':
            names[o[1]].put(o[2])
            continue
        for _ in range(o[1]):
            sim.propagateAll()          # what clk() itself does first: the pre-edge values
            pre = []
            for lf in regs:
                drv = py4hw.getObjectClockDriver(lf)
                en = 1 if (drv is None or drv.enable is None) else drv.enable.get()
                pre.append((lf.d.get(), None if lf.e is None else lf.e.get(), None if lf.r is None else lf.r.get(), lf.q.get(), en))
            sim.clk(1)
            edge += 1
            for lf, (d, e, r_, q0, en) in zip(regs, pre):
                mask = (1 << lf.q.getWidth()) - 1
                if en == 0:
                    want = q0
                elif r_ is not None and r_ == 1:
                    want = lf.reset_value & mask
                elif e is None or e != 0:
                    want = d & mask
                else:
                    want = q0
                if lf.q.get() != want:
                    res.fail('a register does not hold the value the register rule yields from the pre-edge wires: a prepared update was lost, altered or delayed',
                             dict(summary, register=lf.getFullPath(), edge=edge, pre_edge=dict(d=d, e=e, r=r_, q=q0, driver_enable=en),
                                  reset_value=lf.reset_value, observed_q=lf.q.get(), expected_q=want))
                    return


def main(res, tier, rng, replay):
    ok, metas, errors, changed = regenerate()
    for e in errors:
        res.broken.append(('translator', 'py2lean', e))
    res.proof_stage('Py4hwV.Props.C05', OBLIGATIONS)
    discipline_scan(res)
    if ok:
        try:
            t1.validate_generated(res, rng.fork('t1'), 30 if tier == 'quick' else 300, classes=SEQ_CLASSES)
        except ToolFailure as e:
            res.broken.append(('correspondence', 'T1', f'generated definitions do not run: {e}'))
    n_designs = 160 if tier == 'quick' else 2500
    nb = D.NetBatch(res, 'net-sim-permuted')
    for i in range(n_designs):
        r = rng.fork(('d', i))
        plan = G.reg_chain_plan(r) if i % 3 == 2 else G.random_plan(r, r.randint(2, 24), seq_ratio=(1, 2), wmax=r.choice([2, 4, 8, 16]), n_domains=r.choice([0, 1, 2, 3]),
                             kinds=['And2', 'Or2', 'Not', 'Buf', 'Mux2', 'Sub', 'AddCarryIn', 'Constant', 'Bit', 'Reg', 'Sequence',
                                    'SynchronousMemory', 'AutoReset', 'ShiftRightConstant'])
        nseq = sum(1 for nd in plan['nodes'] if nd['kind'] in G.SEQ)
        order = r.shuffle(range(len(plan['nodes'])))
        # op list as data (wire names) so that it can be replayed on several builds
        try:
            sysobj, ins, W, leaves = G.build(plan, inst_order=order)
        except Exception as e:
            res.hist('build_errors', str(e)[:50])
            continue
        ops_spec = [(o[0], o[1].name, o[2]) if o[0] == 'poke' else o for o in G.random_ops(r, ins, r.randint(4, 16))]
        summary = dict(plan=G.plan_summary(plan), inst_order=order, ops=ops_spec)
        try:
            tA, pA, simA = run_variant(plan, order, ops_spec)
            tB, pB, simB = run_variant(plan, order, ops_spec, perm_rng=r.fork('perm'))
            tC, pC, simC = run_variant(plan, order, ops_spec, split=True)
        except Exception as e:
            res.hist('simulation_errors', f'{type(e).__name__}:{str(e)[:40]}')
            continue
        try:
            # model comparison on a permuted visiting order (the model takes the drivers list from the real simulator)
            run_variant(plan, order, ops_spec, perm_rng=r.fork('perm2'), nb=nb, label=i)
        except D.NotDumpable:
            res.hist('not_dumpable', 'design')   # a leaf class the translator could not translate: the oracle below still runs
        res.count(('design', i, str(summary)), nontrivial=nseq >= 2, hist={'seq_leaves': min(nseq, 10)})
        if i < 2:
            res.sample(summary)
        if tA != tB:
            step = next(j for j in range(len(tA)) if tA[j] != tB[j])
            diff = {k: (tA[step][k], tB[step][k]) for k in tA[step] if tA[step][k] != tB[step][k]}
            res.fail('post-edge state depends on the order in which the simulator visits the sequential blocks',
                     dict(summary, after_clk_number=step, differing_wires=diff))
        # splitting: compare the final states and the states at matching cycle counts
        if tA[-1] != tC[-1] or simA.total_clks != simC.total_clks:
            diff = {k: (tA[-1][k], tC[-1][k]) for k in tA[-1] if tA[-1][k] != tC[-1][k]}
            res.fail('clk(n) differs from n single-cycle clk(1) calls', dict(summary, differing_wires=diff,
                                                                             total_clks=(simA.total_clks, simC.total_clks)))
        try:
            reg_rule_variant(plan, order, ops_spec, res, summary)
        except Exception as e:
            res.hist('simulation_errors', f'regrule:{type(e).__name__}:{str(e)[:40]}')
        if any(pA) or any(pC):
            res.fail('Wire.prepared not empty after clk(): a prepared update was carried over', dict(summary, prepared=pA))
        if len(nb.jobs) >= 150:
            try:
                nb.run()
            except ToolFailure as e:
                res.broken.append(('correspondence', 'net-sim-permuted', str(e)[:300]))
                nb = D.NetBatch(res, 'net-sim-permuted')
    try:
        nb.run()
    except ToolFailure as e:
        res.broken.append(('correspondence', 'net-sim-permuted', str(e)[:300]))
    res.cov['rule'] = ('seeded random netlists with register chains/feedback, memories, sequences, AutoReset; each built 4 times from the same '
                       'plan: reference, externally permuted clockables+driver order, clk(n) split into clk(1), and a permuted run compared '
                       'wire-for-wire with the Lean model; non-trivial = at least 2 sequential leaves; oracle on the implementation: permuted == '
                       'reference at every clk, split == reference, Wire.prepared empty after clk, total_clks equal')
    res.assumptions += ['leaf clock() methods only prepare() (scan of every clock() in py4hw/logic and py4hw/emulation)',
                        'clk_split uses PropIdem (propagateAll idempotent), which C04 proves for stateless leaves in topological order; '
                        'Latch/AsynchronousMemory mutate state in propagate() and are outside that hypothesis',
                        'each sequential block drives wires no other sequential block drives (C11 single-driver invariant)']


if __name__ == '__main__':
    main_wrapper('C05', main)
