"""C05 — Clock edges are atomic.  See DESIGN.md §5 C05 and lean/Py4hwV/Props/C05.lean."""
import ast, os
from common import *
import t1, gen_designs as G, dump_ir as D
import c05_edge as E

OBLIGATIONS = ['C05.clockLeaf_val', 'C05.foldl_clockLeaf_eq', 'C05.clockDrivers_eq', 'C05.settle_perm',
               'C05.clkCycle_perm_indep', 'C05.leaf_sees_pre_edge', 'C05.unclocked_keeps_state',
               'C05.no_update_before_settle', 'C05.settle_exactly', 'C05.prepared_empty_after_cycle',
               'C05.clk_settled', 'C05.clk_split', 'C05.clk_eq_singles',
               # Props/C05Edge.lean: duplicates in the pending list, shared lines, silent edges, cycle counter, all splittings
               'C05.foldl_nstep_last', 'C05.lastFor_none_iff', 'C05.settleAll_prepares', 'C05.settleAll_prepares_empty',
               'C05.settleAll_prepares_st', 'C05.commitModel_eq_spec', 'C05.gen_bidir_prepare_eq', 'C05.gen_bidir_prepare_eq_wire',
               'Net.gen_wire_prepare_eq', 'Net.prepVal_eq',
               'C05.edge_commit', 'C05.edge_commit_empty', 'C05.sharedOK_of_disjoint', 'C05.settle_perm_shared',
               'C05.clkCycle_perm_indep_shared', 'C05.shared_line_conflict_counterexample', 'C05.silent_edge', 'C05.clkCycle_clks',
               'C05.clk_clks', 'C05.clk_pieces', 'C05.clk_pieces_cons', 'C05.applyOp_clk_pieces', 'C05.clk_pieces_eq',
               'C05.autoReset_second_edge_silent',
               # Simulator.clk with stop() requested from inside clock()
               'C05.clkLoop_eq_iter', 'C05.clkS_eq_clk', 'C05.execCount_le', 'C05.execCount_pos', 'C05.execCount_full',
               'C05.execCount_stop', 'C05.clkS_no_stop', 'C05.clkS_resume']
SEQ_CLASSES = ['Reg', 'Sequence', 'SynchronousMemory', 'AutoReset', 'UARTSerializer', 'UARTDeserializer', 'ClockSyncFSM',
               'MsgSequencer', 'CMDRequest', 'CMDResponse', 'Axi2ClkFSM', 'VitisKernelFSM']


def discipline_scan(res):
    """the theorem's leaf shape: a clock() method only prepares (never put(), never assigns a wire's .value).
    Scans every class with a clock() method in py4hw/logic and py4hw/emulation."""
    n = 0
    for sub in ('logic', 'emulation'):
        for root, _, files in os.walk(os.path.join(REPO, 'py4hw', sub)):
            for f in files:
                if not f.endswith('.py'):
                    continue
                p = os.path.join(root, f)
                try:
                    tree = ast.parse(open(p).read())
                except SyntaxError:
                    continue
                for c in ast.walk(tree):
                    if not isinstance(c, ast.ClassDef):
                        continue
                    for m in c.body:
                        if isinstance(m, ast.FunctionDef) and m.name == 'clock':
                            n += 1
                            for nd in ast.walk(m):
                                if isinstance(nd, ast.Call) and isinstance(nd.func, ast.Attribute) and nd.func.attr == 'put':
                                    res.disagree('discipline-scan', dict(file=os.path.relpath(p, REPO), cls=c.name, line=nd.lineno,
                                                                        what='clock() calls put(): the update is visible to blocks clocked later in the same edge'))
                                if isinstance(nd, (ast.Assign, ast.AugAssign)):
                                    for t in (nd.targets if isinstance(nd, ast.Assign) else [nd.target]):
                                        if isinstance(t, ast.Attribute) and t.attr == 'value' and isinstance(t.value, ast.Attribute):
                                            res.disagree('discipline-scan', dict(file=os.path.relpath(p, REPO), cls=c.name, line=nd.lineno,
                                                                                what='clock() assigns a wire value directly'))
    res.hist('discipline_scan', 'clock_methods', n)


def run_variant(plan, inst_order, ops_spec, perm_rng=None, split=False, res=None, nb=None, label=None):
    """build the plan, optionally permute clockables / drivers, run ops; returns the list of value vectors by WIRE NAME"""
    import py4hw
    sysobj, ins, W, leaves = G.build(plan, inst_order=inst_order)
    sim = sysobj.getSimulator()
    if perm_rng is not None:
        for drv in list(sim.clockDrivers):
            sim.clockDrivers[drv].clockables = perm_rng.shuffle(sim.clockDrivers[drv].clockables)
        items = perm_rng.shuffle(list(sim.clockDrivers.items()))
        sim.clockDrivers = dict(items)
    names = {nm: w for nm, w in ((w.name, w) for w in D.all_wires(sysobj))}
    ops = []
    for o in ops_spec:
        ops.append(('poke', names[o[1]], o[2]) if o[0] == 'poke' else o)
    trace = []
    prepared_after = []

    def snap():
        trace.append(dict({nm: w.value for nm, w in names.items()}, **{'<total_clks>': sim.total_clks}))
    if nb is not None:
        nb.add(sysobj, ops, sim=sim, label=label,
               extra_check=lambda d, s: prepared_after.append(len(py4hw.Wire.prepared)))
        snap()
        return trace, prepared_after, sim
    for o in ops:
        if o[0] == 'poke':
            o[1].put(o[2])
        else:
            # split: the same n cycles as n single-cycle calls; one snapshot per op in both variants
            for k_ in ([1] * o[1] if split else [o[1]]):
                sim.clk(k_)
                prepared_after.append(len(py4hw.Wire.prepared))
            snap()
    return trace, prepared_after, sim


def quiet_plan(r):
    """a plan in which every always-preparing block (Reg, Sequence, memory) sits under its own gated clock driver whose enable is a
    1-bit primary input (0 at power-up, poked during the run); AutoReset -- silent at its second edge -- stays ungated.  At many
    edges no block at all calls prepare()."""
    plan = G.random_plan(r, r.randint(2, 12), seq_ratio=(1, 2), wmax=r.choice([2, 4, 8]), n_domains=r.choice([0, 1]),
                         kinds=['And2', 'Or2', 'Not', 'Buf', 'Mux2', 'Constant', 'Bit', 'Reg', 'Sequence', 'SynchronousMemory', 'AutoReset'])
    gates = []
    for g in range(r.randint(1, 2)):
        gates.append(len(plan['inputs']))
        plan['inputs'].append((f'gate{g}', 1))
    has_ar = False
    for nd in plan['nodes']:
        if nd['kind'] == 'AutoReset':
            nd['dom'] = 0
            nd.pop('own_driver', None)
            has_ar = True
        elif nd['kind'] in G.SEQ:
            nd['own_driver'] = ('in', r.choice(gates))
    if not has_ar or r.chance(1, 2):
        plan['nodes'].append({'kind': 'AutoReset', 'name': f"n{len(plan['nodes'])}", 'ins': [], 'outw': [1], 'params': {}, 'dom': 0})
    return plan


def reg_rule_variant(plan, inst_order, ops_spec, res, summary):
    """implementation-only oracle, independent of the model: at every single edge each plain register must end up with exactly the
    value the register rule yields from the wire values that held BEFORE the edge (reset value if r == 1, else d if there is no
    enable or e != 0, else unchanged; unchanged if its clock driver's enable was 0) -- no prepared update lost, altered or late"""
    import py4hw
    sysobj, ins, W, leaves = G.build(plan, inst_order=inst_order)
    sim = sysobj.getSimulator()
    regs = [l for l in sysobj.allLeaves() if type(l).__name__ == 'Reg']
    if not regs:
        return
    names = {w.name: w for w in D.all_wires(sysobj)}
    edge = 0
    for o in ops_spec:
        if o[0] == 'poke':
            names[o[1]].put(o[2])
            continue
        for _ in range(o[1]):
            sim.propagateAll()          # what clk() itself does first: the pre-edge values
            pre = []
            for lf in regs:
                drv = py4hw.getObjectClockDriver(lf)
                en = 1 if (drv is None or drv.enable is None) else drv.enable.get()
                pre.append((lf.d.get(), None if lf.e is None else lf.e.get(), None if lf.r is None else lf.r.get(), lf.q.get(), en))
            sim.clk(1)
            edge += 1
            for lf, (d, e, r_, q0, en) in zip(regs, pre):
                mask = (1 << lf.q.getWidth()) - 1
                if en == 0:
                    want = q0
                elif r_ is not None and r_ == 1:
                    want = lf.reset_value & mask
                elif e is None or e != 0:
                    want = d & mask
                else:
                    want = q0
                if lf.q.get() != want:
                    res.fail('a register does not hold the value the register rule yields from the pre-edge wires: a prepared update was lost, altered or delayed',
                             dict(summary, register=lf.getFullPath(), edge=edge, pre_edge=dict(d=d, e=e, r=r_, q=q0, driver_enable=en),
                                  reset_value=lf.reset_value, observed_q=lf.q.get(), expected_q=want))
                    return


def user_seq_stream(res, rng, n, batch=None):
    """user-defined sequential leaves (the property speaks about every sequential block, not only the library's):
    * Moore FSMs that advance an internal state in clock() and decode their outputs in propagate() (no prepare at all on edges where
      nothing else changes), feeding enable-gated register chains and a StreamCapture;
    * a leaf that calls Simulator.stop() from inside clock() at chosen edges (a breakpoint block): the edge in progress must complete
      and the run must be resumable.
    Oracle (implementation only): for several splittings of the same N cycles into clk(n) calls -- resuming after every stop() -- the
    wire values at every common cycle count, the captured stream and the final state equal those of N single clk(1) calls."""
    import py4hw, contextlib, io
    from py4hw.logic.simulation import StreamCapture

    class Moore(py4hw.Logic):
        def __init__(self, parent, name, go, code, busy, period, mul):
            super().__init__(parent, name)
            self.go = self.addIn('go', go)
            self.code = self.addOut('code', code)
            self.busy = self.addOut('busy', busy)
            self.state, self.period, self.mul = 0, period, mul

        def clock(self):
            if self.state == 0:
                if self.go.get() & 1:
                    self.state = 1
            elif self.state >= self.period:
                self.state = 0
            else:
                self.state += 1

        def propagate(self):
            self.code.put(self.state * self.mul)
            self.busy.put(1 if self.state != 0 else 0)

    class Stopper(py4hw.Logic):
        def __init__(self, parent, name, a, cnt, stops, simref, noisy, peek=False):
            super().__init__(parent, name)
            self.a = self.addIn('a', a)
            self.cnt = self.addOut('cnt', cnt)
            self.count, self.stops, self.simref, self.noisy, self.fired = 0, set(stops), simref, noisy, 0
            self.peek, self.hwref, self.seen_clks = peek, parent, 0

        def clock(self):
            self.count += 1
            if self.noisy:
                self.cnt.prepare(self.count + self.a.get())
            if self.peek:
                self.seen_clks = self.hwref.getSimulator().total_clks     # a monitor that looks up the simulator during the edge
            if self.count in self.stops:
                self.fired += 1
                self.simref[0].stop()          # request to stop after this edge

    def build(spec):
        hw = py4hw.HWSystem()
        go = hw.wire('go')
        w = spec['w']
        code, busy = hw.wire('code', w), hw.wire('busy')
        qs = [hw.wire(f'q{k}', w) for k in range(spec['chain'])]
        cnt = hw.wire('cnt', w)
        simref = [None]
        if spec['go_seq']:
            py4hw.Sequence(hw, 'go', spec['go_seq'], go)
        else:
            py4hw.Constant(hw, 'go', 1, go)
        Moore(hw, 'fsm', go, code, busy, spec['period'], spec['mul'])
        prev = code
        for k, q in enumerate(qs):
            py4hw.Reg(hw, f'r{k}', prev, q, enable=busy if spec['en'][k] else None)
            prev = q
        cap = StreamCapture(hw, 'cap', prev)
        stp = Stopper(hw, 'stp', qs[0], cnt, spec['stops'], simref, spec['noisy'], peek=spec.get('peek', False))
        sim = hw.getSimulator()
        simref[0] = sim
        return hw, sim, [code, busy, cnt] + qs, cap, stp

    class Rec:
        """a listener: the simulator notifies it after EVERY edge, also inside a multi-cycle call"""
        def __init__(self, sim, wires):
            self.sim, self.wires, self.seen = sim, wires, []

        def simulatorUpdated(self):
            self.seen.append((self.sim.total_clks,) + tuple(w_.get() for w_ in self.wires))

    def run(spec, splitting):
        hw, sim, wires, cap, stp = build(spec)
        rec = Rec(sim, wires)
        sim.addListener(rec)
        marks = {}
        calls = []
        for n in splitting:
            if n == 0:
                c0 = sim.total_clks
                sim.clk(0)          # an empty piece of the splitting: no edge, no state change
                calls.append((0, sim.total_clks - c0, 0))
                continue
            target = sim.total_clks + n
            guard = 0
            while sim.total_clks < target and guard < 4 * n + 8:
                k, c0, f0 = target - sim.total_clks, sim.total_clks, stp.fired
                sim.clk(k)      # resumes after a stop() requested from inside clock()
                calls.append((k, sim.total_clks - c0, stp.fired - f0))
                guard += 1
            marks[sim.total_clks] = tuple(w_.get() for w_ in wires)
        return marks, list(cap.data), sim.total_clks, rec.seen, calls

    stop_lines, stop_obs = [], []
    for i in range(n):
        r = rng.fork(i)
        N = r.randint(4, 24)
        chain = r.randint(1, 3)
        spec = dict(w=r.choice([4, 8]), chain=chain, period=r.randint(1, 6), mul=r.choice([1, 3, 7]),
                    en=[r.chance(2, 3) for _ in range(chain)],
                    go_seq=[] if r.chance(1, 2) else [r.randint(0, 1) for _ in range(r.randint(1, 5))],
                    stops=sorted({r.randint(1, N) for _ in range(r.choice([0, 1, 2, 3]))}),
                    noisy=r.chance(1, 3), peek=r.fork('peek').chance(1, 2))
        splits = [[N]]
        for _ in range(3):
            rest, sp = N, []
            while rest > 0:
                k = r.randint(1, rest)
                sp.append(k)
                rest -= k
                if r.chance(1, 4):
                    sp.append(0)
            splits.append(sp)
        try:
            with contextlib.redirect_stdout(io.StringIO()):
                # reference: single-cycle calls and a breakpoint block that never fires
                ref_marks, ref_cap, ref_clks, ref_seen, _ = run(dict(spec, stops=[], peek=False), [1] * N)
                outs = [(sp, run(dict(spec), sp)) for sp in splits]
        except Exception as e:
            res.hist('simulation_errors', f'userseq:{type(e).__name__}:{str(e)[:40]}')
            continue
        res.count(('userseq', i, str(spec)), nontrivial=True, hist={'user_seq_stops': len(spec['stops'])})
        for sp, (marks, cap, clks, seen, calls) in outs:
            # model of Simulator.clk with stop() (C05.clkS): the cycle counter after every call of this run
            after, c_ = [], 0
            for (_, done, _) in calls:
                c_ += done
                after.append(c_)
            stop_lines.append('stoprun|' + ','.join(map(str, spec['stops'])) + '|0|' + ','.join(str(a) for a, _, _ in calls))
            stop_obs.append((spec['stops'], [a for a, _, _ in calls], after))
            bad = None
            for (asked, done, fired) in calls:
                # a call with k >= 1 cycles simulates at least one edge, and all k of them unless stop() was requested DURING that call
                if asked == 0:
                    if done != 0:
                        bad = f'a clk(0) call simulated {done} edges'
                        break
                    continue
                if done < 1 or (fired == 0 and done != asked):
                    bad = (f'a clk({asked}) call simulated {done} edges although {fired} stop() requests were made during it '
                           '(a stop request was carried over to a later call, or cycles were lost)')
                    break
            if bad is None and seen != ref_seen:
                k_ = next((j for j in range(min(len(seen), len(ref_seen))) if seen[j] != ref_seen[j]), min(len(seen), len(ref_seen)))
                bad = (f'a simulator listener saw {len(seen)} notifications, {len(ref_seen)} with single-cycle calls; first difference at '
                       f'notification {k_}: {seen[k_] if k_ < len(seen) else None} vs {ref_seen[k_] if k_ < len(ref_seen) else None} '
                       '(clk count, code, busy, cnt, q..)')
            if bad is not None:
                pass
            elif clks != ref_clks:
                bad = f'{clks} edges were simulated instead of {ref_clks}'
            else:
                for c, st in marks.items():
                    if ref_marks.get(c) != st:
                        bad = f'after {c} edges the wires (code,busy,cnt,q..) are {st}, with single-cycle calls {ref_marks.get(c)}'
                        break
                if bad is None and cap != ref_cap:
                    bad = f'captured stream {cap[:12]} differs from {ref_cap[:12]}'
            if bad:
                res.fail('clk(n) differs from n single-cycle clk(1) calls (user-defined sequential leaves, stop() from inside clock())',
                         dict(design='Moore FSM -> enable-gated Reg chain -> StreamCapture, Stopper leaf', spec=spec, splitting=sp, detail=bad))
                break

    def check_stop_model(out):
        n_dis = 0
        for (stops, asked, after), ans in zip(stop_obs, out):
            if ans is not None and ans.strip() != ','.join(map(str, after)) and n_dis < 3:
                n_dis += 1
                res.disagree('stop-model', dict(stop_requested_at_edges=stops, clk_calls=asked, total_clks_after_each_call_python=after,
                                                lean=ans))
        res.hist('stop_model_runs', 'compared', len(stop_obs))
    if batch is not None:
        batch.add(stop_lines, check_stop_model)


def asyncmem_stream(res, rng, n):
    """AsynchronousMemory (a propagatable block with state) feeding registers: read/write addresses, write enable and data from
    sequences; clk(N) against N x clk(1) and a random splitting.  Case 0 is the former witness of C05-asyncmem-read-before-write
    (fixed in /repo 2897ec7): a recurrence is a violation."""
    import py4hw, contextlib, io
    from py4hw.logic.storage import AsynchronousMemory

    def build(spec):
        hw = py4hw.HWSystem()
        ra, wa, we = hw.wire('ra', 2), hw.wire('wa', 2), hw.wire('we')
        wd, rd, q, q2 = hw.wire('wd', 8), hw.wire('rd', 8), hw.wire('q', 8), hw.wire('q2', 8)
        py4hw.Sequence(hw, 'ra', spec['ra'], ra)
        py4hw.Sequence(hw, 'wa', spec['wa'], wa)
        py4hw.Sequence(hw, 'we', spec['we'], we)
        py4hw.Sequence(hw, 'wd', spec['wd'], wd)
        AsynchronousMemory(hw, 'm', ra, wa, we, rd, wd)
        py4hw.Reg(hw, 'r', rd, q)
        py4hw.Reg(hw, 'r2', q, q2)
        return hw.getSimulator(), (rd, q, q2)

    for i in range(n):
        r = rng.fork(i)
        if i == 0:
            spec, N = dict(ra=[1], wa=[1], we=[1], wd=[5, 6, 7, 8, 9]), 4
        else:
            same = r.chance(1, 2)
            a = [r.randint(0, 3) for _ in range(r.randint(1, 4))]
            spec = dict(ra=a, wa=a if same else [r.randint(0, 3) for _ in range(r.randint(1, 4))],
                        we=[r.randint(0, 1) for _ in range(r.randint(1, 3))] if r.chance(1, 2) else [1],
                        wd=[r.randint(0, 255) for _ in range(r.randint(1, 6))])
            N = r.randint(2, 12)
        rest, sp = N, []
        while rest > 0:
            k = r.randint(1, rest)
            sp.append(k)
            rest -= k
        outs = []
        with contextlib.redirect_stdout(io.StringIO()):
            for split in ([N], [1] * N, sp):
                sim, ws = build(spec)
                for k in split:
                    sim.clk(k)
                outs.append((split, tuple(w.get() for w in ws)))
        res.count(('asyncmem', i, str(spec), N), nontrivial=True, hist={'asyncmem_same_address': int(spec['ra'] == spec['wa'])})
        if len({o[1] for o in outs}) != 1:
            res.fail('clk(n) differs from n single-cycle clk(1) calls (AsynchronousMemory feeding registers)',
                     dict(design='Sequences -> AsynchronousMemory -> Reg -> Reg', spec=spec, cycles=N,
                          results=[dict(splitting=o[0], rd_q_q2=list(o[1])) for o in outs],
                          note='regression of C05-asyncmem-read-before-write (fixed in 2897ec7)' if i == 0 else ''))


def memory_stream(res, rng, n):
    """synchronous memories (single and dual port) against the pre-edge rule: at every edge every read port registers the content
    its cell held BEFORE the edge -- whatever any port writes on that edge -- and then the writes land (port b after port a on a
    collision); read data is followed through a register.  Inputs are poked before each single edge; golden model in the harness."""
    import py4hw, contextlib, io
    from py4hw.logic.storage import SynchronousMemory, DualPortSynchronousMemory
    for i in range(n):
        r = rng.fork(i)
        dual = r.chance(2, 3)
        aw, dw = r.randint(1, 3), r.choice([1, 4, 8])
        hw = py4hw.HWSystem()
        mk = lambda nm, w: hw.wire(nm, w)
        ports = 'ab' if dual else 'a'
        W = {}
        for pch in ports:
            W[pch] = dict(ra=mk(f'ra_{pch}', aw), wa=mk(f'wa_{pch}', aw), we=mk(f'we_{pch}', 1), rd=mk(f'rd_{pch}', dw), wd=mk(f'wd_{pch}', dw),
                          q=mk(f'q_{pch}', dw))
        with contextlib.redirect_stdout(io.StringIO()):
            if dual:
                a, b = W['a'], W['b']
                DualPortSynchronousMemory(hw, 'm', a['ra'], a['wa'], a['we'], a['rd'], a['wd'], b['ra'], b['wa'], b['we'], b['rd'], b['wd'])
            else:
                a = W['a']
                SynchronousMemory(hw, 'm', a['ra'], a['wa'], a['we'], a['rd'], a['wd'])
            for pch in ports:
                py4hw.Reg(hw, f'r_{pch}', W[pch]['rd'], W[pch]['q'])
            sim = hw.getSimulator()
        mem = [0] * (1 << aw)
        rd = {pch: 0 for pch in ports}
        q = {pch: 0 for pch in ports}
        hist = []
        few = [r.randint(0, (1 << aw) - 1) for _ in range(2)]       # few addresses: collisions are the interesting case
        for t in range(r.randint(4, 20)):
            stim = {}
            for pch in ports:
                stim[pch] = dict(ra=r.choice(few), wa=r.choice(few), we=r.randint(0, 1), wd=r.bits(dw))
                for k_, v_ in stim[pch].items():
                    W[pch][k_].put(v_)
            hist.append(stim)
            sim.clk(1)
            nq = dict(rd)
            nrd = {pch: mem[stim[pch]['ra']] for pch in ports}
            for pch in ports:
                if stim[pch]['we']:
                    mem[stim[pch]['wa']] = stim[pch]['wd']
            rd, q = nrd, nq
            got = {pch: (W[pch]['rd'].get(), W[pch]['q'].get()) for pch in ports}
            want = {pch: (rd[pch], q[pch]) for pch in ports}
            if got != want:
                res.fail('a memory read port did not register the pre-edge content of its cell (or the value was not carried to the next stage)',
                         dict(design=('DualPortSynchronousMemory' if dual else 'SynchronousMemory') + ' -> Reg per port', aw=aw, dw=dw,
                              history=hist, edge=t + 1, observed_rd_q=got, expected_rd_q=want))
                break
        res.count(('mem', i, dual, aw, dw), nontrivial=True, hist={'memory_designs': 'dual' if dual else 'single'})


def bidir_prepare_stream(res, rng, n):
    """a shared bidirectional line (BidirWire) driven from clock() with prepare() at every edge next to ordinary wires prepared at the same
    edge: every prepared update -- the first and every later one -- must become visible at its edge, none lost or carried over"""
    import py4hw, contextlib, io

    class LineDrv(py4hw.Logic):
        def __init__(self, parent, name, line, plain, k):
            super().__init__(parent, name)
            self.line = self.addInOut('line', line)
            self.plain = self.addOut('plain', plain)
            self.k, self.n = k, 0

        def clock(self):
            self.n += 1
            self.line.prepare(self.n * self.k)
            self.plain.prepare(self.n * self.k + 1)

    for i in range(n):
        r = rng.fork(i)
        w, k = r.randint(2, 9), r.choice([1, 3, 5, 7])
        hw = py4hw.HWSystem()
        line, plain, q = hw.bidir_wire('line', w), hw.wire('plain', w), hw.wire('q', w)
        LineDrv(hw, 'drv', line, plain, k)
        py4hw.Reg(hw, 'r', plain, q)
        with contextlib.redirect_stdout(io.StringIO()):
            sim = hw.getSimulator()
        m = (1 << w) - 1
        done = 0
        steps = []
        for t in range(r.randint(2, 8)):
            c = r.choice([1, 1, 2, 3])
            steps.append(c)
            sim.clk(c)
            done += c
            got = (line.get(), plain.get(), q.get())
            want = ((done * k) & m, (done * k + 1) & m, (((done - 1) * k + 1) & m) if done > 1 else 0)
            if got != want or len(py4hw.Wire.prepared) != 0:
                res.fail('a prepared update of a bidirectional line was lost, delayed or carried over',
                         dict(design='LineDrv(clock: line.prepare(n*k); plain.prepare(n*k+1)) -> Reg', width=w, k=k, clk_calls=steps,
                              edges=done, observed_line_plain_q=got, expected_line_plain_q=want, prepared_left=len(py4hw.Wire.prepared)))
                break
        res.count(('bidirprep', i, w, k, tuple(steps)), nontrivial=True, hist={'bidir_prepare_designs': 1})


def main(res, tier, rng, replay):
    import time
    t_last = [time.time()]

    def lap(stage):
        res.hist('wall_s_by_stage', stage, round(time.time() - t_last[0]))
        t_last[0] = time.time()
    ok, metas, errors, changed = regenerate()
    for e in errors:
        res.broken.append(('translator', 'py2lean', e))
    res.proof_stage('Py4hwV.Props.C05Edge', OBLIGATIONS)   # imports Props/C05
    lap('regenerate+build+audit')
    discipline_scan(res)
    if ok:
        try:
            t1.validate_generated(res, rng.fork('t1'), 30 if tier == 'quick' else 300, classes=SEQ_CLASSES)
        except ToolFailure as e:
            res.broken.append(('correspondence', 'T1', f'generated definitions do not run: {e}'))
    lap('t1')
    n_designs = 160 if tier == 'quick' else 2500
    nb = D.NetBatch(res, 'net-sim-permuted')
    for i in range(n_designs):
        r = rng.fork(('d', i))
        quiet = i % 8 == 5
        plan = quiet_plan(r) if quiet else G.reg_chain_plan(r) if i % 3 == 2 else G.random_plan(r, r.randint(2, 24), seq_ratio=(1, 2), wmax=r.choice([2, 4, 8, 16]), n_domains=r.choice([0, 1, 2, 3]),
                             kinds=['And2', 'Or2', 'Not', 'Buf', 'Mux2', 'Sub', 'AddCarryIn', 'Constant', 'Bit', 'Reg', 'Sequence',
                                    'SynchronousMemory', 'AutoReset', 'ShiftRightConstant'] + (['AsynchronousMemory'] if i % 4 == 1 else []))
        nseq = sum(1 for nd in plan['nodes'] if nd['kind'] in G.SEQ)
        order = r.shuffle(range(len(plan['nodes'])))
        # op list as data (wire names) so that it can be replayed on several builds
        try:
            sysobj, ins, W, leaves = G.build(plan, inst_order=order)
        except Exception as e:
            res.hist('build_errors', str(e)[:50])
            continue
        ops_spec = [(o[0], o[1].name, o[2]) if o[0] == 'poke' else o for o in G.random_ops(r, ins, r.randint(4, 16))]
        if quiet:
            # a multi-cycle call from power-up (all gates 0: AutoReset's silent second edge is not the last edge of the call)
            ops_spec = [('clk', r.randint(3, 6))] + ops_spec
            res.hist('quiet_plans', 'designs')
        summary = dict(plan=G.plan_summary(plan), inst_order=order, ops=ops_spec)
        try:
            tA, pA, simA = run_variant(plan, order, ops_spec)
            tB, pB, simB = run_variant(plan, order, ops_spec, perm_rng=r.fork('perm'))
            tC, pC, simC = run_variant(plan, order, ops_spec, split=True)
        except Exception as e:
            res.hist('simulation_errors', f'{type(e).__name__}:{str(e)[:40]}')
            continue
        try:
            # model comparison on a permuted visiting order (the model takes the drivers list from the real simulator)
            run_variant(plan, order, ops_spec, perm_rng=r.fork('perm2'), nb=nb, label=i)
        except D.NotDumpable:
            res.hist('not_dumpable', 'design')   # a leaf class the translator could not translate: the oracle below still runs
        res.count(('design', i, str(summary)), nontrivial=nseq >= 2, hist={'seq_leaves': min(nseq, 10)})
        if i < 2:
            res.sample(summary)
        if tA != tB:
            step = next(j for j in range(len(tA)) if tA[j] != tB[j])
            diff = {k: (tA[step][k], tB[step][k]) for k in tA[step] if tA[step][k] != tB[step][k]}
            res.fail('post-edge state depends on the order in which the simulator visits the sequential blocks',
                     dict(summary, after_clk_number=step, differing_wires=diff))
        # splitting: the states (wires and cycle counter) after EVERY clk op, not only the final one
        if tA != tC or simA.total_clks != simC.total_clks:
            step = next((j for j in range(min(len(tA), len(tC))) if tA[j] != tC[j]), min(len(tA), len(tC)) - 1)
            diff = {k: (tA[step][k], tC[step][k]) for k in tA[step] if tA[step][k] != tC[step][k]}
            res.fail('clk(n) differs from n single-cycle clk(1) calls', dict(summary, after_clk_number=step, differing_wires=diff,
                                                                             total_clks=(simA.total_clks, simC.total_clks)))
        try:
            reg_rule_variant(plan, order, ops_spec, res, summary)
        except Exception as e:
            res.hist('simulation_errors', f'regrule:{type(e).__name__}:{str(e)[:40]}')
        if any(pA) or any(pC):
            res.fail('Wire.prepared not empty after clk(): a prepared update was carried over', dict(summary, prepared=pA))
        if len(nb.jobs) >= 150:
            try:
                nb.run()
            except ToolFailure as e:
                res.broken.append(('correspondence', 'net-sim-permuted', str(e)[:300]))
                nb = D.NetBatch(res, 'net-sim-permuted')
    try:
        nb.run()
    except ToolFailure as e:
        res.broken.append(('correspondence', 'net-sim-permuted', str(e)[:300]))
    lap('netlist designs + model session')
    batch = E.Batch(res)
    user_seq_stream(res, rng.fork('userseq'), 60 if tier == 'quick' else 1500, batch)
    asyncmem_stream(res, rng.fork('asyncmem'), 60 if tier == 'quick' else 1500)
    memory_stream(res, rng.fork('mem'), 80 if tier == 'quick' else 2000)
    bidir_prepare_stream(res, rng.fork('bidirprep'), 40 if tier == 'quick' else 800)
    lap('userseq/asyncmem/memory/bidir streams')
    E.commit_stream(res, rng.fork('commit'), 150 if tier == 'quick' else 4000, batch)
    E.dup_prepare_stream(res, rng.fork('dupprep'), 80 if tier == 'quick' else 2000, batch)
    batch.run()
    lap('commit + duplicate-prepare streams + driver session')
    E.quiet_stream(res, rng.fork('quiet'), 60 if tier == 'quick' else 1500)
    lap('quiet stream')
    res.cov['rule'] = ('seeded random netlists with register chains/feedback, memories, sequences, AutoReset; each built 4 times from the same '
                       'plan: reference, externally permuted clockables+driver order, clk(n) split into clk(1), and a permuted run compared '
                       'wire-for-wire with the Lean model; non-trivial = at least 2 sequential leaves; oracle on the implementation: permuted == '
                       'reference at every clk, split == reference, Wire.prepared empty after clk, total_clks equal')
    res.assumptions += ['leaf clock() methods only prepare() (scan of every clock() in py4hw/logic and py4hw/emulation)',
                        'clk_split uses PropIdem (propagateAll idempotent), which C04 proves for stateless leaves in topological order; '
                        'Latch/AsynchronousMemory mutate state in propagate() and are outside that hypothesis',
                        'each sequential block drives wires no other sequential block drives (C11 single-driver invariant)']


if __name__ == '__main__':
    main_wrapper('C05', main)
