"""C11 — Ill-formed netlists are rejected when they are built or checked.
See DESIGN.md §5 C11, lean/Py4hwV/Build/Model.lean (model), lean/Py4hwV/Props/C11.lean (theorems), notes/C11.md.

Streams (all seeded):
  soup      random histories of base.py API calls (mostly valid + injected conflicts, re-parenting into occupied names,
            second drivers through primitive / non-primitive parents, interfaces, disconnect) applied in lock step to the
            REAL API and to the Lean model: outcome + full snapshot (children/_wires/source/sinks/ports) after every call,
            checkIntegrity outcome and driver sets at the end.
  small     exhaustive: every history of length <= L over a small op alphabet (tier dependent).
  faults    random small hierarchical designs of real leaves, all driven (must be accepted), and every single-fault
            variant: one leaf not instantiated (removed driver) / one driver duplicated (must raise, earlier driver kept).
  library   library blocks at sampled parameters with all inputs driven (acceptance clause) + one input left undriven /
            a second driver on an output (rejection clause); the real hierarchy is exported to the Lean model, where
            checkIntegrity and the specification `specRaises` are evaluated.
The property's oracle (spec, not code) is evaluated on the real objects after EVERY call of every stream.
"""
import io, json, os, contextlib, itertools
from common import *
import common
import py4hw
import py4hw.debug
from py4hw.base import Logic, Wire, BidirWire, Interface, disconnectWireFromLogicObject

OBLIGATIONS = [
    # the conflicting call raises and nothing changes
    'C11.dup_child_rejected', 'C11.dup_wire_rejected', 'C11.wires_clash_rejected', 'C11.forEach_newWire_clash', 'C11.second_driver_rejected', 'C11.nonprimitive_out_accepted',
    'C11.rename_conflict_rejected', 'C11.reparent_conflict_rejected', 'C11.reparentAndRename_conflict_rejected',
    # the earlier driver / child / wire stays (every call, raised or not)
    'C11.source_stable', 'C11.child_stable', 'C11.wire_entry_stable_anygraph', 'C11.move_rejected_unchanged',
    'C11.reject_keeps_earlier', 'C11.wire_entry_stable', 'C11.all_wires_registered',
    'C11.source_stable_run', 'C11.child_stable_run',
    'C11.rename_conflict_keeps_graph',
    'C11.renameOld_conflict_drops_wire', 'C11.renameOld_retry_evicts_earlier',   # historical: code before c407a05
    # invariants of every history
    'C11.single_source', 'C11.single_source_run', 'C11.unique_child_names', 'C11.unique_wire_names',
    'C11.wires_consistent_run',
    # checkIntegrity
    'C11.fuel_enough', 'C11.checkIntegrity_eq_spec', 'C11.checkIntegrity_iff', 'C11.all_driven_accepted',
    'C11.undriven_rejected', 'C11.checkIntegrity_eq_any_port', 'C11.inout_source_accepted',
    'C11.bidir_port_raises_attr', 'C11.disconnected_port_raises_attr',     # what Op.ordinary still has to exclude
    # helper developments the above rest on
    'Build.step_keeps', 'Build.step_keepsW', 'Build.SS_run', 'Build.Shape_run', 'Build.WF_run', 'Build.AllReg_run',
    'Build.move_rejected_unchanged',
    'Build.anyBelow_iff', 'Build.checkIntegrity_eq_undriven',
]
DRV = 'Drv/C11.lean'
RENAMES = ('rename', 'reparent', 'reparentAndRename')


class _P(Logic):            # primitive: has propagate
    def propagate(self):
        pass


class _C(Logic):            # primitive: has clock
    def clock(self):
        pass


class _S(Logic):            # structural / abstract: neither
    pass


STANDIN = {0: _S, 1: _P, 2: _C}

# real leaf constructors as sequences of API calls (the model runs the same sequence until the first raise)
CTORS = {
    'And2': (lambda P, n, ws: py4hw.And2(P, n, ws[0], ws[1], ws[2]), [('addIn', 'a'), ('addIn', 'b'), ('addOut', 'r')]),
    'Or2': (lambda P, n, ws: py4hw.Or2(P, n, ws[0], ws[1], ws[2]), [('addIn', 'a'), ('addIn', 'b'), ('addOut', 'r')]),
    'Not': (lambda P, n, ws: py4hw.Not(P, n, ws[0], ws[1]), [('addIn', 'a'), ('addOut', 'r')]),
    'Buf': (lambda P, n, ws: py4hw.Buf(P, n, ws[0], ws[1]), [('addIn', 'a'), ('addOut', 'r')]),
    'Constant': (lambda P, n, ws: py4hw.Constant(P, n, 1, ws[0]), [('addOut', 'r')]),
    'Reg': (lambda P, n, ws: py4hw.Reg(P, n, ws[0], ws[1]), [('addIn', 'd'), ('addOut', 'q')]),
    'RegER': (lambda P, n, ws: py4hw.Reg(P, n, ws[0], ws[1], enable=ws[2], reset=ws[3]),
              [('addIn', 'd'), ('addOut', 'q'), ('addIn', 'e'), ('addIn', 'r')]),
    'Mux2': (lambda P, n, ws: py4hw.Mux2(P, n, ws[0], ws[1], ws[2], ws[3]),
             [('addIn', 'sel'), ('addIn', 'sel0'), ('addIn', 'sel1'), ('addOut', 'r')]),
}


def classify(e):
    s = str(e)
    if isinstance(e, KeyError):
        return 'keyError'
    if isinstance(e, AttributeError):
        return 'attr'
    if 'there is already a child named' in s:
        return 'dupChild'
    if 'a wire named' in s and 'already exist' in s:
        return 'dupWire'
    if s.startswith('Source of wire'):
        return 'dupSource'
    if 'wire and object are not connected' in s:
        return 'notConnected'
    if 'with no source' in s:
        return 'noSource'
    if 'not port of parent' in s:
        return 'notPort'
    return 'other:' + type(e).__name__ + ':' + s[:60]


def quiet(f, *a):
    with contextlib.redirect_stdout(io.StringIO()):
        return f(*a)


def showL(l):
    return ','.join(str(x) for x in l) if l else '-'


def showD(d):
    return ','.join(f'{k}={v}' for k, v in d) if d else '-'


class Real:
    """the real object graph built through the real API, with creation-order ids (same allocation rule as the model)"""

    def __init__(self):
        self.objs, self.wires, self.ports, self.ifaces = [], [], [], []
        self.oid, self.wid, self.pid = {}, {}, {}
        self.alias = None   # set when a wire-creating call returned an already existing wire

    # -- registration
    def reg_obj(self, o):
        self.oid[id(o)] = len(self.objs)
        self.objs.append(o)

    def reg_wire(self, w):
        self.wid[id(w)] = len(self.wires)
        self.wires.append(w)

    def reg_port(self, p):
        self.pid[id(p)] = len(self.ports)
        self.ports.append(p)

    def fresh(self, ws, expect_n):
        """the wires handed back by a creating call must be NEW objects (never an alias of an earlier wire)"""
        if len(ws) != expect_n or any(id(x) in self.wid for x in ws) or len({id(x) for x in ws}) != len(ws):
            self.alias = [self.wid.get(id(x), 'new') for x in ws]

    def port_lens(self, o):
        return (len(o.inPorts), len(o.outPorts), len(o.inOutPorts))

    def reg_new_ports(self, o, before, order):
        """order: 'in-first' or 'out-first'"""
        ni, no, nio = o.inPorts[before[0]:], o.outPorts[before[1]:], o.inOutPorts[before[2]:]
        for p in (ni + no if order == 'in-first' else no + ni) + nio:
            self.reg_port(p)

    # -- one API call
    def apply(self, op):
        k = op[0]
        try:
            if k == 'newLogic':
                _, p, n, prim = op
                o = STANDIN[prim](None if p is None else self.objs[p], n)
                self.reg_obj(o)
            elif k == 'wire':
                p, n, b = op[1], op[2], op[3]
                width = op[4] if len(op) > 4 else 1
                via = op[5] if len(op) > 5 else 'helper'
                if via == 'ctor':       # the class constructors directly
                    w = BidirWire(self.objs[p], n, width) if b else Wire(self.objs[p], n, width)
                else:                   # Logic.wire / Logic.bidir_wire
                    w = self.objs[p].bidir_wire(n, width) if b else self.objs[p].wire(n, width)
                self.fresh([w], 1)
                self.reg_wire(w)
            elif k == 'wires':          # Logic.wires(prefix, num, width): the array helper
                _, p, n, num, width = op
                parent = self.objs[p]
                before = {id(x) for x in parent._wires.values()}
                ws = None
                try:
                    ws = parent.wires(n, num, width)
                finally:
                    if ws is not None:
                        self.fresh(ws, num)
                    for x in parent._wires.values():       # elements created (also before a raise), in creation order
                        if id(x) not in before and id(x) not in self.wid:
                            self.reg_wire(x)
            elif k == 'hwsys':          # HWSystem(): Logic.__init__(None, 'HWSystem') + self.wire('clk')
                o = quiet(py4hw.HWSystem)
                self.reg_obj(o)
                self.reg_wire(o._wires['clk'])
            elif k in ('addIn', 'addOut', 'addInOut'):
                _, o, n, w = op
                obj = self.objs[o]
                before = self.port_lens(obj)
                try:
                    getattr(obj, k)(n, self.wires[w])
                finally:
                    self.reg_new_ports(obj, before, 'in-first')
            elif k == 'rename':
                self.wires[op[1]].rename(op[2])
            elif k == 'reparent':
                self.wires[op[1]].reparent(self.objs[op[2]])
            elif k == 'reparentAndRename':
                self.wires[op[1]].reparentAndRename(self.objs[op[2]], op[3])
            elif k == 'newIface':
                self.ifaces.append(Interface(self.objs[op[1]], op[2]))
            elif k == 'ifS2K':
                self.reg_wire(self.ifaces[op[1]].addSourceToSink(op[2], 1))
            elif k == 'ifK2S':
                self.reg_wire(self.ifaces[op[1]].addSinkToSource(op[2], 1))
            elif k in ('addIfSource', 'addIfSink'):
                _, o, n, i = op
                obj = self.objs[o]
                before = self.port_lens(obj)
                try:
                    (obj.addInterfaceSource if k == 'addIfSource' else obj.addInterfaceSink)(n, self.ifaces[i])
                finally:
                    self.reg_new_ports(obj, before, 'out-first' if k == 'addIfSource' else 'in-first')
            elif k == 'disconnect':
                disconnectWireFromLogicObject(self.wires[op[1]], self.objs[op[2]])
            elif k == 'ctor':
                _, cls, p, n, ws = op
                parent = self.objs[p]
                had = n in parent.children
                try:
                    CTORS[cls][0](parent, n, [self.wires[w] for w in ws])
                finally:
                    o = parent.children.get(n)
                    if o is not None and not had and id(o) not in self.oid:
                        self.reg_obj(o)
                        ii = oo = 0
                        for (kind, _nm) in CTORS[cls][1]:     # ports in creation order, as far as they exist
                            if kind == 'addIn' and ii < len(o.inPorts):
                                self.reg_port(o.inPorts[ii]); ii += 1
                            elif kind == 'addOut' and oo < len(o.outPorts):
                                self.reg_port(o.outPorts[oo]); oo += 1
                            else:
                                break
            else:
                raise ToolFailure(f'unknown op {op}')
            return 'ok'
        except ToolFailure:
            raise
        except Exception as e:
            return 'err ' + classify(e)

    # -- protocol line of an op
    def line(self, op):
        k = op[0]
        if k == 'newLogic':
            return f'op newLogic {"_" if op[1] is None else op[1]} {op[2]} {1 if op[3] else 0}'
        if k == 'wire':
            return f'op wire {op[1]} {op[2]} {1 if op[3] else 0}'
        if k == 'wires':
            return f'op wires {op[1]} {op[2]} {op[3]}'
        if k == 'hwsys':
            return f'opseq newLogic _ HWSystem 0 ; wire {self._next_obj} clk 0'
        if k in ('addIfSource', 'addIfSink'):
            return f'op {k} {op[1]} {op[2] if op[2] else "-"} {op[3]}'
        if k == 'ctor':
            _, cls, p, n, ws = op
            oid = self._next_obj
            parts = [f'newLogic {p} {n} 1']
            for (kind, nm), w in zip(CTORS[cls][1], ws):
                parts.append(f'{kind} {oid} {nm} {w}')
            return 'opseq ' + ' ; '.join(parts)
        return 'op ' + ' '.join(str(x) for x in op)

    # -- snapshot in the format of Drv/C11.lean `snap`
    def o_(self, x):
        return '_' if x is None else str(self.oid.get(id(x), '?'))

    def w_(self, x):
        return '_' if x is None else str(self.wid.get(id(x), '?'))

    def p_(self, x):
        return '_' if x is None else str(self.pid.get(id(x), '?'))

    def snapshot(self):
        O = []
        for o in self.objs:
            O.append(f"{self.o_(o.parent)} {o.name} {1 if o.isPrimitive() else 0} "
                     f"{showD([(k, self.o_(c)) for k, c in o.children.items()])} "
                     f"{showD([(k, self.w_(w)) for k, w in o._wires.items()])} "
                     f"{showL([self.p_(p) for p in o.inPorts])} {showL([self.p_(p) for p in o.outPorts])} "
                     f"{showL([self.p_(p) for p in o.inOutPorts])}")
        W = []
        for w in self.wires:
            bid = isinstance(w, BidirWire)
            W.append(f"{self.o_(w.parent)} {w.name} {1 if bid else 0} {'_' if bid else self.p_(w.source)} "
                     f"{showL([self.p_(p) for p in w.sources]) if bid else '-'} {showL([self.p_(p) for p in w.sinks])}")
        P = []
        for p in self.ports:
            kind = {'InPort': 'in', 'OutPort': 'out', 'InOutPort': 'inout'}[type(p).__name__]
            P.append(f"{kind} {self.o_(p.parent)} {p.name} {self.w_(p.wire)} {1 if p.parent.isPrimitive() else 0}")
        I = []
        for it in self.ifaces:
            I.append(f"{self.o_(it.parent)} {it.name} {showD([(n, self.w_(w)) for n, w in it.sourceToSink])} "
                     f"{showD([(n, self.w_(w)) for n, w in it.sinkToSource])}")
        return 'O ' + ' / '.join(O) + ' # W ' + ' / '.join(W) + ' # P ' + ' / '.join(P) + ' # I ' + ' / '.join(I)

    def raw_lines(self):
        """export for the model (rawobj / rawwire / rawport)"""
        L = ['reset']
        for o in self.objs:
            L.append(f"rawobj {self.o_(o.parent)} {o.name} {1 if o.isPrimitive() else 0} "
                     f"{showD([(k, self.o_(c)) for k, c in o.children.items()])} "
                     f"{showD([(k, self.w_(w)) for k, w in o._wires.items()])} "
                     f"{showL([self.p_(p) for p in o.inPorts])} {showL([self.p_(p) for p in o.outPorts])} "
                     f"{showL([self.p_(p) for p in o.inOutPorts])}")
        for w in self.wires:
            bid = isinstance(w, BidirWire)
            L.append(f"rawwire {self.o_(w.parent)} {w.name} {1 if bid else 0} {'_' if bid else self.p_(w.source)} "
                     f"{showL([self.p_(p) for p in w.sources]) if bid else '-'} {showL([self.p_(p) for p in w.sinks])}")
        for p in self.ports:
            kind = {'InPort': 'in', 'OutPort': 'out', 'InOutPort': 'inout'}[type(p).__name__]
            L.append(f"rawport {kind} {self.o_(p.parent)} {p.name} {self.w_(p.wire)} {1 if p.parent.isPrimitive() else 0}")
        return L

    # -- real checkIntegrity outcome in the model's vocabulary
    def check(self, o):
        obj = self.objs[o]
        try:
            quiet(py4hw.debug.checkIntegrity, obj)
            return 'ok'
        except RecursionError:
            raise
        except Exception as e:
            k = classify(e)
            if k == 'noSource':
                return 'err noSource MSG:' + str(e)
            if k == 'notPort':
                return 'err notPort'
            return 'err ' + k


# ------------------------------------------------------------------------------------------------
# the property's oracle, evaluated on real objects (a transcription of the SPEC, not of base.py)
def is_prim(o):
    """the statement's notion of a block that drives: a leaf with behaviour (a callable propagate or clock)"""
    return callable(getattr(o, 'propagate', None)) or callable(getattr(o, 'clock', None))


def below(obj):
    out, todo = [], [obj]
    while todo:
        o = todo.pop()
        out.append(o)
        todo.extend(o.children.values())
    return out


def spec_check(obj):
    """-> (in_domain, spec_raises, inout_source): some in/out port of the hierarchy is attached to an undriven wire"""
    dom, und, ios = True, False, False
    for o in below(obj):
        for p in o.inPorts + o.outPorts:
            w = p.wire
            if w is None or isinstance(w, BidirWire) or not isinstance(w, Wire):
                dom = False
                continue
            if w.source is None:
                und = True
            elif type(w.source).__name__ == 'InOutPort':
                ios = True
    return dom, und, ios


def registries(R):
    ch, wr, src = {}, {}, {}
    for oi, o in enumerate(R.objs):
        for n, c in o.children.items():
            ch[(oi, n)] = id(c)
        for n, w in o._wires.items():
            wr[(oi, n)] = id(w)
    for wi, w in enumerate(R.wires):
        if not isinstance(w, BidirWire) and w.source is not None:
            src[wi] = id(w.source)
    return ch, wr, src


def conflict_expected(R, op):
    """would this call create a second driver / a second child or wire of the same name?  (from the statement)"""
    k = op[0]

    def driven(w):
        if isinstance(w, BidirWire):
            return False
        return w.source is not None or any(p.wire is w for o in R.objs if is_prim(o) for p in o.outPorts + o.inOutPorts)
    if k == 'newLogic':
        return op[1] is not None and op[2] in R.objs[op[1]].children
    if k == 'wire':
        return op[2] in R.objs[op[1]]._wires
    if k == 'wires':            # any element name of the array already names a wire of the parent
        return any(f'{op[2]}_{i}' in R.objs[op[1]]._wires for i in range(op[3]))
    if k in ('addOut', 'addInOut'):
        return is_prim(R.objs[op[1]]) and driven(R.wires[op[3]])
    if k == 'rename':           # the new name is held by ANOTHER wire of the same parent
        w = R.wires[op[1]]
        return op[2] in w.parent._wires and w.parent._wires[op[2]] is not w
    if k == 'reparent':
        w = R.wires[op[1]]
        return w.name in R.objs[op[2]]._wires and R.objs[op[2]]._wires[w.name] is not w
    if k == 'reparentAndRename':
        w = R.wires[op[1]]
        return op[3] in R.objs[op[2]]._wires and R.objs[op[2]]._wires[op[3]] is not w
    if k in ('ifS2K', 'ifK2S'):
        it = R.ifaces[op[1]]
        return (it.name + '_' + op[2]) in it.parent._wires
    if k in ('addIfSource', 'addIfSink'):
        it = R.ifaces[op[3]]
        outs = [w for _, w in (it.sourceToSink if k == 'addIfSource' else it.sinkToSource)]
        if not is_prim(R.objs[op[1]]):
            return False
        seen = set()
        for w in outs:
            if driven(w) or (id(w) in seen and not isinstance(w, BidirWire)):
                return True
            seen.add(id(w))
        return False
    if k == 'ctor':
        _, cls, p, n, ws = op
        if n in R.objs[p].children:
            return True
        seen = set()
        for (kind, _), w in zip(CTORS[cls][1], ws):
            if kind == 'addOut':
                if driven(R.wires[w]) or w in seen:
                    return True
                seen.add(w)
        return False
    return False


PROPOSED = []


def load_proposed():
    global PROPOSED
    p = os.path.join(VERIF, 'corpus', 'C11', 'proposed_findings.json')
    PROPOSED = json.load(open(p)).get('findings', []) if os.path.exists(p) else []


def report(res, what, replay):
    """res.fail, except that findings proposed in corpus/C11/proposed_findings.json (not yet merged into
    known_findings.json by the integrator) are matched with the same class_expr mechanism"""
    merged = {k.get('id') for k in load_known()}
    for k in PROPOSED:
        # a finding recorded here as FIXED suppresses nothing, even if known_findings.json still lists it as known
        if k.get('status') == 'fixed' and common._matches(dict(k, status='known'), what, replay):
            res.failures.append({'what': what + f' [recurrence of fixed finding {k["id"]}, fixed by {k.get("fixed_by")}]', 'replay': replay})
            return
    for k in PROPOSED:
        if k['id'] not in merged and k.get('status') == 'known' and common._matches(k, what, replay):
            res.known_hits.append((k, what))
            return
    res.fail(what, replay)


class Oracle:
    """evaluates the property on the real graph around every call"""

    def __init__(self, res, R, stream, history):
        self.res, self.R, self.stream, self.history = res, R, stream, history

    def before(self, op):
        self.reg0 = registries(self.R)
        self.conf = conflict_expected(self.R, op)
        self.moved = None
        self.R.alias = None
        if op[0] in RENAMES:
            w = self.R.wires[op[1]]
            self.moved = (self.R.oid.get(id(w.parent)), w.name, id(w))

    def after(self, op, outcome):
        R, res = self.R, self.res
        raised = outcome != 'ok'
        base = dict(stream=self.stream, history=[list(map(_j, o)) for o in self.history], op=list(map(_j, op)),
                    op_kind=op[0], outcome=outcome, raised=raised)
        res.hist('conflict_expected', f'{op[0]}:{self.conf}:{"raised" if raised else "accepted"}')
        # (1) the call that would create the conflict raises
        if self.conf and not raised:
            report(res, f'{op[0]} that creates a duplicate driver/child/wire was accepted', dict(base, oracle='conflict_raises'))
        if R.alias is not None:
            report(res, f'{op[0]} ({outcome}) handed back an already existing wire instead of a new one: {R.alias}',
                   dict(base, oracle='creation_fresh', returned=R.alias))
        # (2) the earlier driver / child / wire stays in place (after every call, raised or not)
        ch0, wr0, src0 = self.reg0
        ch1, wr1, src1 = registries(R)
        lost = []
        for k, v in ch0.items():
            if ch1.get(k) != v:
                lost.append(['child', k[0], k[1]])
        for k, v in wr0.items():
            if wr1.get(k) != v:
                if self.moved and not raised and self.moved[2] == v:
                    continue        # the wire that was (successfully) renamed / re-parented itself
                lost.append(['wire', k[0], k[1]])
        if op[0] != 'disconnect':
            for k, v in src0.items():
                if src1.get(k) != v:
                    lost.append(['source', k])
        if op[0] in RENAMES and not raised:
            w = R.wires[op[1]]
            if w.parent._wires.get(w.name) is not w:
                report(res, f'{op[0]} succeeded but the wire is not registered under its new parent/name',
                       dict(base, oracle='move_registers'))
        if lost:
            report(res, f'{op[0]} ({outcome}) removed or replaced an earlier registration: {lost[:3]}',
                   dict(base, oracle='earlier_stays', lost=lost,
                        moved_parent=self.moved[0] if self.moved else None, moved_name=self.moved[1] if self.moved else None))
        # (3) never two drivers on an ordinary wire; registered wires/children unique and consistent
        drv = {}
        for oi, o in enumerate(R.objs):
            if is_prim(o):
                for p in o.outPorts + o.inOutPorts:
                    if p.wire is not None and not isinstance(p.wire, BidirWire):
                        drv.setdefault(id(p.wire), []).append(p)
        for wi, w in enumerate(R.wires):
            if isinstance(w, BidirWire):
                continue
            d = drv.get(id(w), [])
            if len(d) > 1 or (len(d) == 1 and w.source is not d[0]):
                report(res, f'wire {wi} has {len(d)} registered drivers / source mismatch', dict(base, oracle='single_source', wire=wi))
        for wi, w in enumerate(R.wires):       # no wire ever falls out of its parent's registry (Lean: all_wires_registered)
            if w.parent._wires.get(w.name) is not w:
                report(res, f'wire {wi} is no longer registered in its parent under its name after {op[0]} ({outcome})',
                       dict(base, oracle='all_registered', wire=wi))
        for oi, o in enumerate(R.objs):
            names = [w.name for w in o._wires.values()]
            if len(set(names)) != len(names) or any(w.name != k2 or w.parent is not o for k2, w in o._wires.items()):
                report(res, f'object {oi} registers two wires of one name / inconsistent entry', dict(base, oracle='unique_wires', obj=oi))
            if any(c.name != k2 or c.parent is not o for k2, c in o.children.items()):
                report(res, f'object {oi}: child registered under a name that is not its own', dict(base, oracle='unique_children', obj=oi))

    def check_clause(self, o, real):
        """checkIntegrity raises exactly when some port is attached to an undriven wire"""
        dom, und, ios = spec_check(self.R.objs[o])
        self.res.hist('check_clause', f'{"in" if dom else "out-of"}-domain:spec={und}:real={real.split()[0] if real == "ok" else real.split()[1]}')
        real = ' '.join(real.split()[:2]) if real.startswith('err noSource') else real
        if dom and ((real != 'ok') != und):
            report(self.res, f'checkIntegrity {"raised" if real != "ok" else "accepted"} but '
                             f'{"a port is" if und else "no port is"} attached to an undriven wire',
                   dict(stream=self.stream, history=[list(map(_j, x)) for x in self.history], oracle='check_iff', obj=o,
                        real=real, real_kind=real.split()[1] if real != 'ok' else 'ok', spec_raises=und, inout_source=ios))
        return dom, und


def _j(x):
    return list(x) if isinstance(x, tuple) else x


# ------------------------------------------------------------------------------------------------
class Session:
    """a history executed on the real API (immediately) and queued for the model"""

    def __init__(self, res, stream, batch, label=None, snap_every=True):
        self.res, self.stream, self.batch, self.label = res, stream, batch, label
        self.R = Real()
        self.history = []
        self.orc = Oracle(res, self.R, stream, self.history)
        self.lines = ['reset']
        self.expect = [('ok', 'reset', None)]
        self.snap_every = snap_every

    def do(self, op):
        R = self.R
        R._next_obj = len(R.objs)
        line = R.line(op)
        self.orc.before(op)
        self.history.append(op)
        out = R.apply(op)
        self.orc.after(op, out)
        self.lines.append(line)
        self.expect.append((out, 'op', len(self.history) - 1))
        if self.snap_every:
            self.snap()
        self.res.hist('ops', op[0] if op[0] != 'ctor' else 'ctor:' + op[1])
        self.res.hist('outcomes', out if out == 'ok' else out.split()[1])
        return out

    def snap(self):
        self.lines.append('snap')
        self.expect.append((self.R.snapshot(), 'snap', len(self.history) - 1))

    def check(self, o):
        real = self.R.check(o)
        dom, und = self.orc.check_clause(o, real)
        self.lines.append(f'check {o}')
        self.expect.append((real, 'check', o))
        self.lines.append(f'spec {o}')
        # the Lean spec function must agree with the python transcription of the spec whenever the latter is defined
        self.expect.append(('1' if und else '0', 'spec' if dom else 'spec-nocmp', o))
        return real

    def drivers(self):
        R = self.R
        for wi, w in enumerate(R.wires):
            d = [R.pid.get(id(p), '?') for p in R.ports
                 if type(p).__name__ in ('OutPort', 'InOutPort') and p.parent.isPrimitive() and p.wire is w]
            self.lines.append(f'drivers {wi}')
            self.expect.append((showL(d), 'drivers', wi))

    def finish(self):
        self.batch.add(self)


class Batch:
    def __init__(self, res, limit=4000000):
        self.res, self.sessions, self.size, self.limit = res, [], 0, limit
        self.reported = 0

    def add(self, s):
        self.sessions.append(s)
        self.size += sum(len(l) for l in s.lines) + sum(len(e[0]) for e in s.expect)
        if self.size > self.limit:
            self.run()

    def run(self):
        if not self.sessions:
            return
        lines = [l for s in self.sessions for l in s.lines]
        try:
            out = run_driver(DRV, lines)
        except ToolFailure as e:
            self.res.broken.append(('correspondence', 'driver', str(e)[:400]))
            self.sessions, self.size = [], 0
            return
        i = 0
        for s in self.sessions:
            bad = None
            for (exp, kind, idx), line in zip(s.expect, s.lines):
                got = out[i]
                i += 1
                if kind == 'spec-nocmp' or bad is not None:
                    continue
                if kind == 'check' and exp == 'err notPort' and got.startswith('err notPort'):
                    continue
                if kind == 'check' and exp.startswith('err noSource MSG:') and got.startswith('err noSource '):
                    # the real message names the object by full path and the wire by name
                    try:
                        _, _, oo, ww = got.split()
                        got = 'err noSource MSG:ERROR: {} {} with no source'.format(s.R.objs[int(oo)].getFullPath(), s.R.wires[int(ww)].name)
                    except Exception:
                        pass
                if got != exp:
                    bad = (kind, idx, line, exp, got)
            self.res.cov['disagreements_checked'] += len(s.expect)
            if bad is not None and self.reported < 8:
                self.reported += 1
                kind, idx, line, exp, got = bad
                self.res.disagree(f'{s.stream}:{kind}',
                                  dict(label=s.label, request=line, at=idx, real=exp[:300], model=got[:300],
                                       history=[list(map(_j, o)) for o in s.history[:(idx + 1 if kind in ('op', 'snap') else None)]][-40:]))
            elif bad is not None:
                self.res.broken.append(('correspondence', s.stream, 'further disagreements suppressed'))
        self.sessions, self.size = [], 0


# ------------------------------------------------------------------------------------------------
NAMES = ['a', 'b', 'c', 'x', 'y', 'x_y', 'y_z', 'x_y_z', 'z', 'q', 'd_0', 'd_1', 'x_1', 'x_y_0']
PREFIXES = ['d', 'x', 'x_y', 'a', 'y']


def pick_name(r, existing, p_conf):
    if existing and r.chance(*p_conf):
        return r.choice(sorted(existing))
    return r.choice(NAMES)


def soup(res, batch, r, n_ops, label):
    S = Session(res, 'soup', batch, label)
    R = S.R
    S.do(('newLogic', None, 'top', 0))
    kinds = ['newLogic'] * 12 + ['wire'] * 14 + ['addIn'] * 10 + ['addOut'] * 14 + ['addInOut'] * 3 + ['ctor'] * 10 + \
            ['rename'] * 8 + ['reparent'] * 5 + ['reparentAndRename'] * 5 + ['newIface'] * 3 + ['ifsig'] * 5 + \
            ['addIf'] * 5 + ['disconnect'] * 3 + ['root'] * 1 + ['wires'] * 6 + ['hwsys'] * 1
    profile = r.choice(['mixed', 'mixed', 'noinout', 'renames'])
    for _ in range(n_ops):
        k = r.choice(kinds)
        if profile == 'noinout' and k in ('addInOut', 'disconnect'):
            k = 'addOut'
        if profile == 'renames' and r.chance(1, 3):
            k = r.choice(RENAMES)
        no, nw = len(R.objs), len(R.wires)
        if k == 'root':
            S.do(('newLogic', None, r.choice(NAMES), 0))
        elif k == 'newLogic' or nw == 0 and k not in ('wire', 'wires', 'hwsys'):
            p = r.randint(0, no - 1)
            S.do(('newLogic', p, pick_name(r, R.objs[p].children.keys(), (1, 4)), r.choice([0, 0, 1, 1, 2])))
        elif k == 'wire':
            p = r.randint(0, no - 1)
            S.do(('wire', p, pick_name(r, R.objs[p]._wires.keys(), (1, 4)), r.chance(1, 10), r.choice([1, 1, 8]),
                  r.choice(['helper', 'helper', 'ctor'])))
        elif k == 'wires':
            p = r.randint(0, no - 1)
            pre = r.choice(PREFIXES)
            arr = sorted({n.rsplit('_', 1)[0] for n in R.objs[p]._wires if '_' in n and n.rsplit('_', 1)[1].isdigit()})
            if arr and r.chance(1, 3):      # clash with / extend an existing array (or a lone wire named like an element)
                pre = r.choice(arr)
            S.do(('wires', p, pre, r.randint(0, 3), r.choice([1, 1, 8])))
        elif k == 'hwsys':
            S.do(('hwsys',))
        elif k in ('addIn', 'addOut', 'addInOut'):
            o = r.randint(0, no - 1)
            w = r.randint(0, nw - 1)
            if k == 'addOut' and r.chance(1, 4):
                drv = [i for i, x in enumerate(R.wires) if not isinstance(x, BidirWire) and x.source is not None]
                prims = [i for i, x in enumerate(R.objs) if x.isPrimitive()]
                if drv and prims:
                    w, o = r.choice(drv), r.choice(prims)
            S.do((k, o, r.choice(NAMES), w))
        elif k == 'ctor':
            cls = r.choice(sorted(CTORS))
            p = r.randint(0, no - 1)
            ws = [r.randint(0, nw - 1) for _ in CTORS[cls][1]]
            S.do(('ctor', cls, p, pick_name(r, R.objs[p].children.keys(), (1, 5)), ws))
        elif k == 'rename':
            w = r.randint(0, nw - 1)
            par = R.wires[w].parent
            S.do(('rename', w, pick_name(r, par._wires.keys(), (1, 2))))
        elif k == 'reparent':
            w = r.randint(0, nw - 1)
            cands = [i for i, o in enumerate(R.objs) if R.wires[w].name in o._wires]
            p = r.choice(cands) if cands and r.chance(1, 2) else r.randint(0, no - 1)
            S.do(('reparent', w, p))
        elif k == 'reparentAndRename':
            w = r.randint(0, nw - 1)
            p = r.randint(0, no - 1)
            S.do(('reparentAndRename', w, p, pick_name(r, R.objs[p]._wires.keys(), (1, 2))))
        elif k == 'newIface':
            S.do(('newIface', r.randint(0, no - 1), r.choice(['x', 'x_y', 'y', 'a'])))
        elif k == 'ifsig':
            if not R.ifaces:
                S.do(('newIface', r.randint(0, no - 1), r.choice(['x', 'x_y', 'y', 'a'])))
            S.do((r.choice(['ifS2K', 'ifK2S']), r.randint(0, len(R.ifaces) - 1), r.choice(['y', 'z', 'y_z', 'b', 'c'])))
        elif k == 'addIf':
            if R.ifaces:
                S.do((r.choice(['addIfSource', 'addIfSink']), r.randint(0, no - 1), r.choice(['', 'p', 'x']), r.randint(0, len(R.ifaces) - 1)))
        elif k == 'disconnect':
            w = r.randint(0, nw - 1)
            wr = R.wires[w]
            o = r.randint(0, no - 1)
            if not isinstance(wr, BidirWire) and wr.source is not None and r.chance(1, 2):
                o = R.oid.get(id(wr.source.parent), o)
            elif wr.sinks and r.chance(1, 2):
                o = R.oid.get(id(wr.sinks[0].parent), o)
            S.do(('disconnect', w, o))
    for o in range(len(R.objs)):
        if R.objs[o].parent is None or r.chance(1, 4):
            S.check(o)
    S.drivers()
    res.count(('soup', label, tuple(map(str, S.history))), hist={'soup_len': len(S.history) // 10 * 10, 'soup_profile': profile})
    S.finish()
    return S


def small_exhaustive(res, batch, L):
    """every history of length L over a small alphabet (2 objects, 2 wires, names a/b) after a fixed prelude"""
    prelude = [('newLogic', None, 'top', 0), ('newLogic', 0, 'p', 1), ('newLogic', 0, 'q', 1), ('wire', 0, 'a', False), ('wire', 0, 'b', False)]
    alpha = [('newLogic', 0, 'p', 1), ('newLogic', 0, 'r', 0), ('wire', 0, 'a', False), ('wire', 1, 'a', False),
             ('addOut', 1, 'r', 0), ('addOut', 2, 'r', 0), ('addOut', 0, 'r', 0), ('addIn', 2, 'a', 0), ('addIn', 1, 'a', 1), ('addOut', 2, 'r', 1),
             ('rename', 0, 'b'), ('rename', 1, 'a'), ('rename', 1, 'c'), ('rename', 0, 'a'),
             ('reparent', 0, 1), ('reparent', 1, 1), ('reparentAndRename', 1, 1, 'a'), ('reparentAndRename', 0, 0, 'b'),
             ('addInOut', 1, 'io', 1), ('disconnect', 0, 1), ('ctor', 'Not', 0, 'n', [0, 1]), ('ctor', 'Buf', 0, 'p', [1, 0]),
             ('wire', 0, 'd_1', False, 1, 'ctor'), ('wires', 0, 'd', 2, 1), ('wires', 0, 'd', 3, 1), ('wires', 0, 'a', 1, 8)]
    n = 0
    for hist in itertools.product(alpha, repeat=L):
        S = Session(res, 'small', batch, label=n)
        for op in prelude:
            S.do(op)
        for op in hist:
            S.do(op)
        S.check(0)
        S.drivers()
        res.count(('small', str(hist)), hist={'small_len': L})
        S.finish()
        n += 1
    return n


# ------------------------------------------------------------------------------------------------
def design_ops(r, n_leaves, n_cont):
    """a random all-driven hierarchical design as an op list; returns (ops, leaf_positions, out_wire_of_leaf)"""
    ops = [('newLogic', None, 'top', 0)]
    conts = [0]
    for c in range(n_cont):
        ops.append(('newLogic', r.choice(conts), f'c{c}', 0))
        conts.append(len(conts))
    n_obj = len(conts)
    wires = []
    leaves = []          # (cls, container, in wires, out wire)
    for j in range(n_leaves):
        ops.append(('wire', r.choice(conts), f'w{j}', False))
        wires.append(j)
    for j in range(n_leaves):
        cls = 'Constant' if j < 2 else r.choice(['And2', 'Or2', 'Not', 'Buf', 'Reg', 'RegER', 'Mux2', 'Constant'])
        nin = sum(1 for kk, _ in CTORS[cls][1] if kk == 'addIn')
        ins = [r.randint(0, n_leaves - 1) for _ in range(nin)]
        leaves.append((cls, r.choice(conts), ins, j))
    pos = []
    order = r.shuffle(range(n_leaves))
    extra = []
    for j in order:
        cls, c, ins, out = leaves[j]
        ws, ii = [], 0
        for kk, _ in CTORS[cls][1]:
            if kk == 'addIn':
                ws.append(ins[ii]); ii += 1
            else:
                ws.append(out)
        pos.append((len(ops), j))
        ops.append(('ctor', cls, c, f'l{j}', ws))
        # the container declares ports for what its leaf touches (non-primitive: no registration)
        if c != 0 and r.chance(1, 2):
            extra.append(('addOut', c, f'o{j}', out))
            for t, wi in enumerate(ins):
                extra.append(('addIn', c, f'i{j}_{t}', wi))
    return ops + extra, pos, n_obj


def faults(res, batch, r, label, n_leaves, n_cont):
    ops, pos, n_obj = design_ops(r, n_leaves, n_cont)

    # baseline: everything driven -> accepted
    S = Session(res, 'faults', batch, label=(label, 'base'), snap_every=False)
    for op in ops:
        S.do(op)
    S.snap()
    real = S.check(0)
    if real != 'ok':
        report(res, 'an all-driven design is rejected by checkIntegrity',
               dict(stream='faults', oracle='check_iff', history=[list(map(_j, o)) for o in S.history], real=real,
                    real_kind=real.split()[1], spec_raises=spec_check(S.R.objs[0])[1], inout_source=False))
    S.drivers()
    S.finish()
    res.count(('faults', label, 'base'), hist={'fault': 'baseline', 'fault_leaves': n_leaves})
    # removed driver: one leaf not instantiated.  object ids of later leaves shift by one: rebuild the op list
    for (i, j) in pos:
        ops2 = []
        for t, op in enumerate(ops):
            if t == i:
                continue
            ops2.append(op)
        # ids: containers come first (ids < n_obj), leaves are never referenced by id -> no renumbering needed
        S = Session(res, 'faults', batch, label=(label, 'rm', j), snap_every=False)
        for op in ops2:
            S.do(op)
        S.snap()
        S.check(0)     # oracle inside: raises iff some port is attached to the now undriven wire
        S.finish()
        res.count(('faults', label, 'rm', j), hist={'fault': 'removed-driver'})
    # duplicated driver: a second leaf on an already driven wire must raise and leave the first driver in place
    for (i, j) in pos:
        S = Session(res, 'faults', batch, label=(label, 'dup', j), snap_every=False)
        for op in ops:
            S.do(op)
        w = S.R.wires[j]
        src = w.source
        kind = r.choice(['Constant', 'Buf', 'And2', 'Reg'])
        ws = {'Constant': [j], 'Buf': [r.randint(0, n_leaves - 1), j], 'And2': [0, 1, j], 'Reg': [0, j]}[kind]
        out = S.do(('ctor', kind, r.randint(0, n_obj - 1), f'dup{j}', ws))
        if out == 'ok' or w.source is not src:
            report(res, 'second driver accepted or first driver displaced',
                   dict(stream='faults', oracle='conflict_raises', history=[list(map(_j, o)) for o in S.history], outcome=out,
                        op_kind='ctor', raised=out != 'ok'))
        S.snap()
        S.check(0)
        S.finish()
        res.count(('faults', label, 'dup', j), hist={'fault': 'duplicated-driver'})


# ------------------------------------------------------------------------------------------------
def library_catalogue():
    P = py4hw
    C = {}

    def two(cls):
        return lambda S, n, I, O, r, w: cls(S, n, I(w), I(w), O(w))

    def one(cls):
        return lambda S, n, I, O, r, w: cls(S, n, I(w), O(w))
    for nm in ['And2', 'Or2', 'Xor2', 'Nand2', 'Nor2', 'Add', 'Sub', 'Mul', 'Div', 'Mod', 'SignedSub', 'SignedMul', 'SignedDiv', 'Max2', 'Min2',
               'SignedMax2', 'SignedMin2']:
        C[nm] = two(getattr(P, nm))
    for nm in ['Not', 'Buf', 'Neg', 'Abs']:
        C[nm] = one(getattr(P, nm))
    for nm in ['And', 'Or', 'Nor']:
        C[nm] = (lambda cls: lambda S, n, I, O, r, w: cls(S, n, [I(w) for _ in range(r.randint(1, 6))], O(w)))(getattr(P, nm))
    C['Xor'] = lambda S, n, I, O, r, w: P.Xor(S, n, [I(w) for _ in range(r.randint(2, 5))], O(w))
    C['AndBits'] = lambda S, n, I, O, r, w: P.AndBits(S, n, I(w), O(1))
    C['OrBits'] = lambda S, n, I, O, r, w: P.OrBits(S, n, I(w), O(1))
    C['Bit'] = lambda S, n, I, O, r, w: P.Bit(S, n, I(w), r.randint(0, w - 1), O(1))
    C['BitsLSBF'] = lambda S, n, I, O, r, w: P.BitsLSBF(S, n, I(w), [O(1) for _ in range(w)])
    C['BitsMSBF'] = lambda S, n, I, O, r, w: P.BitsMSBF(S, n, I(w), [O(1) for _ in range(w)])
    C['BufEnable'] = lambda S, n, I, O, r, w: P.BufEnable(S, n, I(w), I(1), O(w))
    C['Mux2'] = lambda S, n, I, O, r, w: P.Mux2(S, n, I(1), I(w), I(w), O(w))

    def mux(S, n, I, O, r, w):
        k = r.randint(1, 3)
        return P.Mux(S, n, I(k), [I(w) for _ in range(1 << k)], O(w))
    C['Mux'] = mux
    C['Repeat'] = lambda S, n, I, O, r, w: P.Repeat(S, n, I(1), O(w))
    for nm in ['ShiftLeftConstant', 'ShiftRightConstant', 'RotateLeftConstant', 'RotateRightConstant']:
        C[nm] = (lambda cls: lambda S, n, I, O, r, w: cls(S, n, I(w), r.randint(0, w), O(w)))(getattr(P, nm))
    for nm in ['ShiftLeft', 'ShiftRight', 'RotateLeft', 'RotateRight']:
        C[nm] = (lambda cls: lambda S, n, I, O, r, w: cls(S, n, I(w), I(r.randint(1, 4)), O(w)))(getattr(P, nm))

    def concat(cls):
        def f(S, n, I, O, r, w):
            ws = [r.randint(1, 4) for _ in range(r.randint(1, 4))]
            return cls(S, n, [I(x) for x in ws], O(sum(ws)))
        return f
    C['ConcatenateMSBF'] = concat(P.ConcatenateMSBF)
    C['ConcatenateLSBF'] = concat(P.ConcatenateLSBF)

    def rng_(S, n, I, O, r, w):
        lo = r.randint(0, w - 1)
        hi = r.randint(lo, w - 1)
        return P.Range(S, n, I(w), hi, lo, O(hi - lo + 1))
    C['Range'] = rng_

    def dec(S, n, I, O, r, w):
        k = r.randint(1, 3)
        return P.Decoder(S, n, I(k), [O(1) for _ in range(1 << k)])
    C['Decoder'] = dec

    def sel(S, n, I, O, r, w):
        k = r.randint(1, 4)
        return P.Select(S, n, [I(1) for _ in range(k)], [I(w) for _ in range(k)], O(w))
    C['Select'] = sel
    C['OneHotMux'] = lambda S, n, I, O, r, w: (lambda k: P.OneHotMux(S, n, [I(1) for _ in range(k)], [I(w) for _ in range(k)], O(w)))(r.randint(1, 4))
    C['SelectDefault'] = lambda S, n, I, O, r, w: (lambda k: P.SelectDefault(S, n, [I(1) for _ in range(k)], [I(w) for _ in range(k)], I(w), O(w)))(r.randint(1, 4))
    C['PriorityEncoder'] = lambda S, n, I, O, r, w: P.PriorityEncoder(S, n, [I(1) for _ in range(w)], [O(1) for _ in range(w)], r.chance(1, 2))
    C['Minterm'] = lambda S, n, I, O, r, w: P.Minterm(S, n, [I(1) for _ in range(w)], r.randint(0, (1 << w) - 1), O(1))
    C['Demux'] = lambda S, n, I, O, r, w: (lambda k: P.Demux(S, n, I(w), I(k), [O(w) for _ in range(1 << k)]))(r.randint(1, 2))
    C['AddCiCo'] = lambda S, n, I, O, r, w: P.Add(S, n, I(w), I(w), O(w), ci=I(1), co=O(1))
    C['SignedAdd'] = lambda S, n, I, O, r, w: P.SignedAdd(S, n, I(w), I(w), O(w + 1))
    C['AddCarryIn'] = lambda S, n, I, O, r, w: P.AddCarryIn(S, n, I(w), I(w), O(w), I(1))
    C['Sign'] = lambda S, n, I, O, r, w: P.Sign(S, n, I(w), O(1))
    C['SignExtend'] = lambda S, n, I, O, r, w: P.SignExtend(S, n, I(w), O(w + r.randint(0, 5)))
    C['ZeroExtend'] = lambda S, n, I, O, r, w: P.ZeroExtend(S, n, I(w), O(w + r.randint(0, 5)))
    C['Counter'] = lambda S, n, I, O, r, w: P.Counter(S, n, I(1), I(1), O(w))
    C['ModuloCounter'] = lambda S, n, I, O, r, w: P.ModuloCounter(S, n, r.randint(2, (1 << w)), I(1), I(1), O(w), O(1))
    C['BinaryToBCD'] = lambda S, n, I, O, r, w: P.BinaryToBCD(S, n, I(w), O(4 * len(str((1 << w) - 1))))
    C['CountLeadingZeros'] = lambda S, n, I, O, r, w: P.CountLeadingZeros(S, n, I(w), O(max(1, (w).bit_length())), O(1))
    C['Equal'] = lambda S, n, I, O, r, w: P.Equal(S, n, I(w), I(w), O(1))
    C['EqualConstant'] = lambda S, n, I, O, r, w: P.EqualConstant(S, n, I(w), r.randint(0, (1 << w) - 1), O(1))
    C['NotEqualConstant'] = lambda S, n, I, O, r, w: P.NotEqualConstant(S, n, I(w), r.randint(0, (1 << w) - 1), O(1))
    C['AnyEqual'] = lambda S, n, I, O, r, w: P.AnyEqual(S, n, [I(w) for _ in range(r.randint(2, 4))], O(1))
    C['Comparator'] = lambda S, n, I, O, r, w: P.Comparator(S, n, I(w), I(w), O(1), O(1), O(1))
    C['ComparatorSignedUnsigned'] = lambda S, n, I, O, r, w: P.ComparatorSignedUnsigned(S, n, I(w), I(w), O(1), O(1), O(1), O(1), O(1))
    C['Swap'] = lambda S, n, I, O, r, w: P.Swap(S, n, I(w), I(w), I(1), O(w), O(w))
    C['Reg'] = lambda S, n, I, O, r, w: P.Reg(S, n, I(w), O(w))
    C['RegER'] = lambda S, n, I, O, r, w: P.Reg(S, n, I(w), O(w), enable=I(1), reset=I(1), reset_value=r.randint(0, 3))
    C['TReg'] = lambda S, n, I, O, r, w: P.TReg(S, n, I(1), O(1), enable=I(1), reset=I(1))
    C['Latch'] = lambda S, n, I, O, r, w: P.Latch(S, n, I(w), O(w), I(1))
    C['DelayLine'] = lambda S, n, I, O, r, w: P.DelayLine(S, n, I(w), I(1), I(1), O(w), r.randint(1, 5))
    C['EdgeDetector'] = lambda S, n, I, O, r, w: P.EdgeDetector(S, n, I(1), O(1), r.choice(['pos', 'neg', 'both']))
    C['ClockDivider'] = lambda S, n, I, O, r, w: P.ClockDivider(S, n, 100, r.choice([50, 25, 10]), O(1))
    C['SynchronousMemory'] = lambda S, n, I, O, r, w: P.SynchronousMemory(S, n, I(3), I(3), I(1), O(w), I(w))
    C['Stack_ShiftRegister'] = lambda S, n, I, O, r, w: P.Stack_ShiftRegister(S, n, I(w), O(w), I(1), I(1), O(1), O(1), r.randint(2, 5))
    C['FixedPointAdd'] = lambda S, n, I, O, r, w: P.FixedPointAdd(S, n, I(w + 2), (1, 1, w), I(w + 2), (1, 1, w), O(w + 2), (1, 1, w))
    C['FixedPointSub'] = lambda S, n, I, O, r, w: P.FixedPointSub(S, n, I(w + 2), (1, 1, w), I(w + 2), (1, 1, w), O(w + 2), (1, 1, w))
    C['FixedPointMult'] = lambda S, n, I, O, r, w: P.FixedPointMult(S, n, I(w + 2), (1, 1, w), I(w + 2), (1, 1, w), O(w + 3), (1, 2, w))
    C['Sequence'] = lambda S, n, I, O, r, w: P.Sequence(S, n, [1, 2, 3], O(w))
    C['Scope'] = lambda S, n, I, O, r, w: P.Scope(S, n, I(w))
    return {k: v for k, v in C.items()}


def export(R, root):
    """register every object / wire / port of a real hierarchy (creation order is not known: any consistent ids)"""
    for o in below(root):
        R.reg_obj(o)
    # parents before children is not required by the model's checkIntegrity (fuel = number of objects)
    seen = set()
    for o in list(R.objs):
        for p in o.inPorts + o.outPorts + o.inOutPorts:
            R.reg_port(p)
    for o in list(R.objs):
        for w in o._wires.values():
            if id(w) not in R.wid:
                R.reg_wire(w)
    for p in list(R.ports):
        w = p.wire
        if w is not None and id(w) not in R.wid and isinstance(w, Wire):
            R.reg_wire(w)
    for w in list(R.wires):
        ps = ([] if isinstance(w, BidirWire) else [w.source]) + list(w.sinks)
        for p in ps:
            if p is not None and id(p) not in R.pid:
                R.reg_port(p)


def sanitize(s):
    return ''.join(ch if (ch.isalnum() or ch == '_') else '.' for ch in s) or '.'


class ExportedReal(Real):
    """names are irrelevant to checkIntegrity: sanitised for the line protocol, dict keys made unique by position"""

    def raw_lines(self):
        L = ['reset']
        for o in self.objs:
            L.append(f"rawobj {self.o_(o.parent) if o.parent is None or id(o.parent) in self.oid else '_'} {sanitize(o.name)} {1 if o.isPrimitive() else 0} "
                     f"{showD([(f'k{i}', self.o_(c)) for i, c in enumerate(o.children.values())])} "
                     f"{showD([(f'k{i}', self.w_(w)) for i, w in enumerate(o._wires.values())])} "
                     f"{showL([self.p_(p) for p in o.inPorts])} {showL([self.p_(p) for p in o.outPorts])} "
                     f"{showL([self.p_(p) for p in o.inOutPorts])}")
        for w in self.wires:
            bid = isinstance(w, BidirWire)
            L.append(f"rawwire {self.oid.get(id(w.parent), 0)} {sanitize(w.name)} {1 if bid else 0} {'_' if bid else self.p_(w.source)} "
                     f"{showL([self.p_(p) for p in w.sources]) if bid else '-'} {showL([self.p_(p) for p in w.sinks])}")
        for p in self.ports:
            kind = {'InPort': 'in', 'OutPort': 'out', 'InOutPort': 'inout'}[type(p).__name__]
            L.append(f"rawport {kind} {self.oid.get(id(p.parent), 0)} {sanitize(p.name)} {self.w_(p.wire)} {1 if p.parent.isPrimitive() else 0}")
        return L


def library(res, r, n_cases, cat, widths):
    """acceptance clause on real library blocks; rejection clause on their single-fault variants"""
    lines, expect = [], []
    names = sorted(cat)
    for i in range(n_cases):
        nm = names[i % len(names)]
        w = widths[(i // len(names)) % len(widths)] if i < len(names) * len(widths) else r.randint(1, 64)
        rr = r.fork(('lib', i))
        for variant in ('all-driven', 'undriven-input', 'second-driver'):
            sysobj = py4hw.HWSystem()
            ins, outs = [], []
            skip = None

            def I(width, sysobj=sysobj, ins=ins):
                wire = sysobj.wire(f'i{len(ins)}', width)
                ins.append(wire)
                return wire

            def O(width, sysobj=sysobj, outs=outs):
                wire = sysobj.wire(f'o{len(outs)}', width)
                outs.append(wire)
                return wire
            try:
                blk = quiet(cat[nm], sysobj, 'dut', I, O, Rng(rr.s), w)
            except Exception as e:
                res.hist('library_build_errors', f'{nm}:{type(e).__name__}')
                break
            drive = list(range(len(ins)))
            if variant == 'undriven-input':
                if not ins:
                    continue
                drive.remove(rr.randint(0, len(ins) - 1))
            for j in drive:
                py4hw.Constant(sysobj, f'k{j}', 0, ins[j])
            replay = dict(stream='library', block=nm, width=w, variant=variant, seed_fork=['lib', i])
            if variant == 'second-driver':
                tgt = rr.choice(outs) if outs else rr.choice(ins)
                src = tgt.getSource()
                nchild = len(sysobj.children)
                try:
                    py4hw.Constant(sysobj, 'dup', 1, tgt)
                    raised = False
                except Exception as e:
                    raised = classify(e) == 'dupSource'
                if src is not None and (not raised or tgt.getSource() is not src):
                    report(res, f'second driver on a driven wire of {nm} accepted or first driver displaced',
                           dict(replay, oracle='conflict_raises', op_kind='ctor', raised=raised))
            dom, und, ios = spec_check(sysobj)
            try:
                quiet(py4hw.debug.checkIntegrity, sysobj)
                real = 'ok'
            except Exception as e:
                real = 'err ' + classify(e)
            res.hist('library', f'{variant}:spec={und}:real={real if real == "ok" else real.split()[1]}')
            res.hist('library_blocks', nm)
            res.count(('library', nm, w, variant, i), hist={'library_width': w if w <= 8 else (w // 16 * 16)})
            if dom and ((real != 'ok') != und):
                report(res, f'{nm} width {w} ({variant}): checkIntegrity {"raised " + real if real != "ok" else "accepted"} but '
                            f'{"a port is" if und else "no port is"} attached to an undriven wire',
                       dict(replay, oracle='check_iff', real=real, real_kind=real.split()[1] if real != 'ok' else 'ok',
                            spec_raises=und, inout_source=ios))
            if variant == 'all-driven' and und:
                # the block itself leaves a port wire undriven although all its inputs are driven
                res.hist('library_internal_undriven', nm)
            # model on the exported hierarchy
            R = ExportedReal()
            export(R, sysobj)
            if len(R.objs) <= 4000:
                lines += R.raw_lines() + ['check 0', 'spec 0']
                expect += [None] * (len(R.objs) + len(R.wires) + len(R.ports) + 1) + \
                          [('check', real, replay), ('spec', '1' if und else '0', replay) if dom else None]
            if i < 4 and variant == 'all-driven':
                res.sample(dict(library_block=nm, width=w, objects=len(R.objs), wires=len(R.wires), ports=len(R.ports), real=real))
    if lines:
        try:
            out = run_driver(DRV, lines)
        except ToolFailure as e:
            res.broken.append(('correspondence', 'driver', str(e)[:400]))
            return
        nrep = 0
        for e, got in zip(expect, out):
            if e is None:
                continue
            res.cov['disagreements_checked'] += 1
            kind, exp, replay = e
            if kind == 'check':
                g2 = ' '.join(got.split()[:2])
                e2 = ' '.join(exp.split()[:2])
                if g2 != e2 and nrep < 5:
                    nrep += 1
                    res.disagree('library:check', dict(replay, real=exp, model=got))
            elif got != exp and nrep < 5:
                nrep += 1
                res.disagree('library:spec', dict(replay, python_spec=exp, lean_spec=got))


# ------------------------------------------------------------------------------------------------
def corpus(res, batch):
    """witnesses of the proposed / known findings and past disagreements, run first"""
    d = os.path.join(VERIF, 'corpus', 'C11')
    n = 0
    for k in PROPOSED + [k for k in load_known() if k.get('property') == 'C11']:
        wit = k.get('witness', {})
        if 'ops' in wit:
            S = Session(res, 'corpus', batch, label=k['id'])
            for op in wit['ops']:
                S.do(tuple(op))
            for o in wit.get('check', []):
                S.check(o)
            S.drivers()
            S.finish()
            n += 1
    if os.path.isdir(d):
        for f in sorted(os.listdir(d)):
            if f.endswith('.json') and f != 'proposed_findings.json':
                wit = json.load(open(os.path.join(d, f)))
                S = Session(res, 'corpus', batch, label=f)
                for op in wit.get('ops', []):
                    S.do(tuple(op))
                for o in wit.get('check', [0]):
                    S.check(o)
                S.drivers()
                S.finish()
                n += 1
    res.hist('corpus', 'histories', n)


def main(res, tier, rng, replay):
    ok, metas, errors, changed = regenerate()           # S0 (C11 has no generated definitions; keeps Gen/ fresh for the build)
    for e in errors:
        res.broken.append(('translator', 'py2lean', e))
    res.proof_stage('Py4hwV.Props.C11', OBLIGATIONS)     # S1
    load_proposed()
    quick = tier == 'quick'
    batch = Batch(res)
    corpus(res, batch)                                   # S2
    batch.run()
    # exhaustive small histories
    n_small = small_exhaustive(res, batch, 2 if quick else 3)
    batch.run()
    # random histories
    n_soup = 500 if quick else 9000
    for i in range(n_soup):
        r = rng.fork(('soup', i))
        soup(res, batch, r, r.randint(5, 50 if quick else 90), i)
    batch.run()
    # single-fault variants of small designs
    n_f = 40 if quick else 500
    for i in range(n_f):
        r = rng.fork(('faults', i))
        faults(res, batch, r, i, r.randint(3, 7 if quick else 14), r.randint(0, 3))
    batch.run()
    # library blocks
    cat = library_catalogue()
    library(res, rng.fork('library'), (3 if quick else 24) * len(cat), cat, [1, 2, 8] if quick else [1, 2, 3, 4, 5, 7, 8, 13, 16, 32, 64])
    res.cov['rule'] = ('soup: one seeded random history of base.py API calls per case (distinct = distinct history); small: all histories of '
                       'length L over a 26-call alphabet after a fixed prelude; faults: per random all-driven design the baseline + one case per '
                       'removed leaf + one per duplicated driver; library: block x width x {all-driven, one input undriven, second driver}. '
                       'Every case: outcome and full object-graph snapshot of the real API vs the Lean model after every call, checkIntegrity outcome '
                       'vs model, and the property oracle (conflict raises / earlier registration stays / single driver / unique names / '
                       'checkIntegrity raises iff an undriven port wire exists) on the real objects.')
    res.cov['small_histories'] = n_small
    res.assumptions += [
        'isPrimitive() is a fixed property of the class (callable propagate/clock attribute), modelled as a flag chosen at creation',
        'check clause judged only on hierarchies whose in/out ports are all attached to ordinary Wire objects (a port with wire None '
        'after disconnectWireFromLogicObject, or attached to a BidirWire, makes checkIntegrity raise AttributeError: outside the statement)',
        'direct attribute assignment (w.source = None, obj.children[...] = ...) bypassing the API is outside the model',
        'the oracle on real objects is a direct Python transcription of the specification (not of base.py); the Lean function '
        'Build.specRaises is evaluated on the same graphs through the driver and compared with it',
        'wire width plays no role in construction-time checks and is not modelled',
    ]


if __name__ == '__main__':
    main_wrapper('C11', main)
