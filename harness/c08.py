"""C08 — Logic, selection and comparison blocks implement their truth tables exactly.
See DESIGN.md §5 C08, lean/Py4hwV/Props/C08.lean, lean/Py4hwV/Lib/{Bitwise,Relational,LogicSpec,LogicDyn}.lean, notes/C08.md.

Streams
  T1                 generated leaf definitions (Gen.*) vs the real propagate() methods
  model-vs-real      every real block (built with py4hw, observed through Wire.get() after propagateAll()/clk()) vs the
                     hand-written functional model Lib.* run by Drv/C08.lean  (exhaustive inputs for small parameters, sampled wide)
  legal-vs-raises    constructor raises  <=>  the model's ...Legal predicate is false
  history-dependence the same instance driven through other orders of the same vectors gives other outputs (outside the spec domain;
                     inside it this is a failing input)
  pyspec-vs-leanspec the Python transcription of the SPECIFICATION (used as fallback oracle when the Lean side does not build)
                     vs the Lean specification functions Lib.LSpec.* evaluated by the driver
  net-sim            flattened netlist of the real block, every wire, vs Net.IR running the generated leaves
Oracle (failing-input search, always run): real outputs vs the specification on every in-domain input  -> res.fail
"""
import os, itertools
from common import *
import t1, dump_ir as D

OBLIGATIONS = []          # filled from OBLIGATIONS_TXT below
OBLIGATIONS_TXT = """
Leaf.gen_and2 Leaf.gen_or2 Leaf.gen_not Leaf.gen_buf Leaf.gen_bit Leaf.gen_mux2 Leaf.gen_const Leaf.gen_repeat Leaf.gen_range Leaf.gen_sub
C08.gen_bitsLSBF C08.gen_bitsMSBF C08.gen_concatMSBF C08.gen_concatLSBF
C08.gen_and2_spec C08.gen_or2_spec C08.gen_not_spec C08.gen_buf_spec C08.gen_bit_spec C08.gen_mux2_spec C08.gen_repeat_spec
C08.gen_range_spec C08.gen_constant_spec C08.gen_bitsLSBF_spec C08.gen_concatMSBF_spec
C08.testBit_ofBitFn C08.eq_ofBitFn
C08.and2_spec C08.or2_spec C08.not_spec C08.buf_spec C08.andN_spec C08.orN_spec C08.nand2_spec C08.nor2_spec C08.norN_spec
C08.xor2_spec C08.xorN_spec
C08.bit_spec C08.range_spec C08.bitsLSBF_spec C08.bitsMSBF_spec C08.concatMSBF_spec C08.concatLSBF_spec C08.repeat_spec
C08.bufEnable_spec C08.andBits_spec C08.orBits_spec
C08.mux2_spec C08.mux_spec C08.demux_spec C08.decoder_spec C08.select_spec C08.select_onehot C08.oneHotDemux_spec
C08.selectDefault_spec C08.priorityEncoder_inc_spec C08.priorityEncoder_dec_spec C08.minterm_spec C08.sumOfMinterms_spec
C08.swap_spec
C08.equal_spec C08.equalConstant_spec C08.equalConstant_wrap C08.notEqualConstant_spec C08.anyEqual_spec C08.comparator_spec
C08.comparatorSU_spec C08.max2_spec C08.min2_spec C08.signedMax2_spec C08.signedMin2_spec
C08.sumOfMinterms_wrap C08.sumOfMintermsWrap_congr C08.sumOfMintermsWrap_in_range C08.sumOfMinterms_complement
C08.priorityEncoder_general C08.priorityEncoder_spec_of_le C08.minterm_wide C08.equalConstant_wide C08.equalConstantW_one
C08.notEqualConstant_wide C08.equal_wide C08.comparator_wide
C08.sumOfMinterms_out_of_range_counterexample C08.priorityEncoder_narrow_first_counterexample C08.equal_wide_counterexample
C08.andN_spec_of_legal C08.orN_spec_of_legal C08.norN_spec_of_legal C08.xorN_spec_of_legal C08.concatMSBF_spec_of_legal
C08.concatLSBF_spec_of_legal C08.bufEnable_spec_of_legal C08.andBits_spec_of_legal C08.orBits_spec_of_legal C08.muxLegal_iff
C08.mux_spec_of_legal C08.demux_spec_of_legal C08.decoder_spec_of_legal C08.select_spec_of_legal C08.sumOfMinterms_wrap_of_legal
C08.equalConstant_wide_of_legal C08.equal_wide_of_legal C08.comparator_wide_of_legal C08.comparatorSU_spec_of_legal
C08.mux_zero_select_counterexample
C08.xor2_val C08.xor2_wide_fixed C08.norN_wide_fixed C08.nor2_wide_fixed C08.equalConstant_out_of_range_counterexample C08.priorityEncoder_docstring_counterexample
"""


# proposals for /verif/known_findings.json (the integrator merges them); consulted locally in addition to that file.
# status "fixed" (with the repairing /repo commit) suppresses nothing: a reappearance of that failure is a VIOLATION,
# also while known_findings.json should still list the entry as "known".
PROPOSED_FINDINGS = [
    {"id": "C08-xor2-wide", "property": "C08", "status": "fixed", "fixed_by": "4cfd4ac", "anchor": "py4hw/logic/bitwise.py:759",
     "class_expr": "(r.get('block_kind') == 'Xor2' and r['lean_params'][2] > r['lean_params'][0]) or "
                   "(r.get('block_kind') == 'Xor' and r['lean_params'][0] > r['lean_params'][1])",
     "witness": {"block": "Xor2", "aw": 8, "bw": 10, "rw": 9, "a": 122, "b": 1, "r_before_fix": 379, "r": 123},
     "what": "Xor2 (and Xor) with a result wire wider than operand a: the internal NAND wires had the width of a, so the upper "
             "result bits read 1 instead of a ^ b"},
    {"id": "C08-nor-wide", "property": "C08", "status": "fixed", "fixed_by": "99fa1f2", "anchor": "py4hw/logic/bitwise.py:450",
     "class_expr": "r.get('block_kind') == 'Nor' and r['lean_params'][0] > r['lean_params'][1] and "
                   "max(r['inputs']) >= 2 ** r['lean_params'][1]",
     "witness": {"block": "Nor", "input_widths": [6, 7, 8, 4], "rw": 8, "inputs": [41, 54, 127, 1], "r_before_fix": 192, "r": 128},
     "what": "Nor with a result wire and later inputs wider than the first input: Mid had the width of ins[0], so the upper bits "
             "of the other inputs were dropped before the Not"},
    {"id": "C08-nor2-wide", "property": "C08", "status": "fixed", "fixed_by": "aa5aa9b", "anchor": "py4hw/logic/bitwise.py:483",
     "class_expr": "r.get('block_kind') == 'Nor2' and r['lean_params'][1] > r['lean_params'][0] and "
                   "r['inputs'][1] >= 2 ** r['lean_params'][0]",
     "witness": {"block": "Nor2", "aw": 2, "bw": 4, "rw": 4, "a": 0, "b": 12, "r_before_fix": 15, "r": 3},
     "what": "Nor2 with b and r wider than a: Mid had the width of a, the upper bits of b were dropped before the Not "
             "(Nor2(a:2 bits=0, b:4 bits=12, r:4 bits) = 15, not ~(a|b) = 3)"},
    {"id": "C08-priorityencoder-docstring", "property": "C08", "status": "fixed", "fixed_by": "26c0ec8",
     "anchor": "py4hw/logic/bitwise.py:1439", "class_expr": "r.get('block_kind') == 'PriorityEncoder-docstring'",
     "witness": {"a": [1, 1], "inc_priority": True, "r": [0, 1]},
     "what": "PriorityEncoder docstring stated the opposite priority direction of code, inline comment and test suite"},
    {"id": "C08-equalconstant-out-of-range", "property": "C08", "status": "known", "anchor": "py4hw/logic/relational.py:109",
     "class_expr": "r.get('block_kind') == 'EqualConstant' and r.get('constant_out_of_range') is True",
     "witness": {"block": "EqualConstant", "width": 1, "v": 2, "a": 1, "r": 1},
     "what": "EqualConstant with a constant outside [0, 2^width) is active for some input (v mod 2^w; width 1: any nonzero v acts as 1)"},
]


def fail(res, what, replay):
    """res.fail with PROPOSED_FINDINGS consulted first: a failure inside the class of a FIXED finding is a regression and
    always a violation; a `known` proposal not yet listed in known_findings.json is reported as known finding"""
    import common
    listed = {k.get('id') for k in load_known()}
    for k in PROPOSED_FINDINGS:
        if k['status'] == 'fixed' and common._matches(k, what, replay):
            res.failures.append({'what': what + f"  [regression of {k['id']}, fixed by /repo commit {k['fixed_by']}]", 'replay': replay})
            return
    for k in PROPOSED_FINDINGS:
        if k['status'] == 'known' and k['id'] not in listed and common._matches(k, what, replay):
            res.known_hits.append((k, what))
            return
    res.fail(what, replay)


def M(w):
    return (1 << w) - 1


def tb(x, i):
    return (x >> i) & 1


def toS(w, x):
    if w < 1:
        return x
    return x if x < (1 << (w - 1)) else x - (1 << w)


# ------------------------------------------------------------------------------------------------
# the SPECIFICATION, transcribed from lean/Py4hwV/Lib/LogicSpec.lean + the domains of the _spec theorems
# (Lib/LogicDyn.lean).  (dom(P, X) -> bool, spec(P, X) -> list of output values).  Not a transcription of the code.
def _bitfn(rw, f):
    return sum((1 << i) for i in range(rw) if f(i))


def _sel_split(P, X):
    ns = P[1]
    ws = P[2:]
    return X[:ns], list(zip(ws, X[ns:]))


def _prio(P, X):
    w, inc = P[1], P[2] == 1
    out = []
    for i in range(len(X)):
        higher = X[i + 1:] if inc else X[:i]
        out.append(_bitfn(w, lambda k: tb(X[i], k) and all(not tb(h, k) for h in higher)))
    return out


def _prioW(P, X):
    """LSpec.priorityEncoderW: helper wires are lw bits wide, outputs rw bits: the most prioritised input is copied, every other
    output keeps bit k only for k < lw and when no higher-priority input has it"""
    lw, rw, inc = P[0], P[1], P[2] == 1
    out = []
    for i in range(len(X)):
        higher = X[i + 1:] if inc else X[:i]
        out.append(_bitfn(rw, lambda k: tb(X[i], k) and (not higher or (k < lw and all(not tb(h, k) for h in higher)))))
    return out


def _eqcwrap(aw, a, v):
    """LSpec.equalConstantWrap"""
    return (int(a == 0) if v == 0 else int(a == 1)) if aw == 1 else int(a == v % (1 << aw))


def _first_active(sels, ins, d, rw):
    for s, v in zip(sels, ins):
        if s % 2 == 1:
            return v & M(rw)
    return d & M(rw)


SPEC = {
    'And2': (lambda P, X: True, lambda P, X: [X[0] & X[1] & M(P[0])]),
    'Or2': (lambda P, X: True, lambda P, X: [(X[0] | X[1]) & M(P[0])]),
    'Not': (lambda P, X: True, lambda P, X: [~X[0] & M(P[0])]),
    'Buf': (lambda P, X: True, lambda P, X: [X[0] & M(P[0])]),
    'And': (lambda P, X: True, lambda P, X: [_bitfn(P[0], lambda i: all(tb(x, i) for x in X))]),
    'Or': (lambda P, X: True, lambda P, X: [_bitfn(P[0], lambda i: any(tb(x, i) for x in X))]),
    'Xor': (lambda P, X: all(x <= M(w) for w, x in zip(P[1:], X)),          # every width mix (since /repo 4cfd4ac)
            lambda P, X: [_bitfn(P[0], lambda i: sum(tb(x, i) for x in X) % 2 == 1)]),
    'Nor': (lambda P, X: True,                                               # every width mix (since /repo 99fa1f2)
            lambda P, X: [_bitfn(P[0], lambda i: not any(tb(x, i) for x in X))]),
    'Nand2': (lambda P, X: P[1] <= P[0] or X[0] <= M(P[0]), lambda P, X: [~(X[0] & X[1]) & M(P[1])]),
    'Nor2': (lambda P, X: True,                                              # every width mix (since /repo aa5aa9b)
             lambda P, X: [~(X[0] | X[1]) & M(P[1])]),
    'Xor2': (lambda P, X: X[0] <= M(P[0]) and X[1] <= M(P[1]), lambda P, X: [(X[0] ^ X[1]) & M(P[2])]),   # every width mix
    'Bit': (lambda P, X: P[0] >= 1, lambda P, X: [tb(X[0], P[1])]),
    'Range': (lambda P, X: True, lambda P, X: [_bitfn(P[0], lambda i: i <= P[1] - P[2] and tb(X[0], P[2] + i))]),
    'BitsLSBF': (lambda P, X: True, lambda P, X: [tb(X[0], i) for i in range(P[0])]),
    'BitsMSBF': (lambda P, X: True, lambda P, X: [tb(X[0], P[0] - 1 - i) for i in range(P[0])]),
    'ConcatenateMSBF': (lambda P, X: all(x <= M(w) for w, x in zip(P[1:], X)),
                        lambda P, X: [sum(x << sum(P[2 + j:]) for j, x in enumerate(X))]),
    'ConcatenateLSBF': (lambda P, X: all(x <= M(w) for w, x in zip(P[1:], X)),
                        lambda P, X: [sum(x << sum(P[1:1 + j]) for j, x in enumerate(X))]),
    'Repeat': (lambda P, X: X[0] < 2, lambda P, X: [M(P[0]) if X[0] == 1 else 0]),
    'Constant': (lambda P, X: 0 <= P[1] <= M(P[0]), lambda P, X: [P[1]]),
    'BufEnable': (lambda P, X: X[1] < 2, lambda P, X: [X[0] & M(P[2]) if X[1] == 1 else 0]),
    'AndBits': (lambda P, X: P[1] >= 1 and X[0] <= M(P[0]), lambda P, X: [int(X[0] == M(P[0]))]),
    'OrBits': (lambda P, X: P[1] >= 1 and X[0] <= M(P[0]), lambda P, X: [int(X[0] != 0)]),
    'Mux2': (lambda P, X: True, lambda P, X: [(X[2] if X[0] % 2 == 1 else X[1]) & M(P[0])]),
    'Mux': (lambda P, X: P[1] >= 1 and X[0] <= M(P[1]), lambda P, X: [(X[1:][X[0]] if X[0] < len(X) - 1 else 0) & M(P[0])]),
    'Demux': (lambda P, X: X[1] <= M(P[1]), lambda P, X: [X[0] & M(P[0]) if i == X[1] else 0 for i in range(1 << P[1])]),
    'Decoder': (lambda P, X: X[0] <= M(P[0]) and P[1] <= (1 << P[0]), lambda P, X: [int(i == X[0]) for i in range(P[1])]),
    'Select': (lambda P, X: all(s < 2 for s in X[:P[1]]),
               lambda P, X: [_bitfn(P[0], lambda i: any(s == 1 and i < w and tb(v, i) for s, (w, v) in zip(*_sel_split(P, X))))]),
    'OneHotDemux': (lambda P, X: all(s < 2 for s in X[1:]),
                    lambda P, X: [(X[0] & M(P[0]) & M(ow)) if s == 1 else 0 for s, ow in zip(X[1:], P[2:])]),
    'SelectDefault': (lambda P, X: True,
                      lambda P, X: [_first_active(X[:P[1]], X[P[1]:P[1] + P[2]], X[P[1] + P[2]], P[0])]),
    'PriorityEncoder': (lambda P, X: P[1] <= P[0], _prio),      # outputs not wider than the most prioritised input; any inputs
    'PriorityEncoderW': (lambda P, X: True, _prioW),            # every mix of widths (C08.priorityEncoder_general)
    'Minterm': (lambda P, X: P[0] >= 1 and all(x < 2 for x in X),
                lambda P, X: [int(all((X[i] == 1) == (((P[1] >> i) & 1) == 1) for i in range(len(X))))]),
    'SumOfMinterms': (lambda P, X: P[1] >= 1 and X[0] <= M(P[0]) and all(0 <= m <= M(P[0]) for m in P[2:]),
                      lambda P, X: [int(any(X[0] == m for m in P[2:]))]),
    # exact characterisations outside the documented domain (Lib.LSpec.*W / *Wrap, C08.*_wide / *_wrap theorems)
    'SumOfMintermsWrap': (lambda P, X: P[1] >= 1 and X[0] <= M(P[0]), lambda P, X: [int(any(X[0] == m % (1 << P[0]) for m in P[2:]))]),
    'EqualConstantW': (lambda P, X: X[0] <= M(P[0]),
                       lambda P, X: [(~X[0] & M(P[1])) if P[0] == 1 and P[2] == 0 else _eqcwrap(P[0], X[0], P[2]) & M(P[1])]),
    'NotEqualConstantW': (lambda P, X: X[0] <= M(P[0]), lambda P, X: [~_eqcwrap(P[0], X[0], P[2]) & M(P[1])]),
    'EqualW': (lambda P, X: all(x <= M(P[0]) for x in X) and X[1] <= M(P[1]), lambda P, X: [~int(X[0] != X[1]) & M(P[2])]),
    'ComparatorW': (lambda P, X: P[2] >= 1 and all(x <= M(P[0]) for x in X),
                    lambda P, X: [int(X[0] > X[1]) & M(P[1]), M(P[2]) if P[0] == 0 else int(X[0] == X[1]) & M(P[2]), int(X[0] < X[1])]),
    'EqualConstant': (lambda P, X: P[1] == 1 and X[0] <= M(P[0]) and 0 <= P[2] <= M(P[0]), lambda P, X: [int(X[0] == P[2])]),
    'EqualConstantWrap': (lambda P, X: P[1] == 1 and X[0] <= M(P[0]),
                          lambda P, X: [(int(X[0] == 0) if P[2] == 0 else int(X[0] == 1)) if P[0] == 1 else int(X[0] == P[2] % (1 << P[0]))]),
    'NotEqualConstant': (lambda P, X: P[1] == 1 and X[0] <= M(P[0]) and 0 <= P[2] <= M(P[0]), lambda P, X: [int(X[0] != P[2])]),
    'Equal': (lambda P, X: P[2] == 1 and all(x <= M(P[0]) for x in X) and X[1] <= M(P[1]), lambda P, X: [int(X[0] == X[1])]),
    'AnyEqual': (lambda P, X: P[0] >= 1 and all(w == P[1] for w in P[1:]) and all(x <= M(P[1]) for x in X),
                 lambda P, X: [int(len(set(X)) < len(X))]),
    'Comparator': (lambda P, X: P[1] == 1 and P[2] == 1 and all(x <= M(P[0]) for x in X),
                   lambda P, X: [int(X[0] > X[1]), int(X[0] == X[1]), int(X[0] < X[1])]),
    'ComparatorSignedUnsigned': (lambda P, X: all(x <= M(P[0]) for x in X),
                                 lambda P, X: [int(X[0] > X[1]), int(X[0] == X[1]), int(X[0] < X[1]),
                                               int(toS(P[0], X[0]) > toS(P[0], X[1])), int(toS(P[0], X[0]) < toS(P[0], X[1]))]),
    'Max2': (lambda P, X: all(x <= M(P[0]) for x in X), lambda P, X: [max(X) & M(P[1])]),
    'Min2': (lambda P, X: all(x <= M(P[0]) for x in X), lambda P, X: [min(X) & M(P[1])]),
    'SignedMax2': (lambda P, X: all(x <= M(P[0]) for x in X),
                   lambda P, X: [(X[1] if toS(P[0], X[0]) < toS(P[0], X[1]) else X[0]) & M(P[1])]),
    'SignedMin2': (lambda P, X: all(x <= M(P[0]) for x in X),
                   lambda P, X: [(X[1] if toS(P[0], X[1]) < toS(P[0], X[0]) else X[0]) & M(P[1])]),
    'Swap': (lambda P, X: True, lambda P, X: [X[1] & M(P[0]), X[0] & M(P[1])] if X[2] % 2 == 1 else [X[0] & M(P[0]), X[1] & M(P[1])]),
}
SPEC['OneHotMux'] = SPEC['Select']


# ------------------------------------------------------------------------------------------------
class Case:
    """one constructor call: kind, Lean parameter list P, input wire widths, output wire widths, ctor(L, sys, ins, outs)"""

    def __init__(self, kind, P, inw, outw, ctor, real=None):
        self.kind, self.P, self.inw, self.outw, self.ctor = kind, [int(p) for p in P], list(inw), list(outw), ctor
        self.real = real or kind          # class actually instantiated (EqualConstantWrap -> EqualConstant)
        self.alias = {}                   # input position j -> earlier position k: both positions are THE SAME Wire object

    def key(self):
        return (self.kind, tuple(self.P), tuple(self.inw), tuple(self.outw), tuple(sorted(self.alias.items())))

    def summary(self):
        d = dict(block=self.real, lean_params=self.P, input_widths=self.inw, output_widths=self.outw)
        if self.alias:
            d['same_wire'] = {str(j): k for j, k in sorted(self.alias.items())}
        return d

    def aliased(self, amap):
        """the same constructor call with input position j wired to the Wire object of position amap[j] (equal widths)"""
        for j, k in amap.items():
            assert k < j and self.inw[j] == self.inw[k] and k not in amap, (self.kind, amap, self.inw)
        self.alias = dict(amap)
        return self

    def free(self):
        return [j for j in range(len(self.inw)) if j not in self.alias]

    def fix(self, X):
        """make a vector consistent with the aliasing (position j carries the value of its wire)"""
        X = list(X)
        for j, k in self.alias.items():
            X[j] = X[k]
        return X


def mk(kind, **a):
    """parameter dict -> Case"""
    g = a.get
    if kind in ('And2', 'Or2'):
        return Case(kind, [a['rw']], [a['aw'], a['bw']], [a['rw']], lambda L, s, i, o: getattr(L, kind)(s, 'dut', i[0], i[1], o[0]))
    if kind in ('Not', 'Buf'):
        return Case(kind, [a['rw']], [a['aw']], [a['rw']], lambda L, s, i, o: getattr(L, kind)(s, 'dut', i[0], o[0]))
    if kind in ('And', 'Or'):
        return Case(kind, [a['rw']], a['ws'], [a['rw']], lambda L, s, i, o: getattr(L, kind)(s, 'dut', i, o[0]))
    if kind == 'Xor':
        return Case(kind, [a['rw']] + a['ws'], a['ws'], [a['rw']], lambda L, s, i, o: L.Xor(s, 'dut', i, o[0]))
    if kind == 'Nor':
        return Case(kind, [a['rw'], (a['ws'] or [0])[0]], a['ws'], [a['rw']], lambda L, s, i, o: L.Nor(s, 'dut', i, o[0]))
    if kind in ('Nand2', 'Nor2'):
        return Case(kind, [a['aw'], a['rw']], [a['aw'], a['bw']], [a['rw']], lambda L, s, i, o: getattr(L, kind)(s, 'dut', i[0], i[1], o[0]))
    if kind == 'Xor2':
        return Case(kind, [a['aw'], a['bw'], a['rw']], [a['aw'], a['bw']], [a['rw']], lambda L, s, i, o: L.Xor2(s, 'dut', i[0], i[1], o[0]))
    if kind == 'Bit':
        return Case(kind, [a['rw'], a['k']], [a['aw']], [a['rw']], lambda L, s, i, o: L.Bit(s, 'dut', i[0], a['k'], o[0]))
    if kind == 'Range':
        return Case(kind, [a['rw'], a['hi'], a['lo']], [a['aw']], [a['rw']], lambda L, s, i, o: L.Range(s, 'dut', i[0], a['hi'], a['lo'], o[0]))
    if kind in ('BitsLSBF', 'BitsMSBF'):
        return Case(kind, [a['aw']], [a['aw']], a.get('ows', [1] * a['aw']), lambda L, s, i, o: getattr(L, kind)(s, 'dut', i[0], o))
    if kind in ('ConcatenateMSBF', 'ConcatenateLSBF'):
        return Case(kind, [a['rw']] + a['ws'], a['ws'], [a['rw']], lambda L, s, i, o: getattr(L, kind)(s, 'dut', i, o[0]))
    if kind == 'Repeat':
        return Case(kind, [a['rw']], [1], [a['rw']], lambda L, s, i, o: L.Repeat(s, 'dut', i[0], o[0]))
    if kind == 'Constant':
        return Case(kind, [a['rw'], a['v']], [], [a['rw']], lambda L, s, i, o: L.Constant(s, 'dut', a['v'], o[0]))
    if kind == 'BufEnable':
        return Case(kind, [a['aw'], a['enw'], a['rw']], [a['aw'], a['enw']], [a['rw']], lambda L, s, i, o: L.BufEnable(s, 'dut', i[0], i[1], o[0]))
    if kind in ('AndBits', 'OrBits'):
        return Case(kind, [a['aw'], a['rw']], [a['aw']], [a['rw']], lambda L, s, i, o: getattr(L, kind)(s, 'dut', i[0], o[0]))
    if kind == 'Mux2':
        return Case(kind, [a['rw']], [a['sw'], a['w0'], a['w1']], [a['rw']], lambda L, s, i, o: L.Mux2(s, 'dut', i[0], i[1], i[2], o[0]))
    if kind == 'Mux':
        return Case(kind, [a['rw'], a['sw'], len(a['ws'])], [a['sw']] + a['ws'], [a['rw']], lambda L, s, i, o: L.Mux(s, 'dut', i[0], i[1:], o[0]))
    if kind == 'Demux':
        return Case(kind, [a['aw'], a['sw'], a['n']], [a['aw'], a['sw']], [a['aw']] * a['n'], lambda L, s, i, o: L.Demux(s, 'dut', i[0], i[1], o))
    if kind == 'Decoder':
        return Case(kind, [a['aw'], a['n']], [a['aw']], [1] * a['n'], lambda L, s, i, o: L.Decoder(s, 'dut', i[0], o))
    if kind in ('Select', 'OneHotMux'):
        ns = a['ns']
        return Case(kind, [a['rw'], ns] + a['ws'], [1] * ns + a['ws'], [a['rw']], lambda L, s, i, o: getattr(L, kind)(s, 'dut', i[:ns], i[ns:], o[0]))
    if kind == 'OneHotDemux':
        ns = a['ns']
        return Case(kind, [a['aw'], ns] + a['ows'], [a['aw']] + [1] * ns, a['ows'], lambda L, s, i, o: L.OneHotDemux(s, 'dut', i[1:], i[0], o))
    if kind == 'SelectDefault':
        ns, ni = a['ns'], len(a['ws'])
        return Case(kind, [a['rw'], ns, ni], [a.get('selw', 1)] * ns + a['ws'] + [a['dw']], [a['rw']],
                    lambda L, s, i, o: L.SelectDefault(s, 'dut', i[:ns], i[ns:ns + ni], i[ns + ni], o[0]))
    if kind == 'PriorityEncoder':
        ws, inc = a['ws'], a['inc']
        lw = (ws[-1] if inc else ws[0]) if ws else 0
        return Case(kind, [lw, a['rw'], int(inc)], ws, [a['rw']] * len(ws), lambda L, s, i, o: L.PriorityEncoder(s, 'dut', i, o, inc))
    if kind == 'Minterm':
        return Case(kind, [a['rw'], a['v']], [1] * a['n'], [a['rw']], lambda L, s, i, o: L.Minterm(s, 'dut', i, a['v'], o[0]))
    if kind == 'SumOfMinterms':
        return Case(kind, [a['aw'], a['rw']] + a['ms'], [a['aw']], [a['rw']], lambda L, s, i, o: L.SumOfMinterms(s, 'dut', i[0], a['ms'], o[0]))
    if kind in ('EqualConstant', 'NotEqualConstant', 'EqualConstantWrap'):
        real = 'EqualConstant' if kind == 'EqualConstantWrap' else kind
        return Case(kind, [a['aw'], a['rw'], a['v']], [a['aw']], [a['rw']], lambda L, s, i, o: getattr(L, real)(s, 'dut', i[0], a['v'], o[0]), real=real)
    if kind == 'Equal':
        return Case(kind, [a['aw'], a['bw'], a['rw']], [a['aw'], a['bw']], [a['rw']], lambda L, s, i, o: L.Equal(s, 'dut', i[0], i[1], o[0]))
    if kind == 'AnyEqual':
        return Case(kind, [a['rw']] + a['ws'], a['ws'], [a['rw']], lambda L, s, i, o: L.AnyEqual(s, 'dut', i, o[0]))
    if kind == 'Comparator':
        return Case(kind, [a['w'], a['gw'], a['ew'], g('bw', a['w'])], [a['w'], g('bw', a['w'])], [a['gw'], a['ew'], 1],
                    lambda L, s, i, o: L.Comparator(s, 'dut', i[0], i[1], o[0], o[1], o[2]))
    if kind == 'ComparatorSignedUnsigned':
        return Case(kind, [a['w'], g('bw', a['w'])], [a['w'], g('bw', a['w'])], [1] * 5,
                    lambda L, s, i, o: L.ComparatorSignedUnsigned(s, 'dut', i[0], i[1], o[0], o[1], o[2], o[3], o[4]))
    if kind in ('Max2', 'Min2', 'SignedMax2', 'SignedMin2'):
        return Case(kind, [a['w'], a['rw']], [a['w'], a['w']], [a['rw']], lambda L, s, i, o: getattr(L, kind)(s, 'dut', i[0], i[1], o[0]))
    if kind == 'Swap':
        return Case(kind, [a['raw'], a['rbw']], [a['aw'], a['bw'], a['sw']], [a['raw'], a['rbw']],
                    lambda L, s, i, o: L.Swap(s, 'dut', i[0], i[1], i[2], o[0], o[1]))
    raise KeyError(kind)


def build(case):
    """-> (sys, sim, ins, outs) or ('E', message)"""
    import py4hw
    sysobj = py4hw.HWSystem()
    ins = [sysobj.wire(f'i{j}', w) for j, w in enumerate(case.inw)]
    for j, k in case.alias.items():
        ins[j] = ins[k]
    outs = [sysobj.wire(f'o{j}', w) for j, w in enumerate(case.outw)]
    try:
        case.ctor(py4hw, sysobj, ins, outs)
        sim = sysobj.getSimulator()
    except Exception as e:
        return ('E', f'{type(e).__name__}: {e}'[:80])
    return sysobj, sim, ins, outs


HIST_N = 40          # vectors per re-ordering of the history pass


def run_real(case, vectors, hist_rng=None, anomalies=None):
    """one instance, the vectors one after the other (every 5th step through clk(1), the others through propagateAll()).
    With `hist_rng`: afterwards the SAME instance is driven through further histories of the same vectors — descending order,
    a seeded shuffle, and every vector preceded by the all-ones vector and followed by the all-zeros vector — and every output is
    compared with the one observed for that vector in the first pass: a combinational block is a function of its current inputs.
    Differences are appended to `anomalies` as (vector, output now, output in the first pass, the preceding vectors)."""
    b = build(case)
    if b[0] == 'E':
        return b
    sysobj, sim, ins, outs = b
    R = []

    def step(n, X):
        for w, v in zip(ins, X):
            w.put(v)
        if n % 5 == 4:
            sim.clk(1)
        else:
            sim.propagateAll()
        return [o.get() for o in outs]
    for n, X in enumerate(vectors):
        R.append(step(n, X))
    if hist_rng is not None and len(vectors) > 1 and anomalies is not None:
        first = {}
        for X, o in zip(vectors, R):
            first.setdefault(tuple(X), o)
        idx = list(range(len(vectors)))
        order = idx[::-1][:HIST_N] + hist_rng.shuffle(idx)[:HIST_N]
        seq = [vectors[k] for k in order]
        ones, zeros = case.fix([M(w) for w in case.inw]), [0] * len(case.inw)
        if tuple(ones) in first and tuple(zeros) in first:
            for k in hist_rng.shuffle(idx)[:HIST_N // 2]:
                seq += [ones, vectors[k], zeros, vectors[k]]
        trail = list(vectors[-3:])
        for n, X in enumerate(seq):
            o = step(n + len(vectors), X)
            if o != first[tuple(X)]:
                anomalies.append((list(X), o, first[tuple(X)], [list(t) for t in trail[-4:]]))
                if len(anomalies) >= 3:
                    break
            trail.append(X)
    return R


def fresh_output(case, X):
    """the outputs of a FRESH instance evaluated for this single vector (replay aid: tells history effects from plain wrong values)"""
    R = run_real(case, [X])
    return None if (not R or R[0] == 'E') else R[0]


# ------------------------------------------------------------------------------------------------
def small_cases(tier):
    """every small parameter combination (run with EXHAUSTIVE inputs when total input bits <= limit)"""
    W = [1, 2, 3]
    C = []
    add = lambda kind_, **a: C.append(mk(kind_, **a))
    for rw in W:
        for aw in W:
            add('Not', rw=rw, aw=aw)
            add('Buf', rw=rw, aw=aw)
            for bw in W:
                add('And2', rw=rw, aw=aw, bw=bw)
                add('Or2', rw=rw, aw=aw, bw=bw)
                add('Nand2', rw=rw, aw=aw, bw=bw)
                add('Nor2', rw=rw, aw=aw, bw=bw)
                add('Xor2', rw=rw, aw=aw, bw=bw)
                add('Equal', rw=rw, aw=aw, bw=bw)
    # n-ary gates: arities 0..9 (1-bit), 0..5 (2-bit), 0..4 (3-bit); mixed widths for a few
    for k in ('And', 'Or', 'Xor', 'Nor'):
        for w, nmax in ((1, 9), (2, 5), (3, 4)):
            for n in range(0, nmax + 1):
                add(k, rw=w, ws=[w] * n)
        add(k, rw=2, ws=[3, 1, 2])
        add(k, rw=3, ws=[2, 2, 2])
        add(k, rw=1, ws=[2, 3])
        add(k, rw=3, ws=[1, 3, 2, 2])
    for aw in (1, 2, 3, 4, 5, 8):
        for rw in (1, 2):
            add('AndBits', aw=aw, rw=rw)
            add('OrBits', aw=aw, rw=rw)
        add('BitsLSBF', aw=aw)
        add('BitsMSBF', aw=aw)
        for k in range(0, aw + 1):
            add('Bit', rw=1, k=k, aw=aw)
        add('Bit', rw=2, k=aw - 1, aw=aw)
    for aw in (1, 2, 3, 4, 6):
        for lo in range(aw):
            for hi in range(lo, aw):
                add('Range', rw=hi - lo + 1, hi=hi, lo=lo, aw=aw)
        add('Range', rw=2, hi=aw - 1, lo=0, aw=aw)
        add('Range', rw=aw + 1, hi=aw - 1, lo=0, aw=aw)
    add('Range', rw=2, hi=0, lo=1, aw=3)                  # assertion
    add('AndBits', aw=0, rw=1)
    add('OrBits', aw=0, rw=1)
    for k in ('ConcatenateMSBF', 'ConcatenateLSBF'):
        for ws in ([1], [2], [1, 1], [1, 2], [2, 1], [3, 2], [1, 2, 3], [2, 2, 2], [1, 1, 1, 1], [3, 1, 2, 1], [1] * 6, []):
            add(k, rw=sum(ws), ws=ws)
            add(k, rw=sum(ws) + 2, ws=ws)
            if sum(ws) > 1:
                add(k, rw=sum(ws) - 1, ws=ws)             # raises
    for rw in (1, 2, 3, 5, 8):
        add('Repeat', rw=rw)
        for v in (0, 1, M(rw), M(rw) + 1, -1, 5):
            add('Constant', rw=rw, v=v)
        for aw in (rw, rw + 1):
            for enw in (1, 2):
                if rw <= 5:
                    add('BufEnable', aw=aw, enw=enw, rw=rw)
    for rw in W:
        for sw in (1, 2):
            add('Mux2', rw=rw, sw=sw, w0=rw, w1=rw)
        add('Mux2', rw=rw, sw=1, w0=rw + 1, w1=1)
    # Mux: sel widths 1..3 with 2^sw inputs; wrong sizes
    for rw in (1, 2):
        add('Mux', rw=rw, sw=1, ws=[rw, rw])
        add('Mux', rw=rw, sw=2, ws=[rw] * 4)
        add('Mux', rw=rw, sw=1, ws=[rw] * 3)              # accepted: int(log2(3)) == 1, third input ignored
        add('Mux', rw=rw, sw=2, ws=[rw] * 5)              # raises (not a power of two)
        add('Mux', rw=rw, sw=2, ws=[rw] * 2)              # raises (select width)
        add('Mux', rw=rw, sw=1, ws=[])                    # raises
    add('Mux', rw=1, sw=3, ws=[1] * 8)
    add('Mux', rw=2, sw=2, ws=[3, 1, 2, 2])
    add('Mux', rw=1, sw=4, ws=[1] * 16)
    add('Mux', rw=1, sw=2, ws=[1] * 7)
    for aw in W:
        for sw in (1, 2, 3):
            add('Demux', aw=aw, sw=sw, n=1 << sw)
        add('Demux', aw=aw, sw=2, n=3)                    # assertion
        for n in (0, 1, 2, 3, 1 << aw, (1 << aw) + 1):
            add('Decoder', aw=aw, n=n)
    add('Decoder', aw=4, n=16)
    add('Decoder', aw=0, n=1)
    for k in ('Select', 'OneHotMux'):
        for w in W:
            for ns in range(0, 4 if w > 1 else 6):
                add(k, rw=w, ns=ns, ws=[w] * ns)
        add(k, rw=2, ns=2, ws=[2, 2, 2])                  # surplus input ignored
        add(k, rw=2, ns=3, ws=[2, 2])                     # raises
        add(k, rw=2, ns=3, ws=[3, 1, 2])
        add(k, rw=3, ns=2, ws=[2, 2])
    for aw in W:
        for ns in range(0, 5):
            add('OneHotDemux', aw=aw, ns=ns, ows=[aw] * ns)
        add('OneHotDemux', aw=aw, ns=2, ows=[1, aw + 1])
        add('OneHotDemux', aw=aw, ns=3, ows=[aw, aw])     # raises
    for rw in W:
        for ns in range(0, 4 if rw > 1 else 6):
            add('SelectDefault', rw=rw, ns=ns, ws=[rw] * ns, dw=rw)
        add('SelectDefault', rw=rw, ns=2, ws=[rw] * 3, dw=rw)
        add('SelectDefault', rw=rw, ns=3, ws=[rw] * 2, dw=rw)     # raises
        add('SelectDefault', rw=rw, ns=2, ws=[rw + 1, 1], dw=rw + 1)
    add('SelectDefault', rw=2, ns=2, ws=[2, 2], dw=2, selw=2)
    for inc in (True, False):
        for n in range(0, 10):
            add('PriorityEncoder', ws=[1] * n, rw=1, inc=inc)
        for n in range(1, 6):
            add('PriorityEncoder', ws=[2] * n, rw=2, inc=inc)
        add('PriorityEncoder', ws=[3] * 3, rw=3, inc=inc)
        add('PriorityEncoder', ws=[2, 1, 1], rw=1, inc=inc)
        add('PriorityEncoder', ws=[1, 1, 2], rw=2, inc=inc)
    for n in range(0, 6):
        for v in sorted(set([0, 1, 2, 5, M(n), M(n) + 1, (1 << n) + 2, -1, -2]) if n else [0, 1]):
            add('Minterm', rw=1, n=n, v=v)
    add('Minterm', rw=2, n=3, v=5)
    for aw in (1, 2, 3, 4):
        full = list(range(1 << aw))
        for ms in ([], [0], [M(aw)], full, full[::2], full[1::3], [1, 1], [0, M(aw) + 1], [M(aw), 1, 0]):
            add('SumOfMinterms', aw=aw, rw=1, ms=ms)
        add('SumOfMinterms', aw=aw, rw=2, ms=[1])
    add('SumOfMinterms', aw=0, rw=1, ms=[0])
    for aw in (0, 1, 2, 3, 4):
        for v in list(range(0, (1 << aw) + 3)) + [-1, -2, 1 << (aw + 2)]:
            for k in ('EqualConstant', 'NotEqualConstant', 'EqualConstantWrap'):
                add(k, aw=aw, rw=1, v=v)
        add('EqualConstant', aw=aw, rw=2, v=0)
        add('NotEqualConstant', aw=aw, rw=2, v=1)
    for ws in ([], [1], [1, 1], [2, 2], [3, 3], [1, 1, 1], [2, 2, 2], [3, 3, 3], [2, 2, 2, 2], [1] * 5, [2] * 5, [2, 3], [1, 2, 2]):
        add('AnyEqual', rw=1, ws=ws)
    add('AnyEqual', rw=2, ws=[2, 2, 2])
    add('AnyEqual', rw=1, ws=[0, 0])
    for w in (0, 1, 2, 3, 4, 5):
        add('Comparator', w=w, gw=1, ew=1)
        add('ComparatorSignedUnsigned', w=w)
        for k in ('Max2', 'Min2', 'SignedMax2', 'SignedMin2'):
            add(k, w=w, rw=w)
            add(k, w=w, rw=w + 1)
            if w > 1:
                add(k, w=w, rw=w - 1)
    add('Comparator', w=2, gw=2, ew=2)
    add('Comparator', w=2, gw=1, ew=1, bw=3)             # raises
    add('ComparatorSignedUnsigned', w=2, bw=3)           # raises
    for raw, rbw, aw, bw in ((1, 1, 1, 1), (2, 2, 2, 2), (3, 3, 3, 3), (2, 3, 3, 2), (1, 2, 2, 2)):
        for sw in (1, 2):
            add('Swap', raw=raw, rbw=rbw, aw=aw, bw=bw, sw=sw)
    if tier != 'quick':
        for k in ('And', 'Or', 'Xor', 'Nor'):
            for w, nmax in ((1, 12), (2, 6), (3, 4), (4, 3)):
                add(k, rw=w, ws=[w] * nmax)
        add('Mux', rw=2, sw=3, ws=[2] * 8)
        add('Mux', rw=1, sw=5, ws=[1] * 32)
        add('Decoder', aw=5, n=32)
        add('Demux', aw=2, sw=4, n=16)
        for w in (6, 7, 8):
            add('Comparator', w=w, gw=1, ew=1)
            add('ComparatorSignedUnsigned', w=w)
            for k in ('Max2', 'Min2', 'SignedMax2', 'SignedMin2'):
                add(k, w=w, rw=w)
            add('Equal', rw=1, aw=w, bw=w)
        for aw in (5, 6, 8):
            for v in (0, 1, M(aw), 1 << (aw - 1), 21):
                add('EqualConstant', aw=aw, rw=1, v=v)
        for inc in (True, False):
            for n in (10, 12, 14):
                add('PriorityEncoder', ws=[1] * n, rw=1, inc=inc)
            add('PriorityEncoder', ws=[2] * 7, rw=2, inc=inc)
            add('PriorityEncoder', ws=[4] * 4, rw=4, inc=inc)
        for ns in (4, 5, 6):
            add('Select', rw=2, ns=ns, ws=[2] * ns)
            add('SelectDefault', rw=2, ns=ns, ws=[2] * ns, dw=2)
        add('AnyEqual', rw=1, ws=[3] * 5)
        add('AnyEqual', rw=1, ws=[2] * 8)
    return C


def random_case(r, wmax):
    """a wide / high-arity configuration"""
    W = lambda lo=1: r.choice([r.randint(lo, 8), r.randint(lo, wmax), r.choice([w for w in (8, 16, 31, 32, 33, 63, 64, 65) if w <= max(wmax, 8)])])
    k = r.choice(['And', 'Or', 'Xor', 'Nor', 'Nand2', 'Nor2', 'Xor2', 'And2', 'Or2', 'Not', 'Buf', 'Bit', 'Range', 'BitsLSBF', 'BitsMSBF',
                  'ConcatenateMSBF', 'ConcatenateLSBF', 'Repeat', 'Constant', 'BufEnable', 'AndBits', 'OrBits', 'Mux2', 'Mux', 'Demux',
                  'Decoder', 'Select', 'OneHotMux', 'OneHotDemux', 'SelectDefault', 'PriorityEncoder', 'Minterm', 'SumOfMinterms',
                  'EqualConstant', 'NotEqualConstant', 'EqualConstantWrap', 'Equal', 'AnyEqual', 'Comparator',
                  'ComparatorSignedUnsigned', 'Max2', 'Min2', 'SignedMax2', 'SignedMin2', 'Swap'])
    w = W()
    mixed = r.chance(1, 4)
    V = lambda: (w if not mixed else max(1, w + r.randint(-2, 2)))
    if k in ('And2', 'Or2', 'Nand2', 'Nor2', 'Xor2', 'Equal'):
        return mk(k, rw=(1 if k == 'Equal' and not mixed else V()), aw=w, bw=V())
    if k in ('Not', 'Buf'):
        return mk(k, rw=V(), aw=w)
    if k in ('And', 'Or', 'Xor', 'Nor'):
        n = r.randint(1 if k != 'Xor' else 2, 9)
        return mk(k, rw=V(), ws=[w] + [V() for _ in range(n - 1)])
    if k == 'Bit':
        return mk(k, rw=r.choice([1, 1, 2]), k=r.randint(0, w - 1), aw=w)
    if k == 'Range':
        lo = r.randint(0, w - 1)
        hi = r.randint(lo, w - 1)
        return mk(k, rw=r.choice([hi - lo + 1, hi - lo + 1, V()]), hi=hi, lo=lo, aw=w)
    if k in ('BitsLSBF', 'BitsMSBF'):
        return mk(k, aw=w)
    if k in ('ConcatenateMSBF', 'ConcatenateLSBF'):
        ws = [r.randint(1, max(1, wmax // 3)) for _ in range(r.randint(1, 6))]
        return mk(k, rw=sum(ws) + r.choice([0, 0, 3]), ws=ws)
    if k == 'Repeat':
        return mk(k, rw=w)
    if k == 'Constant':
        return mk(k, rw=w, v=r.choice([r.bits(w), r.randint(-(1 << w), 1 << (w + 1))]))
    if k == 'BufEnable':
        return mk(k, aw=w, enw=1, rw=w)
    if k in ('AndBits', 'OrBits'):
        return mk(k, aw=w, rw=r.choice([1, 1, 2]))
    if k == 'Mux2':
        return mk(k, rw=V(), sw=r.choice([1, 1, 3]), w0=w, w1=V())
    if k == 'Mux':
        sw = r.randint(1, 5)
        return mk(k, rw=V(), sw=sw, ws=[w if not mixed else V() for _ in range(1 << sw)])
    if k == 'Demux':
        sw = r.randint(1, 4)
        return mk(k, aw=w, sw=sw, n=1 << sw)
    if k == 'Decoder':
        aw = r.randint(1, 5)
        return mk(k, aw=aw, n=r.choice([1 << aw, r.randint(1, 1 << aw)]))
    if k in ('Select', 'OneHotMux'):
        ns = r.randint(1, 9)
        return mk(k, rw=V(), ns=ns, ws=[w if not mixed else V() for _ in range(ns)])
    if k == 'OneHotDemux':
        ns = r.randint(1, 9)
        return mk(k, aw=w, ns=ns, ows=[w if not mixed else V() for _ in range(ns)])
    if k == 'SelectDefault':
        ns = r.randint(1, 9)
        return mk(k, rw=V(), ns=ns, ws=[w if not mixed else V() for _ in range(ns)], dw=w)
    if k == 'PriorityEncoder':
        n = r.randint(1, 12)
        ww = r.choice([1, 1, 1, min(w, 8)])
        return mk(k, ws=[ww] * n, rw=ww, inc=r.chance(1, 2))
    if k == 'Minterm':
        n = r.randint(1, 12)
        return mk(k, rw=1, n=n, v=r.choice([r.bits(n), r.randint(-(1 << n), 1 << (n + 1))]))
    if k == 'SumOfMinterms':
        aw = r.randint(1, 10)
        return mk(k, aw=aw, rw=1, ms=[r.bits(aw) for _ in range(r.randint(1, 8))])
    if k in ('EqualConstant', 'NotEqualConstant'):
        return mk(k, aw=w, rw=1, v=r.bits(w))
    if k == 'EqualConstantWrap':
        return mk(k, aw=w, rw=1, v=r.choice([r.bits(w), r.randint(-(1 << w), 1 << (w + 2))]))
    if k == 'AnyEqual':
        n = r.randint(2, 6)
        return mk(k, rw=1, ws=[w] * n)
    if k == 'Comparator':
        return mk(k, w=w, gw=1, ew=1)
    if k == 'ComparatorSignedUnsigned':
        return mk(k, w=w)
    if k in ('Max2', 'Min2', 'SignedMax2', 'SignedMin2'):
        return mk(k, w=w, rw=r.choice([w, w, V()]))
    if k == 'Swap':
        return mk(k, raw=w, rbw=V(), aw=w, bw=V(), sw=r.choice([1, 1, 2]))
    raise KeyError(k)


def sample_vectors(case, r, n):
    """structured samples: boundary patterns per input, equal operands, neighbours, one-hot selects"""
    vs = []
    inw = case.inw
    for j in range(n):
        X = [r.bits(w) for w in inw]
        t = r.randint(0, 5)
        if t == 0 and len(X) >= 2:                       # equal / neighbouring operands (comparators, AnyEqual)
            a, b = r.randint(0, len(X) - 1), r.randint(0, len(X) - 1)
            X[b] = (X[a] + r.choice([0, 0, 1, -1])) & M(inw[b])
        if t == 1 and case.kind in ('Select', 'OneHotMux', 'SelectDefault', 'PriorityEncoder', 'OneHotDemux'):
            ns = case.P[1] if case.kind != 'PriorityEncoder' else len(inw)
            off = 1 if case.kind == 'OneHotDemux' else 0
            hot = r.randint(0, max(0, ns - 1))
            for q in range(ns):
                if inw[off + q] == 1:
                    X[off + q] = int(q == hot)
        vs.append(X)
    return vs


def aliased_cases(tier):
    """multi-operand blocks whose input list contains THE SAME Wire object more than once.  The models and the specification
    are functions of the VALUE per input position, so aliasing is simply "these positions always carry equal values": the
    expected output is the ordinary specification on the aliased vector.  (Seed C08i: a helper that drops repeated wires
    before the ladders is right for And/Or and wrong for Xor.)"""
    C = []
    ws_ = (1, 2, 3) if tier == 'quick' else (1, 2, 3, 4, 8, 65)
    for w in ws_:
        for k in ('And', 'Or', 'Xor', 'Nor'):
            C += [mk(k, rw=w, ws=[w] * 2).aliased({1: 0}),
                  mk(k, rw=w, ws=[w] * 3).aliased({1: 0}), mk(k, rw=w, ws=[w] * 3).aliased({2: 0}),
                  mk(k, rw=w, ws=[w] * 3).aliased({2: 1}), mk(k, rw=w, ws=[w] * 3).aliased({1: 0, 2: 0}),
                  mk(k, rw=w, ws=[w] * 4).aliased({2: 0}), mk(k, rw=w, ws=[w] * 4).aliased({3: 0}),
                  mk(k, rw=w, ws=[w] * 4).aliased({1: 0, 3: 2}), mk(k, rw=w, ws=[w] * 4).aliased({2: 1}),
                  mk(k, rw=w, ws=[w] * 5).aliased({4: 0, 3: 1}), mk(k, rw=w, ws=[w] * 5).aliased({2: 0, 4: 0}),
                  mk(k, rw=w, ws=[w] * 6).aliased({3: 0, 4: 1, 5: 2})]
        for k in ('And2', 'Or2', 'Nand2', 'Nor2', 'Xor2'):
            C.append(mk(k, rw=w, aw=w, bw=w).aliased({1: 0}))
        C += [mk('Equal', rw=1, aw=w, bw=w).aliased({1: 0}),
              mk('AnyEqual', rw=1, ws=[w] * 2).aliased({1: 0}), mk('AnyEqual', rw=1, ws=[w] * 3).aliased({1: 0}),
              mk('AnyEqual', rw=1, ws=[w] * 3).aliased({2: 0}), mk('AnyEqual', rw=1, ws=[w] * 4).aliased({3: 1}),
              mk('Comparator', w=w, gw=1, ew=1).aliased({1: 0}), mk('ComparatorSignedUnsigned', w=w).aliased({1: 0}),
              mk('Swap', raw=w, rbw=w, aw=w, bw=w, sw=1).aliased({1: 0}),
              mk('Mux2', rw=w, sw=1, w0=w, w1=w).aliased({2: 1}),
              mk('Mux', rw=w, sw=1, ws=[w] * 2).aliased({2: 1}),
              mk('Mux', rw=w, sw=2, ws=[w] * 4).aliased({3: 1}), mk('Mux', rw=w, sw=2, ws=[w] * 4).aliased({2: 1, 4: 3}),
              mk('Mux', rw=w, sw=2, ws=[w] * 4).aliased({2: 1, 3: 1, 4: 1}), mk('Mux', rw=w, sw=3, ws=[w] * 8).aliased({5: 1, 8: 2}),
              mk('SelectDefault', rw=w, ns=2, ws=[w] * 2, dw=w).aliased({3: 2}), mk('SelectDefault', rw=w, ns=2, ws=[w] * 2, dw=w).aliased({4: 2}),
              mk('SelectDefault', rw=w, ns=3, ws=[w] * 3, dw=w).aliased({1: 0, 5: 3}),
              mk('OneHotDemux', aw=w, ns=3, ows=[w] * 3).aliased({2: 1}), mk('OneHotDemux', aw=w, ns=3, ows=[w] * 3).aliased({2: 1, 3: 1}),
              mk('ConcatenateMSBF', rw=3 * w, ws=[w] * 3).aliased({1: 0}), mk('ConcatenateMSBF', rw=3 * w, ws=[w] * 3).aliased({2: 0}),
              mk('ConcatenateLSBF', rw=3 * w, ws=[w] * 3).aliased({2: 0}), mk('ConcatenateLSBF', rw=4 * w, ws=[w] * 4).aliased({1: 0, 2: 0, 3: 0}),
              mk('PriorityEncoder', ws=[w] * 4, rw=w, inc=True).aliased({2: 0}), mk('PriorityEncoder', ws=[w] * 4, rw=w, inc=False).aliased({1: 0, 3: 0})]
        for k in ('Max2', 'Min2', 'SignedMax2', 'SignedMin2'):
            C.append(mk(k, w=w, rw=w).aliased({1: 0}))
        for k in ('Select', 'OneHotMux'):
            C += [mk(k, rw=w, ns=3, ws=[w] * 3).aliased({5: 3}), mk(k, rw=w, ns=3, ws=[w] * 3).aliased({4: 3, 5: 3}),
                  mk(k, rw=w, ns=3, ws=[w] * 3).aliased({1: 0}), mk(k, rw=w, ns=2, ws=[w] * 2).aliased({1: 0, 3: 2})]
    # a control wire that is also a data wire (1-bit data)
    C += [mk('Mux', rw=1, sw=1, ws=[1] * 2).aliased({1: 0}), mk('Mux2', rw=1, sw=1, w0=1, w1=1).aliased({1: 0}),
          mk('Swap', raw=1, rbw=1, aw=1, bw=1, sw=1).aliased({2: 0}), mk('Select', rw=1, ns=2, ws=[1] * 2).aliased({2: 0}),
          mk('OneHotMux', rw=1, ns=2, ws=[1] * 2).aliased({3: 1}), mk('SelectDefault', rw=1, ns=2, ws=[1] * 2, dw=1).aliased({4: 0}),
          mk('BufEnable', aw=1, enw=1, rw=1).aliased({1: 0}), mk('OneHotDemux', aw=1, ns=2, ows=[1] * 2).aliased({1: 0}),
          mk('Demux', aw=2, sw=2, n=4).aliased({1: 0}), mk('Minterm', rw=1, n=3, v=5).aliased({1: 0}),
          mk('Minterm', rw=1, n=4, v=9).aliased({3: 0}), mk('Minterm', rw=1, n=3, v=4).aliased({2: 0})]
    return C


def aliased_vectors(case, r, limit, n):
    """every combination of the FREE positions when that is at most `limit` bits, else structured samples; aliased positions follow"""
    free = case.free()
    tot = sum(case.inw[j] for j in free)
    vs = []
    if tot <= limit:
        for k in range(1 << tot):
            X = [0] * len(case.inw)
            for j in free:
                X[j] = k & M(case.inw[j])
                k >>= case.inw[j]
            vs.append(case.fix(X))
    else:
        vs = [case.fix(X) for X in sample_vectors(case, r, n)]
        if max(case.inw) > 8:
            vs += [case.fix(X) for X in wide_vectors(case, r, 2)]
    return vs


NAMED_MULTISETS = [[4, 2, 6], [2, 1, 3], [8, 4, 12], [3, 1, 4, 4], [1, 2, 3, 6], [5, 3, 7], [2, 2, 5, 3], [1, 1, 4], [6, 1, 2, 3], [16, 8, 24],
                   [3, 5, 4], [1, 3, 2, 2], [7, 1, 1, 3]]


def coincidence_width_lists(tier):
    """width lists of UNEQUAL widths that satisfy an arithmetic coincidence a shortcut could mistake for "all equal":
    sum = n * w_k for some position k (first, last, any), sum a power of two, sum = 2 * max, first = last, plus every
    permutation of a few multisets (seed C08l: `total_w == len(ins) * ins[0].getWidth()` taken for "equal widths")"""
    import itertools
    out, seen = [], set()

    def add(ws):
        t = tuple(ws)
        if t not in seen and len(set(ws)) > 1:
            seen.add(t)
            out.append(list(ws))
    wmax, nmax = (4, 4) if tier == 'quick' else (6, 5)
    for n in range(3, nmax + 1):
        for ws in itertools.product(range(1, wmax + 1), repeat=n):
            tot = sum(ws)
            if any(tot == n * w for w in ws) or (tier != 'quick' and (tot == 2 * max(ws) or tot & (tot - 1) == 0) and ws[0] == ws[-1]):
                add(ws)
    for ms in NAMED_MULTISETS:
        perms = sorted(set(itertools.permutations(ms)))
        for pm in (perms if tier != 'quick' or len(perms) <= 6 else perms[:6] + perms[-3:]):
            add(pm)
    for ws in ([4, 8], [3, 1], [1, 3], [2, 6]):            # two-input controls
        add(ws)
    return out


def marker_vectors(case, r, n_extra):
    """per-field marker values: one field non-zero at a time (all ones / 1 / top bit), distinct markers in every field, all ones,
    alternating; 1-bit inputs next to wider ones (selects) additionally one-hot and all active"""
    inw = case.inw
    n = len(inw)
    vs = []
    for j in range(n):
        for v in (M(inw[j]), 1, 1 << (inw[j] - 1)):
            X = [0] * n
            X[j] = v
            vs.append(X)
    vs.append([M(w) for w in inw])
    vs.append([(j + 1) & M(w) for j, w in enumerate(inw)])
    vs.append([(M(w) // 3) if j % 2 else (M(w) - M(w) // 3) for j, w in enumerate(inw)])
    vs.append([(1 << (w - 1)) | (j & M(max(w - 1, 0))) for j, w in enumerate(inw)])
    sel = [j for j, w in enumerate(inw) if w == 1]
    if sel and len(sel) < n:
        base = list(vs)
        for hot in sel + [None]:
            for X in base[-4:] + base[:6]:
                Y = list(X)
                for j in sel:
                    Y[j] = 1 if hot is None else int(j == hot)
                vs.append(Y)
    for _ in range(n_extra):
        vs.append([r.bits(w) for w in inw])
    return vs


def coincidence_cases(tier):
    """the list-shaped blocks over the coincidence width lists"""
    C = []
    step = 5 if tier == 'quick' else 8
    for li, ws in enumerate(coincidence_width_lists(tier)):
        tot, n, mx = sum(ws), len(ws), max(ws)
        for k in ('ConcatenateLSBF', 'ConcatenateMSBF'):
            C.append(mk(k, rw=tot, ws=ws))
            if li % 2 == 0:
                C.append(mk(k, rw=tot + 3, ws=ws))
        if li % step:                                          # the other list-shaped blocks: on every step-th list
            continue
        if tot <= 24:
            C.append(mk('BitsLSBF', aw=n, ows=ws))             # output wires of these widths
            C.append(mk('BitsMSBF', aw=n, ows=ws))
        for k in ('And', 'Or', 'Xor', 'Nor'):
            C.append(mk(k, rw=mx, ws=ws))
        C.append(mk('Select', rw=mx, ns=n, ws=ws))
        C.append(mk('OneHotMux', rw=mx, ns=n, ws=ws))
        C.append(mk('SelectDefault', rw=mx, ns=n, ws=ws, dw=mx))
        C.append(mk('OneHotDemux', aw=mx, ns=n, ows=ws))
        if n == 4:
            C.append(mk('Mux', rw=mx, sw=2, ws=ws))
        C.append(mk('AnyEqual', rw=1, ws=ws))
        C.append(mk('PriorityEncoder', ws=ws, rw=mx, inc=True))
    return C


def dense_minterm_cases(tier, r):
    """SumOfMinterms with DENSE minterm lists (more than half of the 2**w combinations): every size 2**(w-1)+1 .. 2**w - 1 without the
    all-ones value, without 0, complements of every single value, the full list, lists with repeated entries, several orders
    (seed C08m: a complement-and-invert optimisation for dense lists that never treats all-ones as unlisted)"""
    C = []
    for aw in ((1, 2, 3, 4) if tier == 'quick' else (1, 2, 3, 4, 5, 6)):
        n = 1 << aw
        full = list(range(n))
        lists = [full, full[::-1], full + [0], full + [n - 1]]
        for m in (full if aw <= 4 else [0, 1, n // 2, n - 2, n - 1]):
            lists.append([v for v in full if v != m])                    # complement of a single value
        for size in range(n // 2 + 1, n):
            lists.append(full[:size])                                    # without all-ones (and the other top values)
            lists.append(full[n - size:])                                # without 0 (and the other low values)
            lists.append(r.shuffle(full[:n - 1])[:size])                 # seeded, never all-ones
            lists.append(r.shuffle(full[1:])[:size])                     # seeded, never 0
            lists.append(r.shuffle(full)[:size])
            if tier != 'quick' or size in (n // 2 + 1, n - 1):
                lists.append(full[:size] + full[:2])                     # dense with repeated entries
                lists.append(full[:size][::-1])
        lists += [full[:n // 2], full[n // 2:], full[:n // 2] + [0, 0, 1]]  # exactly half / half with repeats (controls)
        seen = set()
        for ms in lists:
            if ms and tuple(ms) not in seen:
                seen.add(tuple(ms))
                C.append(mk('SumOfMinterms', aw=aw, rw=1, ms=list(ms)))
    return C


def outside_domain_cases(tier, r):
    """parameters OUTSIDE the documented domain, checked against the exact characterisations (exact_kind): SumOfMinterms lists with
    negative / too large / repeated entries (also dense after wrap-around), PriorityEncoder with every mix of input, helper and
    output widths, comparator-like blocks with result wires of 2 and 3 bits"""
    import itertools
    C = []
    for aw in ((1, 2, 3) if tier == 'quick' else (1, 2, 3, 4)):
        n = 1 << aw
        full = list(range(n))
        lists = [[-1], [n], [n + 1, 1], [-2, 0], full + [n], [m + n for m in full[:n // 2 + 1]], [-(m + 1) for m in range(n - 1)],
                 [m - n for m in full[1:]], [3 * n + 1, 1 - n, 1], [0, 0, n, n], [n - 1, -1, 2 * n - 1]]
        for size in (1, 2, n // 2 + 1, n, n + 2):
            lists.append([r.randint(-2 * n, 3 * n) for _ in range(size)])
        seen = set()
        for ms in lists:
            if tuple(ms) not in seen:
                seen.add(tuple(ms))
                C.append(mk('SumOfMinterms', aw=aw, rw=1, ms=list(ms)))
        C.append(mk('SumOfMinterms', aw=aw, rw=2, ms=[n - 1, -n]))
        for rw in (2, 3):
            for v in range(-1, n + 2):
                C.append(mk('EqualConstant', aw=aw, rw=rw, v=v))
                C.append(mk('NotEqualConstant', aw=aw, rw=rw, v=v))
        for v in (-1, n, n + 1, -n):
            C.append(mk('NotEqualConstant', aw=aw, rw=1, v=v))
    for w in (0, 1, 2, 3):
        for gw, ew in ((1, 2), (2, 1), (2, 2), (3, 3), (1, 3)):
            C.append(mk('Comparator', w=w, gw=gw, ew=ew))
    for n in ((2, 3) if tier == 'quick' else (2, 3, 4)):
        for ws in itertools.product((1, 2) if (n >= 3 and tier == 'quick') or n >= 4 else (1, 2, 3), repeat=n):
            for rw in (1, 2, 3):
                for inc in (True, False):
                    C.append(mk('PriorityEncoder', ws=list(ws), rw=rw, inc=inc))
    C.append(mk('PriorityEncoder', ws=[1, 8, 8], rw=8, inc=False))
    C.append(mk('PriorityEncoder', ws=[8, 8, 1], rw=8, inc=True))
    C.append(mk('PriorityEncoder', ws=[4, 8, 8], rw=6, inc=False))
    return C


def degenerate_cases():
    """the smallest parameters of every block: widths 1 (and 0 where a 0-bit wire can be passed), arities 0 and 1, single outputs;
    whatever the real constructor does (build / raise) must be matched by the model and its legality predicate"""
    C = []
    add = lambda kind_, **a: C.append(mk(kind_, **a))
    for w in (0, 1):
        for k in ('Not', 'Buf'):
            add(k, rw=w, aw=w)
            add(k, rw=1, aw=w)
        for k in ('And2', 'Or2', 'Nand2', 'Nor2', 'Xor2'):
            add(k, rw=w, aw=w, bw=w)
            add(k, rw=1, aw=w, bw=1)
        for k in ('And', 'Or', 'Xor', 'Nor'):
            for n in (0, 1, 2, 3):
                add(k, rw=w, ws=[w] * n)
        add('Equal', rw=1, aw=w, bw=w)
        add('Repeat', rw=w)
        add('Constant', rw=w, v=0)
        add('Constant', rw=w, v=1)
        add('BufEnable', aw=w, enw=1, rw=w)
        add('BufEnable', aw=w, enw=w, rw=w)
        add('BitsLSBF', aw=w)
        add('BitsMSBF', aw=w)
        add('Bit', rw=1, k=0, aw=w)
        add('Range', rw=1, hi=0, lo=0, aw=w)
        add('AndBits', aw=w, rw=1)
        add('OrBits', aw=w, rw=1)
        add('Mux2', rw=w, sw=1, w0=w, w1=w)
        add('Mux2', rw=1, sw=w, w0=1, w1=1)
        add('Mux', rw=w, sw=1, ws=[w, w])
        add('Mux', rw=1, sw=w, ws=[1] * (1 << w))
        add('Demux', aw=w, sw=1, n=2)
        add('Demux', aw=1, sw=w, n=1 << w)
        add('Decoder', aw=w, n=1)
        add('Decoder', aw=w, n=0)
        for k in ('Select', 'OneHotMux'):
            add(k, rw=w, ns=1, ws=[w])
            add(k, rw=w, ns=0, ws=[])
        add('OneHotDemux', aw=w, ns=1, ows=[w])
        add('OneHotDemux', aw=w, ns=0, ows=[])
        add('SelectDefault', rw=w, ns=1, ws=[w], dw=w)
        add('SelectDefault', rw=w, ns=0, ws=[], dw=w)
        for inc in (True, False):
            add('PriorityEncoder', ws=[w], rw=w, inc=inc)
            add('PriorityEncoder', ws=[], rw=w, inc=inc)
            add('PriorityEncoder', ws=[w, w], rw=w, inc=inc)
        add('Minterm', rw=1, n=w, v=0)
        add('Minterm', rw=1, n=w, v=1)
        add('SumOfMinterms', aw=w, rw=1, ms=[0])
        add('SumOfMinterms', aw=w, rw=1, ms=[])
        add('SumOfMinterms', aw=w, rw=1, ms=[1])
        for k in ('EqualConstant', 'NotEqualConstant'):
            for v in (0, 1):
                add(k, aw=w, rw=1, v=v)
        add('AnyEqual', rw=1, ws=[w])
        add('AnyEqual', rw=1, ws=[w, w])
        add('AnyEqual', rw=1, ws=[])
        add('Comparator', w=w, gw=1, ew=1)
        add('ComparatorSignedUnsigned', w=w)
        for k in ('Max2', 'Min2', 'SignedMax2', 'SignedMin2'):
            add(k, w=w, rw=w)
            add(k, w=w, rw=1)
        add('Swap', raw=w, rbw=w, aw=w, bw=w, sw=1)
        add('Swap', raw=1, rbw=1, aw=1, bw=1, sw=w)
        for k in ('ConcatenateMSBF', 'ConcatenateLSBF'):
            add(k, rw=w, ws=[w])
            add(k, rw=w, ws=[])
            add(k, rw=2 * w, ws=[w, w])
            add(k, rw=1, ws=[0, 1, 0])
    return C


WIDE_WIDTHS = [63, 64, 65, 96, 128]        # 63/64 = controls, 65/96/128 = beyond one machine word


def wide_cases(w):
    """every block whose model is parametric in the DATA width, at data width `w` (all operands and results `w` bits)"""
    top = 1 << (w - 1)
    C = [mk('Repeat', rw=w), mk('BufEnable', aw=w, enw=1, rw=w), mk('Demux', aw=w, sw=2, n=4), mk('Demux', aw=w, sw=1, n=2),
         mk('OneHotDemux', aw=w, ns=3, ows=[w] * 3), mk('OneHotMux', rw=w, ns=3, ws=[w] * 3), mk('Select', rw=w, ns=3, ws=[w] * 3),
         mk('Select', rw=w, ns=1, ws=[w]), mk('SelectDefault', rw=w, ns=3, ws=[w] * 3, dw=w), mk('Mux', rw=w, sw=2, ws=[w] * 4),
         mk('Mux', rw=w, sw=1, ws=[w] * 2), mk('Mux2', rw=w, sw=1, w0=w, w1=w), mk('Swap', raw=w, rbw=w, aw=w, bw=w, sw=1),
         mk('Not', rw=w, aw=w), mk('Buf', rw=w, aw=w), mk('Constant', rw=w, v=M(w)), mk('Constant', rw=w, v=top),
         mk('Range', rw=w, hi=w - 1, lo=0, aw=w), mk('Range', rw=3, hi=w - 1, lo=w - 3, aw=w), mk('Range', rw=w - 1, hi=w - 1, lo=1, aw=w),
         mk('Bit', rw=1, k=w - 1, aw=w), mk('Bit', rw=1, k=w - 2, aw=w), mk('BitsLSBF', aw=w), mk('BitsMSBF', aw=w),
         mk('ConcatenateMSBF', rw=w, ws=[w // 2, w - w // 2]), mk('ConcatenateLSBF', rw=w, ws=[w // 2, w - w // 2]),
         mk('ConcatenateMSBF', rw=w + 3, ws=[3, w]), mk('ConcatenateLSBF', rw=w + 3, ws=[3, w]),
         mk('ConcatenateMSBF', rw=w, ws=[1] * 3 + [w - 3]), mk('AndBits', aw=w, rw=1), mk('OrBits', aw=w, rw=1),
         mk('Equal', aw=w, bw=w, rw=1), mk('AnyEqual', rw=1, ws=[w] * 3), mk('Comparator', w=w, gw=1, ew=1),
         mk('ComparatorSignedUnsigned', w=w), mk('PriorityEncoder', ws=[w] * 3, rw=w, inc=True),
         mk('PriorityEncoder', ws=[w] * 3, rw=w, inc=False), mk('PriorityEncoder', ws=[1] * w, rw=1, inc=True),
         mk('Minterm', rw=1, n=w, v=top | 1), mk('SumOfMinterms', aw=w, rw=1, ms=[top, M(w), 1, top | 5])]
    for k in ('And', 'Or', 'Xor', 'Nor'):
        C += [mk(k, rw=w, ws=[w] * 3), mk(k, rw=w, ws=[w] * 2)]
    for k in ('And2', 'Or2', 'Nand2', 'Nor2', 'Xor2'):
        C.append(mk(k, rw=w, aw=w, bw=w))
    for k in ('Max2', 'Min2', 'SignedMax2', 'SignedMin2'):
        C.append(mk(k, w=w, rw=w))
    for v in (top, M(w), top | 1, 1):
        C += [mk('EqualConstant', aw=w, rw=1, v=v), mk('NotEqualConstant', aw=w, rw=1, v=v)]
    return C


def wide_vectors(case, r, n_extra):
    """boundary vectors that exercise the TOP bits of every wide input, with every 1-bit input (enable / select) active, one-hot
    at every position, and off; equal operands and operands differing in the top / bottom bit only; + seeded values"""
    inw = case.inw
    wide = [j for j, w in enumerate(inw) if w > 8]
    narrow = [j for j, w in enumerate(inw) if w <= 8]

    def pats(w):
        top = 1 << (w - 1)
        return [M(w), top, top | 1, M(w) ^ top, top | (top >> 1), (M(w) // 3) | top, M(w) >> 1, 1 << 64 if w > 64 else top, 0, 1]
    sel_pats = [[M(inw[j]) for j in narrow], [0 for j in narrow]]
    for hot in range(len(narrow)):
        sel_pats.append([int(q == hot) if inw[j] == 1 else (hot & M(inw[j])) for q, j in enumerate(narrow)])
    vs = []
    for sp in sel_pats:
        for t in range(10):
            X = [0] * len(inw)
            for q, j in enumerate(narrow):
                X[j] = sp[q]
            for q, j in enumerate(wide):
                pp = pats(inw[j])
                X[j] = pp[(t + 3 * q) % len(pp)]
            vs.append(X)
        if len(wide) >= 2:                                 # equal operands / neighbours in the top and bottom bit
            for base in (M(inw[wide[0]]), 1 << (inw[wide[0]] - 1), r.bits(inw[wide[0]])):
                for d in (0, 1, 1 << (inw[wide[0]] - 1)):
                    X = [0] * len(inw)
                    for q, j in enumerate(narrow):
                        X[j] = sp[q]
                    for q, j in enumerate(wide):
                        X[j] = (base ^ (d if q == len(wide) - 1 else 0)) & M(inw[j])
                    vs.append(X)
    if len(narrow) > 12:                                   # many 1-bit inputs (Minterm, 1-bit PriorityEncoder): patterns over the list
        n = len(inw)
        vs = [[1] * n, [0] * n, [0] * (n - 1) + [1], [1] + [0] * (n - 1), [1] + [0] * (n - 2) + [1], [int(q % 2 == 0) for q in range(n)]]
        if case.kind == 'Minterm':
            vs.append([(case.P[1] >> q) & 1 for q in range(n)])
            vs.append([((case.P[1] >> q) & 1) ^ int(q == n - 1) for q in range(n)])
    for _ in range(n_extra):
        vs.append([r.bits(w) for w in inw])
    return vs


def exact_kind(case):
    """constructor calls whose parameters lie outside the documented domain of the block's `_spec` theorem (result wire wider than
    1 bit, constants outside [0, 2^width), outputs wider than the most prioritised input) are checked against the EXACT
    characterisation instead (…W / …Wrap kinds of Lib.Dyn: same model function, same constructor call, `_wide` / `_wrap` /
    `_general` theorems) — so a source change that only shows there still yields a concrete failing input"""
    k, P = case.kind, case.P
    nk = None
    if k == 'PriorityEncoder' and P[1] > P[0]:
        nk = 'PriorityEncoderW'
    elif k == 'SumOfMinterms' and not all(0 <= m <= M(P[0]) for m in P[2:]):
        nk = 'SumOfMintermsWrap'
    elif k in ('EqualConstant', 'EqualConstantWrap') and P[1] != 1:
        nk = 'EqualConstantW'
    elif k == 'NotEqualConstant' and (P[1] != 1 or not (0 <= P[2] <= M(P[0]))):
        nk = 'NotEqualConstantW'
    elif k == 'Equal' and P[2] != 1:
        nk = 'EqualW'
    elif k == 'Comparator' and (P[1] != 1 or P[2] != 1):
        nk = 'ComparatorW'
    if nk:
        case.kind = nk
    return case


def out_of_range_alt(case, X):
    """constructor calls outside the documented domain (a constant outside [0, 2^width): finding C08-equalconstant-out-of-range;
    a result wire wider than 1 bit: candidate C08-equal-wide-result; PriorityEncoder outputs wider than the first prioritised
    input): the LITERAL reading of the documentation ("active when a == v", 0/1 on any width, bitwise priority).  None for every
    other case.  The check accepts today's behaviour (the exact characterisation), a constructor that rejects such parameters,
    or this literal behaviour — so it keeps passing if the defect gets fixed either way."""
    k, P = case.kind, case.P
    if k in ('EqualConstant', 'EqualConstantWrap', 'NotEqualConstant') and not (0 <= P[2] <= M(P[0])):
        return [int((X[0] == P[2]) != (k == 'NotEqualConstant'))]
    if k in ('EqualConstantW', 'NotEqualConstantW') and P[1] >= 1:
        return [int((X[0] == P[2]) != (k == 'NotEqualConstantW'))]
    if k == 'Decoder' and P[1] > (1 << P[0]):
        return [int(i == X[0]) for i in range(P[1])]
    if k in ('SumOfMinterms', 'SumOfMintermsWrap') and not all(0 <= m <= M(P[0]) for m in P[2:]):
        return [int(any(X[0] == m for m in P[2:]))]
    if k == 'EqualW' and P[2] >= 1:
        return [int(X[0] == X[1])]
    if k == 'ComparatorW' and P[1] >= 1 and P[2] >= 1:
        return [int(X[0] > X[1]), int(X[0] == X[1]), int(X[0] < X[1])]
    if k == 'PriorityEncoderW':
        return _prio(P, X)
    return None


def literal_everywhere(case, vectors, R):
    """the block follows the LITERAL reading of its documentation on EVERY vector of this case although the parameters are
    outside the documented domain, and that differs from today's exact characterisation somewhere: a consistent repair of the
    finding (accepted).  A block that is literal on some vectors and not on others is not a repair: it is compared vector by
    vector with the exact characterisation."""
    if not vectors or out_of_range_alt(case, vectors[0]) is None:
        return False
    dom, spec = SPEC[case.kind]
    differs = False
    for X, out in zip(vectors, R):
        if not dom(case.P, X):
            continue                      # nothing is specified there (e.g. Equal with b outside the range of a)
        if out_of_range_alt(case, X) != out:
            return False
        if spec(case.P, X) != out:
            differs = True
    return differs


# ------------------------------------------------------------------------------------------------
class Batch:
    """real runs now, driver requests queued; compare() after the driver answered"""

    def __init__(self, res, rng=None):
        self.res, self.items, self.rng, self.anom = res, [], rng, {}

    def add(self, case, mode, vectors):
        exact_kind(case)
        an = []
        R = run_real(case, vectors, self.rng.fork(('hist', len(self.items))) if self.rng else None, an)
        if an:
            self.anom[len(self.items)] = an
        P = ','.join(str(p) for p in case.P)
        if mode == 'all':
            req = f"{case.kind} | {P} | all {','.join(str(w) for w in case.inw)}"
        else:
            req = f"{case.kind} | {P} | x {';'.join(','.join(str(v) for v in X) for X in vectors)}"
        self.items.append((case, mode, vectors, R, req))

    def oracle(self):
        """the property's oracle on the real outputs (python transcription of the spec) — independent of the Lean build"""
        res = self.res
        for ii, (case, mode, vectors, R, req) in enumerate(self.items):
            if R and R[0] == 'E':
                continue
            dom, spec = SPEC[case.kind]
            indom = 0
            if literal_everywhere(case, vectors, R):
                res.hist('out_of_range_constant', 'literal behaviour on every vector (fixed?)')
                continue
            for n, (X, out) in enumerate(zip(vectors, R)):
                if not dom(case.P, X):
                    continue
                indom += 1
                exp = spec(case.P, X)
                if exp != out:
                    fail(res, f'{case.real} output differs from its truth table',
                             dict(case.summary(), inputs=X, expected=exp, observed=out, block_kind=case.kind,
                                  same_instance_previous_inputs=[list(v) for v in vectors[max(0, n - 4):n]],
                                  fresh_instance_output=fresh_output(case, X)))
                    break
            res.hist('in_domain_vectors', case.kind, indom)
            # history pass: the same instance, the same vectors in other orders — the output is a function of the current inputs
            for X, now, first, trail in self.anom.get(ii, [])[:1]:
                res.hist('history_dependence', case.kind)
                if dom(case.P, X):
                    exp = spec(case.P, X)
                    fail(res, f'{case.real} output depends on the earlier inputs of the same instance',
                         dict(case.summary(), inputs=X, expected=exp, observed=now, observed_first_visit=first,
                              same_instance_previous_inputs=trail, fresh_instance_output=fresh_output(case, X),
                              block_kind=case.kind))
                else:
                    res.disagree('history-dependence', dict(case.summary(), inputs=X, observed=now, observed_first_visit=first,
                                                            same_instance_previous_inputs=trail))

    def compare(self, answers):
        res = self.res
        for (case, mode, vectors, R, req), ans in zip(self.items, answers):
            dom, spec = SPEC[case.kind]
            res.count(case.key() + (mode, len(vectors)), hist={'block': case.kind, 'mode': mode,
                                                                'total_input_bits': sum(case.inw), 'arity': len(case.inw)})
            res.cov['evaluations'] += max(0, len(vectors) - 1)
            items = ans.split(';')
            if ans in ('unknown-block', 'bad-op'):
                res.disagree('model-vs-real', dict(case.summary(), request=req[:200], lean=ans))
                continue
            if R and R[0] == 'E':
                res.hist('raises', f'{case.kind}:{R[1].split(":")[0]}')
                if items[0] != 'E' and out_of_range_alt(case, [0] * len(case.inw)) is not None:
                    res.hist('out_of_range_constant', 'rejected by the constructor (fixed?)')
                elif items[0] != 'E':
                    res.disagree('legal-vs-raises', dict(case.summary(), python=R[1], lean='legal', request=req[:200]))
                continue
            if items[0] == 'E':
                res.disagree('legal-vs-raises', dict(case.summary(), python='constructed', lean='not legal', request=req[:200]))
                continue
            if len(items) != len(vectors):
                res.disagree('model-vs-real', dict(case.summary(), request=req[:200], lean=ans[:200], what='answer count'))
                continue
            lit = literal_everywhere(case, vectors, R)
            for X, out, it in zip(vectors, R, items):
                m, _, s = it.partition('#')
                model = [int(x) for x in m.split(',') if x != '']
                lspec = None if s == '-' else (model if s == '' else [int(x) for x in s.split(',') if x != ''])
                if lit:
                    out = model          # consistently literal (a repair of the finding): only the spec transcription is compared
                if model != out:
                    res.disagree('model-vs-real', dict(case.summary(), inputs=X, python=out, lean=model))
                    break
                pspec = spec(case.P, X) if dom(case.P, X) else None
                if pspec != lspec:
                    res.disagree('pyspec-vs-leanspec', dict(case.summary(), block_kind=case.kind, inputs=X, python_spec=pspec, lean_spec=lspec))
                    break


def all_vectors(inw):
    tot = sum(inw)
    out = []
    for k in range(1 << tot):
        X = []
        for w in inw:
            X.append(k & M(w))
            k >>= w
        out.append(X)
    return out


T1_CLASSES = ['And2', 'Or2', 'Not', 'Buf', 'Bit', 'BitsLSBF', 'BitsMSBF', 'Constant', 'Mux2', 'Repeat', 'Range',
              'ConcatenateMSBF', 'ConcatenateLSBF', 'Sub']


def known_witnesses(res):
    """re-derive the witnesses of the findings on the real code at every run (notes/C08.md) and report them through fail():
    a `known` finding prints KNOWN-FINDING, a recurrence of a `fixed` one is a VIOLATION; nothing is reported once repaired."""
    import py4hw
    # C08-equalconstant-out-of-range: EqualConstant(a: 1 bit, v=2) is active for a == 1 although 1 != 2
    for (aw, v, a) in ((1, 2, 1), (2, 5, 1)):
        c = mk('EqualConstant', aw=aw, rw=1, v=v)
        R = run_real(c, [[a]])
        if R and R[0] != 'E' and R[0] != [int(a == v)]:
            rep = dict(c.summary(), inputs=[a], constant=v, expected=[int(a == v)], observed=R[0], block_kind='EqualConstant',
                       constant_out_of_range=True)
            fail(res, 'EqualConstant with a constant outside [0, 2^width) is active for some input', rep)
    # candidates (notes/C08.md, not listed: recorded in the evidence only, the integrator decides) — re-derived on the real code
    import common
    listed = {k.get('id') for k in load_known()}
    for cid, c, X, lit, what in (
            ('C08-equal-wide-result', mk('Equal', aw=2, bw=2, rw=2), [1, 2], [0],
             'Equal / EqualConstant(1 bit, 0) / NotEqualConstant with a result wire wider than 1 bit end in a Not/Nor on the full '
             'width: unequal operands give 2^rw - 2, a non-zero ("active") result'),
            ('C08-mux-zero-select', mk('Mux', rw=1, sw=0, ws=[1]), [0, 1], [1],
             'Mux with a 0-bit select and one input is accepted and builds nothing: r is never driven (reads 0), not ins[0]'),
            ('C08-priorityencoder-narrow-first', mk('PriorityEncoder', ws=[1, 2, 2], rw=2, inc=False), [0, 2, 2], [0, 2, 0],
             'PriorityEncoder whose most prioritised input is narrower than the outputs: the other outputs lose their bits above '
             'that width (helper wires sized by the first prioritised input)')):
        R = run_real(c, [X])
        if R and R[0] != 'E' and R[0] != lit:
            rep = dict(c.summary(), inputs=X, literal_reading=lit, observed=R[0], block_kind=c.kind, candidate=cid)
            if cid in listed:
                fail(res, what, rep)
            else:
                res.notes.append({'candidate_finding': cid, 'what': what, 'witness': rep})
                res.hist('candidate_findings_reproduced', cid)
    # C08-priorityencoder-docstring: documentation finding, checked by reading the docstring
    doc = py4hw.PriorityEncoder.__init__.__doc__ or ''
    c = mk('PriorityEncoder', ws=[1, 1], rw=1, inc=True)
    R = run_real(c, [[1, 1]])
    if 'If True, the lowest index has the highest priority' in doc and R and R[0] == [0, 1]:
        rep = dict(c.summary(), inputs=[1, 1], observed=R[0], docstring='inc_priority=True: lowest index has the highest priority',
                   block_kind='PriorityEncoder-docstring')
        fail(res, 'PriorityEncoder docstring states the opposite priority direction of code, comment and test', rep)


def main(res, tier, rng, replay):
    ok, metas, errors, changed = regenerate()
    for e in errors:
        res.broken.append(('translator', 'py2lean', e))
    proofs_ok = res.proof_stage('Py4hwV.Props.C08', OBLIGATIONS)
    drv_ok, out = lean_build(['Py4hwV.Lib.LogicDyn'])
    if not drv_ok:
        errs = [l for l in out.split('\n') if 'error' in l][:6]
        res.broken.append(('proof', 'Py4hwV.Lib.LogicDyn', 'model / leaf bridges no longer build: ' + ' // '.join(errs)))
    if ok:
        try:
            t1.validate_generated(res, rng.fork('t1'), 60 if tier == 'quick' else 600, classes=T1_CLASSES)
        except ToolFailure as e:
            res.broken.append(('correspondence', 'T1', f'generated definitions do not run: {e}'))
    known_witnesses(res)
    import time as _t
    _t0 = _t.time()

    limit = 12
    batches = []
    b = Batch(res, rng.fork('history'))
    nb = D.NetBatch(res, 'net-sim')
    r = rng.fork('c08')
    cases = small_cases(tier)
    n_net = 0
    for ci, case in enumerate(cases):
        tot = sum(case.inw)
        if tot <= limit:
            b.add(case, 'all', all_vectors(case.inw))
        else:
            b.add(case, 'x', sample_vectors(case, r.fork(('sv', ci)), 200 if tier == 'quick' else 2000))
    # permanent regression cases of repaired defects (explicit former witnesses; a recurrence is a VIOLATION, see fail())
    for rc, vecs in ((mk('Xor2', aw=8, bw=10, rw=9), [[122, 1], [255, 1023], [0, 0], [122, 513], [1, 256]]),
                     (mk('Xor2', aw=2, bw=2, rw=4), [[1, 3], [0, 0], [3, 3], [2, 1]]),
                     (mk('Xor', rw=9, ws=[8, 10, 3]), [[122, 1, 0], [255, 1023, 7], [0, 0, 0], [1, 512, 4]]),
                     (mk('Xor', rw=4, ws=[2, 2]), [[1, 3], [0, 0], [3, 3]]),
                     (mk('Nor', rw=8, ws=[6, 7, 8, 4]), [[41, 54, 127, 1], [0, 0, 0, 0], [63, 127, 255, 15], [0, 64, 128, 0]]),
                     (mk('Nor', rw=4, ws=[2, 4]), [[0, 12], [3, 0], [1, 8]]),
                     (mk('Nor2', aw=2, bw=4, rw=4), [[0, 12], [3, 3], [0, 0], [1, 8]]),  # former witness of C08-nor2-wide
                     (mk('Nor2', aw=3, bw=8, rw=6), [[5, 200], [0, 255], [7, 0]]),
                     (mk('Equal', aw=3, bw=5, rw=1), [[5, 5], [5, 4], [0, 0], [7, 7]]),
                     (mk('Equal', aw=4, bw=4, rw=2), [[5, 5], [5, 4]]),
                     (mk('AnyEqual', rw=1, ws=[4, 4, 4]), [[9, 3, 9], [1, 2, 3], [0, 0, 0]])):
        b.add(rc, 'x', vecs)
    # dense minterm lists, every input
    for dc in dense_minterm_cases(tier, r.fork('dense')):
        b.add(dc, 'all', all_vectors(dc.inw))
        res.hist('dense_minterm_lists', f'w{dc.P[0]}')
    # parameters outside the documented domain (exact characterisations), degenerate parameters of every block: every input
    for oc in outside_domain_cases(tier, r.fork('outside')) + degenerate_cases():
        if sum(oc.inw) <= limit:
            b.add(oc, 'all', all_vectors(oc.inw))
        else:
            b.add(oc, 'x', marker_vectors(oc, r.fork(('ov', len(b.items))), 20))
        res.hist('outside_domain_or_degenerate', oc.kind)
    # list-shaped blocks over width lists with arithmetic coincidences (sum = n * w_k, permutations of a multiset, ...)
    cr = r.fork('coincidence')
    for ci2, cc in enumerate(coincidence_cases(tier)):
        if sum(cc.inw) <= (8 if tier == 'quick' else 11):
            b.add(cc, 'all', all_vectors(cc.inw))
        else:
            b.add(cc, 'x', marker_vectors(cc, cr.fork(ci2), 3 if tier == 'quick' else 30))
        res.hist('coincidence_width_lists', cc.kind)
    # the same Wire object at several input positions
    ar = r.fork('alias')
    for ai, ac in enumerate(aliased_cases(tier)):
        b.add(ac, 'x', aliased_vectors(ac, ar.fork(ai), 10 if tier == 'quick' else 12, 60 if tier == 'quick' else 400))
        res.hist('aliased_inputs', ac.kind)
    # wide data paths: every width-parametric block at 63/64 (controls) and 65/96/128 bits with vectors that set the top bits.
    # quick: 65 + one seeded width of {96, 128} + one seeded control; thorough: all five
    wr = r.fork('wide')
    widths = WIDE_WIDTHS if tier != 'quick' else [65, wr.choice([96, 128]), wr.choice([63, 64])]
    for w in widths:
        for wi, wc in enumerate(wide_cases(w)):
            b.add(wc, 'x', wide_vectors(wc, wr.fork((w, wi)), 4 if tier == 'quick' else 40))
            res.hist('wide_width_class', w)
    n_rand = 320 if tier == "quick" else 3000
    n_vec = 40 if tier == 'quick' else 120
    for i in range(n_rand):
        rr = r.fork(('rand', i))
        case = random_case(rr, rr.choice([8, 16, 33, 64] if tier == 'quick' else [8, 16, 33, 64, 65, 128]))
        b.add(case, 'x', sample_vectors(case, rr, n_vec))
        res.hist('max_width', max(case.inw + case.outw + [0]) // 8 * 8)
        # flattened netlist of the same real block vs Net.IR (generated leaves), every wire
        if i % (4 if tier == 'quick' else 2) == 0:
            bb = build(case)
            if bb[0] != 'E':
                sysobj, sim, ins, outs = bb
                ops = []
                for X in sample_vectors(case, rr.fork('net'), 4):
                    ops += [('poke', w, v) for w, v in zip(ins, X)] + [('clk', 1)]
                try:
                    nb.add(sysobj, ops, sim=sim, label=str(case.summary()))
                    n_net += 1
                except D.NotDumpable:
                    res.hist('net_not_dumpable', case.kind)
    res.notes.append({'t_real_runs_s': round(_t.time() - _t0, 1)})
    _t0 = _t.time()
    # the oracle on the implementation: always, whatever happened to the Lean side
    b.oracle()
    res.notes.append({'t_oracle_s': round(_t.time() - _t0, 1)})
    _t0 = _t.time()
    if drv_ok:
        try:
            reqs = [it[4] for it in b.items]
            # the driver is interpreted: spread the requests over a few parallel sessions (order of answers preserved)
            from concurrent.futures import ThreadPoolExecutor
            NW = 6
            cost = [len(it[2]) + 20 for it in b.items]
            order = sorted(range(len(reqs)), key=lambda k: -cost[k])
            buckets, load = [[] for _ in range(NW)], [0] * NW
            for k in order:
                j = load.index(min(load))
                buckets[j].append(k)
                load[j] += cost[k]
            with ThreadPoolExecutor(NW) as ex:
                outs = list(ex.map(lambda bk: run_driver('Drv/C08.lean', [reqs[k] for k in bk]), buckets))
            answers = [None] * len(reqs)
            for bk, o in zip(buckets, outs):
                for k, a in zip(bk, o):
                    answers[k] = a
            b.compare(answers)
        except ToolFailure as e:
            res.broken.append(('correspondence', 'model-vs-real', f'driver does not run: {str(e)[:300]}'))
        try:
            nb.run()
        except ToolFailure as e:
            res.broken.append(('correspondence', 'net-sim', str(e)[:300]))
    else:
        for case, mode, vectors, R, req in b.items:
            res.count(case.key() + (mode, len(vectors)), hist={'block': case.kind, 'mode': mode})
    res.notes.append({'t_driver_compare_s': round(_t.time() - _t0, 1)})
    for case, mode, vectors, R, req in b.items[:400:37]:
        if R and R[0] != 'E':
            res.sample(dict(case.summary(), mode=mode, first_inputs=vectors[len(vectors) // 2], outputs=R[len(vectors) // 2]))
    res.cov['netlists_compared'] = n_net
    res.cov['rule'] = ('one case = one constructor call (block, all widths, arity, constants, options) x input set; small parameter '
                       'combinations are run on EVERY input combination (total input bits <= 12), wide/high-arity ones on structured '
                       'samples; each case: real py4hw block (Wire.put -> propagateAll()/clk(1) -> Wire.get) vs Lean model Lib.* vs '
                       'specification Lib.LSpec.* (Lean, through Drv/C08) vs its Python transcription; evaluations = input vectors; every case '
                       'is followed by a history pass on the same instance (descending, shuffled, all-ones/x/zeros/x orders)')
    res.assumptions += ['documented (0/1, a == v) reading: 1-bit result wires and constants inside [0, 2^width); outside, the oracle is the '
                        'exact characterisation proved in Proofs/C08Wide.lean (kinds ...W / ...Wrap), or the literal reading when the block '
                        'follows it on every vector of the case (a repaired finding)',
                        'Decoder outputs modelled as 1-bit wires; PriorityEncoder with one common output width; Comparator eq wire >= 1 bit',
                        'mixed operand/result widths: specification only where the stated width hypotheses hold (see notes/C08.md)',
                        'Lib.*Legal = "the real constructor accepts": empirical (legal-vs-raises), its consequences are proved (*_of_legal)']


OBLIGATIONS[:] = OBLIGATIONS_TXT.split()
if __name__ == '__main__':
    main_wrapper('C08', main)
