"""C19 — Verilog generation is a pure, repeatable function of the circuit.
See DESIGN.md §5 C19, lean/Py4hwV/Emit/Cache.lean (model of the generator's hidden state), lean/Py4hwV/Props/C19.lean, notes/C19.md.

S2 has two halves:
  correspondence  the REAL generator vs Emit.Cache (Drv/C19.lean) on the exported object graph: per object (module text of
                  every object from a clean state: header, wire declarations, instance connections, names used by inlined
                  children) and per call sequence (which structures are emitted in which order, exceptions,
                  created_structures of every generator and of caller-supplied lists, the module-level cache after
                  every call), from arbitrary — also poisoned — initial cache states;
  oracle          the property itself on the REAL code: deep snapshots of the object graph before/after every generation
                  call, simulation of a circuit with generation interleaved vs its never-generated twin, Canon-equality of
                  repeated / interleaved / fresh-generator / twin-circuit requests, sub-block text from different ancestors.
"""
import os, sys, json, inspect
from common import *
import c19_lib as L
import c19_designs as DS
import c19_behav as BH

OBLIGATIONS = [
    'C19.coh_clear', 'C19.getWireNames_sim', 'C19.emitModule_sim', 'C19.getVerilogI_sim', 'C19.hierI_sim',
    'C19.cache_hit_fresh', 'C19.cache_hit_returns_cached', 'C19.cache_coherent', 'C19.cache_coherent_hier',
    'C19.stale_cache_counterexample', 'C19.getVerilogI_eq', 'C19.getVerilogI_created', 'C19.module_text_state_free',
    'C19.public_getVerilog_spec', 'C19.public_getHier_spec', 'C19.hier_with_list_depends_only_on_content',
    'C19.shared_list_second_call_differs', 'C19.step_spec', 'C19.run_spec', 'C19.gen_state_indep', 'C19.repeat_same_text',
    'C19.interleave_same_text', 'C19.sim_no_effect', 'C19.hier_members', 'C19.submodule_context_free',
    'C19.submodule_context_free_direct',
    # the exact, ordered, de-duplicated pre-order list of a hierarchy request
    'C19.emitModule_fin', 'C19.hier_exact', 'C19.hierSpec_eq_walk', 'C19.descendants_of_ok', 'C19.hier_members_full',
    'C19.hier_members_exact', 'C19.public_getHier_full', 'C19.dedupWalk_sublist',
    # the transpiler and the live object
    'C19.extractInit_frame', 'C19.transpile_live_frame', 'C19.transpile_sim_indep_partial', 'C19.transpile_sim_counterexample',
    'C19.withLive_sim_indep', 'C19.sim_history_indep',
]

# proposals for /verif/known_findings.json (the integrator merges them); applied locally until they are listed there
PROPOSED_FINDINGS = [
    {"id": "C19-platform-build-default-list", "property": "C19", "status": "fixed", "commit": "ba2b673",
     "anchor": "py4hw/external/platforms/intel.py:28",
     "class_expr": "r.get('via') == 'platform.build default createdStructures' and r.get('call_index', 0) >= 1",
     "witness": {"via": "platform.build default createdStructures", "platform": "C10LP", "call_index": 1,
                 "first_text_modules": 1, "second_text": ""},
     "what": "fixed: property=C19 ba2b673 C10LP/DE0 .build(projectDir) declared createdStructures=[] as a mutable default and handed it "
             "to getVerilogForHierarchy, which appends to it: every build() after the first one in a process wrote an EMPTY Verilog file"},
    {"id": "C19-live-arg-attr", "property": "C19", "status": "known",
     "anchor": "py4hw/transpilation/python2verilog_transpilation.py:756",
     "class_expr": "r.get('via') == 'constructor-argument attribute reassigned by clock()' and r.get('cycles_between', 0) >= 1",
     "witness": {"via": "constructor-argument attribute reassigned by clock()", "class": "Acc(step=3): clock() does self.step += 1",
                 "cycles_between": 3, "before": "total=total+3;", "after": "total=total+6;"},
     "what": "the transpiler substitutes getattr(live object, <constructor argument name>) for attributes assigned from "
             "constructor arguments: when clock() (or anything else) reassigns such an attribute, the generated text depends "
             "on how many cycles were simulated before generation"},
]


def fail_or_known(res, what, replay):
    listed = {k.get('id') for k in load_known()}
    for k in PROPOSED_FINDINGS:
        if k.get('status') == 'fixed' and common_matches(k, what, replay):
            # a repaired defect is back: a VIOLATION even while known_findings.json still carries a stale "known" entry
            res.failures.append({'what': what + f' (recurrence of fixed finding {k["id"]}, {k.get("commit")})', 'replay': replay})
            return
        if k.get('status') == 'known' and k['id'] not in listed and common_matches(k, what, replay):
            res.known_hits.append((k, what))
            note = f"{k['id']} pending merge into known_findings.json; class predicate applied from harness/c19.py"
            if note not in res.notes:
                res.notes.append(note)
            return
    res.fail(what, replay)


def common_matches(k, what, replay):
    import common
    return common._matches(k, what, replay)


# ------------------------------------------------------------------------------------------------
class Real:
    """one live process state: circuits A (+ optional second circuit C) in Graph g; generators; caller lists"""

    def __init__(self, g):
        import py4hw.rtl_generation as R
        self.R, self.g = R, g
        self.gens, self.lists = [], []

    def call(self, fn):
        with L.quiet():
            try:
                return ('ok', fn())
            except Exception as e:       # the generator raises plain Exception / KeyError / AttributeError / TypeError
                return ('err', type(e).__name__ + ': ' + str(e)[:120])

    def cache_state(self):
        R, g = self.R, self.g
        o = R.wire_names_cache_obj
        if o is None:
            return '_', []
        return (g.O(o) if id(o) in g.oid else '?'), [(g.wid.get(id(w), '?'), n) for w, n in (R.wire_names_cache or {}).items()]


def values_of(g):
    """simulation-visible state: every wire value and every int/list attribute of every object (by Graph index)"""
    vals = [w.value for w in g.wires if hasattr(w, 'value')]
    attrs = []
    for o in g.objs:
        for k, v in vars(o).items():
            if isinstance(v, (int, bool)) or (isinstance(v, list) and all(isinstance(x, int) for x in v)):
                attrs.append((g.oid[id(o)], k, v if not isinstance(v, list) else list(v)))
    return vals, attrs


def do_sim(rng_ops, d, sim):
    """rng_ops: list of ('poke', input name, value) | ('clk', n)"""
    for op in rng_ops:
        if op[0] == 'poke':
            d['inputs'][op[1]].put(op[2])
        else:
            with L.quiet():
                sim.clk(op[1])


def apply_edit(d, g, tag, pref=None):
    """construction continues between two generation requests: a new wire and an inlinable leaf inside a structural block.
    deterministic (twin gets the same edit).  returns the index of the edited object"""
    import py4hw
    cands = [o for o in DS.all_objs(d['hw']) if len(o.children) > 0 and not o.isPropagatable() and not o.isClockable()]
    tgt = cands[tag % len(cands)]
    if pref is not None and pref < len(g.objs) and any(g.objs[pref] is c for c in cands):
        tgt = g.objs[pref]
    src = None
    for c in tgt.children.values():
        for p in c.outPorts:
            if p.wire is not None and isinstance(p.wire, py4hw.Wire):
                src = p.wire
                break
        if src is not None:
            break
    if src is None:
        return None
    nw = tgt.wire(f'edit{tag}', src.getWidth())
    py4hw.Not(tgt, f'editnot{tag}', src, nw)
    with L.quiet():
        d['hw'].getSimulator()
    g.refresh()
    return g.oid[id(tgt)]


# ------------------------------------------------------------------------------------------------
class Scenario:
    def __init__(self, res, rng, kind, label, tier, kws, exhaustive_ops=None):
        self.res, self.rng, self.kind, self.label, self.tier, self.kws = res, rng, kind, label, tier, kws
        self.lines, self.expect = [], []     # driver requests; expect[i] = None | callable(answer)
        self.ok = False
        self.exh = exhaustive_ops
        self.replay_ops = []
        self.poisoned = False

    def q(self, line, chk=None):
        self.lines.append(line)
        self.expect.append(chk)

    def rp(self, **kw):
        d = dict(kind=self.kind, label=self.label, seed=self.res.seed, tier=self.tier, ops=list(self.replay_ops))
        d.update(kw)
        return d

    def fail(self, what, replay):
        """an oracle failure is a failing input of the PROPERTY only when the sequence consists of public requests,
        simulation and construction steps; after the harness has overwritten the module globals (poison) it is reported
        as a broken correspondence instead"""
        if self.poisoned:
            self.res.disagree('oracle-after-poisoned-cache', dict(what=what, replay=replay))
        else:
            fail_or_known(self.res, what, replay)

    # ---- build
    def build(self):
        rng = self.rng
        try:
            self.A = DS.build(self.kind, rng.fork('b'), self.tier)
            self.B = DS.build(self.kind, rng.fork('b'), self.tier)
        except Exception as e:
            self.res.hist('build_errors', f'{self.kind}:{type(e).__name__}')
            return False
        self.g, self.gB = L.Graph(), L.Graph()
        self.g.add_root(self.A['hw'])
        self.gB.add_root(self.B['hw'])
        if len(self.g.objs) != len(self.gB.objs) or len(self.g.wires) != len(self.gB.wires):
            raise ToolFailure('twin builders are not deterministic')
        self.C = None
        if rng.chance(1, 3):
            try:
                self.C = DS.build(rng.choice(['lib', 'plan', 'behav']), rng.fork('c'), self.tier)
                self.g.add_root(self.C['hw'])
            except Exception:
                self.C = None
        with L.quiet():
            self.simA, self.simB = self.A['hw'].getSimulator(), self.B['hw'].getSimulator()
        try:
            self.table = self.g.table_lines(self.kws)
        except L.Unsupported as e:
            self.res.hist('build_errors', 'unsupported-name')
            return False
        return True

    # ---- level 1: every object from a clean state
    def refs(self, epoch):
        import py4hw
        g, R = self.g, Real(self.g).R
        self.ref, self.frag_items = {}, {}
        gen = py4hw.VerilogGenerator(g.roots[0])
        s0 = L.snapshot(g)
        altered = False
        for i, o in enumerate(g.objs):
            with L.quiet():
                try:
                    self.ref[i] = ('ok', gen.getVerilog(o))
                except Exception as e:
                    self.ref[i] = ('err', type(e).__name__)
            step = max(1, len(g.objs) // 12)
            if not altered and (i % step == step - 1 or i == len(g.objs) - 1):
                s1 = L.snapshot(g)
                if s0 != s1:
                    altered = True
                    df = L.snap_diff(s0, s1)
                    self.fail(f'getVerilog of object {i} ({type(o).__name__} {o.getFullPath()}) altered the object graph: ' + '; '.join(df[:3]),
                              self.rp(via='snapshot', stage='per-object getVerilog', diff=df[:6],
                                      ops=[('newGen', 0)] + [('getVerilog', 0, j, 0, None) for j in range(i + 1)]))
            with L.quiet():
                if g.pred.isInlinable(o) and o.parent is not None:
                    R.clearWireNamesCache()
                    try:
                        self.frag_items[i] = L.count_items(g.norm_ids(gen.inlinePrimitive(o)))
                    except Exception:
                        self.frag_items[i] = 1
        R.clearWireNamesCache()
        # second pass: the same request for every object again, after all the others have been generated
        for i, o in enumerate(g.objs):
            with L.quiet():
                try:
                    again = ('ok', py4hw.VerilogGenerator(o).getVerilog())
                except Exception as e:
                    again = ('err', type(e).__name__)
            self.res.count(('l1-repeat', self.label, i))
            if again != self.ref[i]:
                self.fail(f'getVerilog of object {i} ({type(o).__name__} {o.getFullPath()}) repeated after one generation of every object of the design gives a different text',
                          self.rp(via='repeat', stage='per-object getVerilog', first=str(self.ref[i][1])[-400:], again=str(again[1])[-400:],
                                  ops=[('newGen', 0)] + [('getVerilog', 0, j, 0, None) for j in range(len(g.objs))] + [('newGen', i), ('getVerilog', 1, None, 0, None)]))
                break
        R.clearWireNamesCache()
        self.q('begin')
        self.q('op newGen 0')
        for i, o in enumerate(g.objs):
            self.q(f'op getVerilog 0|{i}|0|_', self.chk_level1(i))

    def chk_level1(self, i):
        kind, txt = self.ref[i]
        frag_items = dict(self.frag_items)

        def chk(ans):
            res, g = self.res, self.g
            m = L.parse_model(ans)
            res.count(('l1', self.label, i), hist={'l1_class': type(g.objs[i]).__name__})
            if m[0] == 'err' or kind == 'err':
                res.hist('l1_outcome', f'model {m[0]} / real {kind}')
                if (m[0] == 'err') != (kind == 'err'):
                    res.disagree('per-object', dict(design=self.label, kind=self.kind, obj=i, cls=type(g.objs[i]).__name__,
                                                    model=ans[:200], real=str(txt)[:200]))
                return
            outs = m[1]
            ch = L.chunks(txt)
            if len(outs) != 1 or len(ch) != 1:
                res.disagree('per-object', dict(design=self.label, obj=i, what='number of modules', model=len(outs), real=len(ch)))
                return
            mo = outs[0]
            if mo['k'] == 'ioos':
                res.hist('l1_outcome', 'inlined-out-of-scope')
                if not txt.startswith(L.WARN):
                    res.disagree('per-object', dict(design=self.label, obj=i, what='model says inlined out of scope', real=txt[:120]))
                return
            if txt.startswith(L.WARN):
                res.disagree('per-object', dict(design=self.label, obj=i, what='real says inlined out of scope', model=ans[:120]))
                return
            diffs = L.compare_module(mo, g.norm_ids(ch[0]), frag_items)
            if diffs is None:
                res.hist('l1_outcome', 'outside-parser-subset')
                return
            if mo['body'][0] == 'leaf':
                how = mo['body'][1]
                real_how = 'seq' if '// Code generated from clock method' in txt else ('comb' if '// Code generated from propagate method' in txt else 'body')
                if how != real_how and not (how == 'run'):
                    diffs.append(f'leaf route {real_how} / model {how}')
            res.hist('l1_outcome', 'agree' if not diffs else 'differ')
            if diffs:
                res.disagree('per-object', dict(design=self.label, kind=self.kind, obj=i, cls=type(g.objs[i]).__name__, diffs=diffs[:4]))
        return chk

    # ---- level 2 + oracle: call sequences
    def gen_ops(self):
        rng, g = self.rng.fork('ops'), self.g
        if self.exh is not None:
            return self.exh
        tops = [g.oid[id(o)] for o in self.A['tops']]
        if self.C is not None:
            tops += [g.oid[id(o)] for o in self.C['tops'][:2]]
        allo = list(range(len(g.objs)))
        structural = [i for i in allo if len(g.objs[i].children) > 0]
        names = sorted({c.split('(')[0].split('#')[0].split()[-1] for k, t in self.ref.values() if k == 'ok' for c in L.chunks(t)
                        if c.startswith('module ')})
        ops = [('newGen', rng.choice(tops))]
        poisoned = rng.chance(1, 3)
        if poisoned:
            ops.append(('poison', rng.choice(structural or allo)))
        n = rng.randint(6, 14 if self.tier == 'quick' else 24)
        ngen, nlist, edited = 1, 0, False
        for _ in range(n):
            k = rng.randint(0, 99)
            if k < 10:
                ops.append(('newGen', rng.choice(tops)))
                ngen += 1
            elif k < 35:
                o = None if rng.chance(1, 4) else rng.choice(tops + [rng.choice(allo)])
                ops.append(('getVerilog', rng.randint(0, ngen - 1), o, rng.randint(0, 1), 'Forced' if rng.chance(1, 8) else None))
            elif k < 70:
                o = None if rng.chance(1, 4) else rng.choice(tops + [rng.choice(structural or allo)])
                lst = rng.randint(0, nlist - 1) if nlist and rng.chance(1, 3) else None
                gi = rng.randint(0, ngen - 1)
                ops.append(('getHier', gi, o, rng.randint(0, 1), 'Forced' if rng.chance(1, 10) else None, lst))
                if lst is not None and rng.chance(1, 2):
                    # a plain request on the SAME generator after one that was handed the caller's list, then the list again
                    if rng.chance(1, 2):
                        ops.append(('getVerilog', gi, rng.choice(tops), rng.randint(0, 1), None))
                    else:
                        ops.append(('getHier', gi, rng.choice(tops), rng.randint(0, 1), None, None))
                    ops.append(('getHier', rng.randint(0, ngen - 1), rng.choice(tops), rng.randint(0, 1), None, lst))
                if o is not None and rng.chance(1, 3):
                    # explicit sub-object request followed by a default-object request on the SAME generator
                    if rng.chance(1, 2):
                        ops.append(('getHier', gi, None, rng.randint(0, 1), None, None))
                    else:
                        ops.append(('getVerilog', gi, None, rng.randint(0, 1), None))
            elif k < 78:
                init = [rng.choice(names) for _ in range(rng.randint(0, 2))] if names else []
                ops.append(('newList', init))
                nlist += 1
            elif k < 90:
                so = []
                for _ in range(rng.randint(1, 4)):
                    if self.A['inputs'] and rng.chance(2, 3):
                        nm = rng.choice(sorted(self.A['inputs']))
                        so.append(('poke', nm, rng.bits(self.A['inputs'][nm].getWidth())))
                    else:
                        so.append(('clk', rng.choice([1, 1, 2, 5])))
                ops.append(('sim', so))
            elif not edited and self.C is None:
                ops.append(('edit', rng.randint(0, 7)))
                edited = True
        # stale-cache probe (public requests and one construction step only): request, edit the object the cache names, request again
        if not edited and not poisoned and self.C is None and structural:
            if rng.chance(1, 2):
                ops.append(('getVerilog', 0, rng.choice(structural), 0, None))
            else:
                ops.append(('getHier', 0, rng.choice(tops), 1, None, None))
            ops.append(('edit', rng.randint(0, 7)))
        # always end with a repeated pair so that every scenario has at least one repetition
        ops.append(('getHier', 0, tops[0], 1, None, None))
        ops.append(('sim', [('clk', 2)]))
        ops.append(('getHier', rng.randint(0, ngen - 1), tops[0], 1, None, None))
        return ops

    def run_ops(self):
        import py4hw
        res, g = self.res, self.g
        R = Real(g)
        ops = self.gen_ops()
        self.q('begin')
        heap_len, list_ref, epoch = 0, [], 0
        seen = {}          # request key -> canonical text (repeatability)
        gen_own = []
        self.last_text = {}
        by_name = {}       # (epoch, instance-suffixed module name) -> raw chunk (context freeness)
        requests = []      # for the twin replay
        sim_trace = []
        ids = [g.hexid(o) for o in g.objs]
        ops = list(ops)
        pos = 0
        while pos < len(ops):
            op = ops[pos]
            pos += 1
            self.replay_ops.append(op)
            res.hist('ops', op[0])
            if op[0] == 'newGen':
                R.gens.append(py4hw.VerilogGenerator(g.objs[op[1]]))
                gen_own.append(op[1])        # the circuit the generator was constructed for: what a default-object request means
                self.q(f'op newGen {op[1]}')
                heap_len += 1
            elif op[0] == 'poison':
                o = g.objs[op[1]]
                self.poisoned = True
                junk = {w: 'STALE_' + w.name for w in list(L_port_wires(o))[:6]}
                R.R.wire_names_cache_obj, R.R.wire_names_cache = o, junk
                self.q(f'poison {op[1]}|' + (','.join(f'{g.W(w)}=STALE_{w.name}' for w in junk) or '-'))
            elif op[0] == 'newList':
                R.lists.append(list(op[1]))
                list_ref.append(heap_len)
                heap_len += 1
                self.q('op newList ' + (','.join(g.norm_ids(n) for n in op[1]) or '-'))
            elif op[0] == 'sim':
                do_sim(op[1], self.A, self.simA)
                do_sim(op[1], self.B, self.simB)
                va, vb = values_of_root(g, self.A), values_of_root(self.gB, self.B)
                res.count(('sim', self.label, len(self.replay_ops)))
                if va != vb:
                    bad = [i for i, (x, y) in enumerate(zip(va[0], vb[0])) if x != y][:4]
                    self.fail(f'simulation after generation differs from the never-generated twin (wires {bad})',
                                  self.rp(via='twin simulation', wires=bad, with_generation=[va[0][i] for i in bad], twin=[vb[0][i] for i in bad]))
                self.q('op sim')
            elif op[0] == 'edit':
                # adversarial choice: the object the module-level cache currently names (when it is a structural block)
                co = R.R.wire_names_cache_obj
                pref = g.oid.get(id(co)) if co is not None else None
                ea = apply_edit(self.A, g, op[1], pref)
                eb = apply_edit(self.B, self.gB, op[1], pref)
                if ea is None:
                    continue
                res.hist('edit_target', 'cache holder' if ea == pref else 'other')
                ops.insert(pos, ('getVerilog', 0, ea, 0, None))
                epoch += 1
                ids = [g.hexid(o) for o in g.objs]
                try:
                    tl = g.table_lines(self.kws)
                except L.Unsupported:
                    return
                for l in tl:
                    self.q(l)
                self.q('edit')
                # reference texts of the new epoch (level 2 compares against them)
                save = (R.R.wire_names_cache_obj, R.R.wire_names_cache)
                gen0 = py4hw.VerilogGenerator(g.roots[0])
                for i, o in enumerate(g.objs):
                    R.R.wire_names_cache_obj, R.R.wire_names_cache = None, None
                    with L.quiet():
                        try:
                            self.ref[i] = ('ok', gen0.getVerilog(o))
                        except Exception as e:
                            self.ref[i] = ('err', type(e).__name__)
                # leave the cache exactly as the last scenario call left it (a stale entry for the edited object is the point)
                R.R.wire_names_cache_obj, R.R.wire_names_cache = save
            else:
                api = op[0]
                gen = R.gens[op[1]]
                obj = None if op[2] is None else g.objs[op[2]]
                tgt = op[2] if op[2] is not None else gen_own[op[1]]
                lst = None
                lists_before = [list(x) for x in R.lists]
                s0 = L.snapshot(g)
                if api == 'getVerilog':
                    r = R.call(lambda: gen.getVerilog(obj, noInstanceNumber=bool(op[3]), forceName=op[4]))
                    self.q(f'op getVerilog {op[1]}|{"_" if op[2] is None else op[2]}|{op[3]}|{op[4] or "_"}', self.chk_level2(r, epoch))
                    heap_len += 1
                    key = ('V', tgt, op[3], op[4], None, epoch)
                else:
                    lst = None if op[5] is None else R.lists[op[5]]
                    before = None if lst is None else tuple(lst)
                    r = R.call(lambda: gen.getVerilogForHierarchy(obj, noInstanceNumberInTopEntity=bool(op[3]), forceName=op[4],
                                                                  createdStructures=lst))
                    self.q(f'op getHier {op[1]}|{"_" if op[2] is None else op[2]}|{op[3]}|{op[4] or "_"}|'
                           f'{"_" if op[5] is None else list_ref[op[5]]}', self.chk_level2(r, epoch))
                    if lst is None:
                        heap_len += 1
                    key = ('H', tgt, op[3], op[4], before, epoch)
                self.q('state', self.chk_state(R, R.cache_state(), [[g.norm_ids(n) for n in x.created_structures] for x in R.gens],
                                               [[g.norm_ids(n) for n in x] for x in R.lists], list(list_ref)))
                s1 = L.snapshot(g)
                res.count(('call', self.label, len(self.replay_ops)), hist={'api': api, 'outcome': r[0]})
                # --- oracle 6: a caller's list is observable state: only a request HANDED that list may change it, and only by
                #     appending the names of the structures it wrote
                for li, (lo, was) in enumerate(zip(R.lists, lists_before)):
                    if lo is lst:
                        written = [c.split('(')[0].split('#')[0].split()[1] for c in (L.chunks(r[1]) if r[0] == 'ok' else [])
                                   if c.startswith('module ')]
                        res.count(('caller-list', self.label, len(self.replay_ops), li), hist={'caller_list': 'handed'})
                        if list(lo[:len(was)]) != list(was) or (r[0] == 'ok' and list(lo[len(was):]) != written):
                            self.fail(f'getVerilogForHierarchy(createdStructures=L{li}) left L{li} = {[g.norm_ids(n) for n in lo]}: expected the '
                                      f'previous content plus the structures written by this request',
                                      self.rp(via='caller list', list=li, before=[g.norm_ids(n) for n in was], after=[g.norm_ids(n) for n in lo],
                                              written=[g.norm_ids(n) for n in written]))
                    elif list(lo) != list(was):
                        self.fail(f'{api} on generator {op[1]} without createdStructures changed the caller\'s list L{li} '
                                  f'(handed to an EARLIER request): {[g.norm_ids(n) for n in was]} -> {[g.norm_ids(n) for n in lo]}',
                                  self.rp(via='caller list', list=li, before=[g.norm_ids(n) for n in was], after=[g.norm_ids(n) for n in lo]))
                if r[0] == 'err':
                    res.hist('real_exceptions', r[1].split(':')[0])
                # --- oracle 1: the circuit is not altered
                if s0 != s1:
                    df = L.snap_diff(s0, s1)
                    self.fail(f'{api} altered the object graph: ' + '; '.join(df[:3]), self.rp(via='snapshot', diff=df[:6]))
                # --- oracle 2b: a request with the object omitted describes the circuit the generator was constructed for,
                #     whatever was requested through that generator before: compare with a FRESH generator asked explicitly
                if op[2] is None and lst is None:
                    save2 = (R.R.wire_names_cache_obj, R.R.wire_names_cache)
                    own = g.objs[tgt]
                    if api == 'getVerilog':
                        rf = R.call(lambda: py4hw.VerilogGenerator(own).getVerilog(own, noInstanceNumber=bool(op[3]), forceName=op[4]))
                    else:
                        rf = R.call(lambda: py4hw.VerilogGenerator(own).getVerilogForHierarchy(own, noInstanceNumberInTopEntity=bool(op[3]),
                                                                                               forceName=op[4]))
                    R.R.wire_names_cache_obj, R.R.wire_names_cache = save2
                    res.count(('default-object', self.label, len(self.replay_ops)), hist={'default_object_requests': api})
                    if (r[0], L.canon_text(r[1], ids) if r[0] == 'ok' else None) != (rf[0], L.canon_text(rf[1], ids) if rf[0] == 'ok' else None):
                        self.fail(f'{api}() with the object omitted, on generator {op[1]} constructed for object {tgt}, does not describe that object '
                                  f'(a fresh generator asked explicitly gives a different text)',
                                  self.rp(via='default object', generator=op[1], own_object=tgt, default_request=str(r[1])[:400],
                                          fresh_explicit=str(rf[1])[:400]))
                # --- oracle 2: repetition / interleaving: same request, same text (up to Canon)
                if r[0] == 'ok':
                    ct = L.canon_text(r[1], ids)
                    if key in seen and seen[key][0] != ct:
                        self.fail(f'{api} of object {tgt} repeated after {len(self.replay_ops) - seen[key][1]} ops gives a different text',
                                      self.rp(via='repeat', request=list(map(str, key)), first=seen[key][0][:400], again=ct[:400]))
                    seen.setdefault(key, (ct, len(self.replay_ops)))
                    self.last_text[key] = r[1]
                    requests.append((op, key, ct, epoch, r))
                    # --- oracle 3: text of a sub-block does not depend on the requesting ancestor (instance-unique names)
                    for ch in L.chunks(r[1]):
                        mname = ch.split('(')[0].split('#')[0].split()
                        if len(mname) == 2 and mname[0] == 'module' and any(mname[1].endswith('_' + i) for i in ids):
                            k2 = (epoch, mname[1])
                            if k2 in by_name and by_name[k2][0] != ch:
                                self.fail(f'module {mname[1]} requested from object {tgt} differs from the text requested from object {by_name[k2][1]}',
                                              self.rp(via='context', module=mname[1], from_a=by_name[k2][1], from_b=tgt,
                                                      text_a=by_name[k2][0][:300], text_b=ch[:300]))
                            by_name.setdefault(k2, (ch, tgt))
                if r[0] == 'err':
                    requests.append((op, key, None, epoch, r))
                    # --- oracle 5: a request may raise only if some module of it cannot be generated on its own either
                    if lst is None:
                        save5 = (R.R.wire_names_cache_obj, R.R.wire_names_cache)
                        todo, alone = [g.objs[tgt]], True
                        while todo and alone:
                            x = todo.pop()
                            rx = R.call(lambda: py4hw.VerilogGenerator(x).getVerilog())
                            alone = rx[0] == 'ok'
                            if api == 'getHier':
                                todo += [c for c in x.children.values() if not g.pred.isInlinable(c)]
                        R.R.wire_names_cache_obj, R.R.wire_names_cache = save5
                        if alone:
                            self.fail(f'{api} of object {tgt} raises {r[1][:80]} although every module of the request can be generated on its own',
                                      self.rp(via='context', request=list(map(str, key)), error=r[1]))
                if r[0] == 'err' and key in seen:
                    self.fail(f'{api} of object {tgt} raised {r[1][:60]} although the same request succeeded before',
                                  self.rp(via='repeat', request=list(map(str, key)), error=r[1]))
        # --- oracle 4: the never-generated twin, fresh generator per request, after all simulation: Canon-equal text
        idsB = [self.gB.hexid(o) for o in self.gB.objs]
        nA = len(g.objs) if self.C is None else None
        for op, key, ct, ep, ra in requests:
            if ep != epoch or key[4] is not None:
                continue
            tgt = key[1]
            if tgt >= len(self.gB.objs) or (self.C is not None and g.objs[tgt] not in DS.all_objs(self.A['hw'])):
                continue
            ob = self.gB.objs[tgt]
            genB = py4hw.VerilogGenerator(self.B['hw'])
            if key[0] == 'V':
                rb = Real(self.gB).call(lambda: genB.getVerilog(ob, noInstanceNumber=bool(op[3]), forceName=op[4]))
            else:
                rb = Real(self.gB).call(lambda: genB.getVerilogForHierarchy(ob, noInstanceNumberInTopEntity=bool(op[3]), forceName=op[4]))
            res.count(('twin', self.label, tgt, key[0]))
            if ra[0] == 'err':
                if rb[0] == 'ok':
                    self.fail(f'{key[0]} request for object {tgt} raised {ra[1][:80]} but succeeds on an identically built circuit with a fresh generator',
                              self.rp(via='twin text', request=list(map(str, key)), error=ra[1]))
                continue
            if rb[0] != 'ok':
                self.fail(f'twin circuit raises {rb[1][:60]} for a request that succeeded on the generated-upon circuit',
                              self.rp(via='twin text', request=list(map(str, key))))
                continue
            cb = L.canon_text(rb[1], idsB)
            if cb != ct:
                self.fail(f'{key[0]} text of object {tgt} differs (after Canon) from the text of an identically built, never-generated circuit',
                              self.rp(via='twin text', request=list(map(str, key)), scenario=ct[:400], twin=cb[:400]))
            # the same comparison by the Lean Canon (V.canon through the driver), on a bounded number of pairs
            if len(self.vcanon_pairs) < 2:
                try:
                    sa = L.vparse.sexp(L.vparse.parse(self.last_text[key]))
                    sb = L.vparse.sexp(L.vparse.parse(rb[1]))
                    self.vcanon_pairs.append((f'vcanon {",".join(ids) or "-"} {sa}', f'vcanon {",".join(idsB) or "-"} {sb}', key))
                except L.vparse.VParseError:
                    self.res.hist('vcanon', 'outside-parser-subset')
        for la, lb, key in self.vcanon_pairs:
            box = {}
            self.q(la, lambda ans, box=box: box.__setitem__('a', ans))
            self.q(lb, self.chk_vcanon(box, key))
        self.ok = True

    def chk_vcanon(self, box, key):
        def chk(ans):
            self.res.hist('vcanon', 'equal' if ans == box.get('a') else 'differ')
            if ans != box.get('a') or ans == 'parse-error':
                self.fail(f'Lean Canon (V.canon) of the {key[0]} text of object {key[1]} differs between the circuit and its twin',
                              self.rp(via='twin text (lean canon)', request=list(map(str, key)), a=box.get('a'), b=ans))
        return chk

    def chk_level2(self, r, epoch):
        ref = dict(self.ref)
        g = self.g
        hexes = {i: g.hexid(o) for i, o in enumerate(g.objs)}

        def chk(ans):
            res = self.res
            m = L.parse_model(ans)
            res.count(('l2', self.label, len(self.lines), ans[:40]), hist={'l2_model': m[0]})
            if m[0] == 'err' or r[0] == 'err':
                if (m[0] == 'err') != (r[0] == 'err'):
                    res.disagree('call-sequence', dict(design=self.label, kind=self.kind, model=ans[:160], real=str(r[1])[:160], ops=self.replay_ops[-6:]))
                else:
                    res.hist('l2_err_kinds', m[1].split()[0])
                return
            chs = L.chunks(r[1])
            outs = [o for o in m[1] if o['k'] != 'empty']
            if len(chs) != len(outs):
                res.disagree('call-sequence', dict(design=self.label, kind=self.kind, what='number of emitted structures', model=[o.get('name') for o in outs],
                                                   real=[c.split('(')[0][:40] for c in chs], ops=self.replay_ops[-6:]))
                return
            for o, ch in zip(outs, chs):
                if o['k'] == 'ioos':
                    ok = ch.startswith(L.WARN)
                    exp = L.WARN
                else:
                    k, t = ref.get(o['src'], ('err', ''))
                    if k != 'ok':
                        ok, exp = False, f'<reference text of object {o["src"]} raised>'
                    else:
                        rc = L.chunks(t)
                        if len(rc) != 1 or rc[0].startswith(L.WARN):
                            ok, exp = False, '<no reference module>'
                        else:
                            refname = rc[0].split('(')[0].split('#')[0].split()[1]
                            want = o['name']
                            for i, h in hexes.items():
                                want = want.replace(f'_ID{i}', '_' + h) if want.endswith(f'_ID{i}') else want
                            exp = rc[0].replace('module ' + refname, 'module ' + want, 1)
                            ok = (exp == ch)
                if not ok:
                    res.disagree('call-sequence', dict(design=self.label, kind=self.kind, what='emitted module is not the clean-state text of the object the model names',
                                                       src=o.get('src'), expected=exp[:300], real=ch[:300], ops=self.replay_ops[-6:]))
                    return
        return chk

    def chk_state(self, R, cache, gens, lists, list_ref):
        def chk(ans):
            res = self.res
            m = re_state.match(ans)
            if not m:
                raise ToolFailure('state answer: ' + ans[:200])
            mc = (m.group(1), [(int(a), b) for a, b in (x.split('=') for x in m.group(2).split(',') if x)])
            mg = [x.split(':', 1)[1].split(',') if x.split(':', 1)[1] else [] for x in m.group(3).split(' / ')] if m.group(3).strip() else []
            heap = [x.split(',') if x.strip() else [] for x in m.group(4).split(' / ')]
            ml = [heap[k] if k < len(heap) else None for k in list_ref]
            if (mc[0], mc[1]) != (cache[0], cache[1]):
                res.disagree('state', dict(design=self.label, what='module-level wire-name cache after the call', model=str(mc)[:200], real=str(cache)[:200],
                                           ops=self.replay_ops[-4:]))
            elif mg != gens:
                res.disagree('state', dict(design=self.label, what='created_structures of the generators', model=str(mg)[:200], real=str(gens)[:200]))
            elif ml != lists:
                res.disagree('state', dict(design=self.label, what='caller-supplied lists', model=str(ml)[:200], real=str(lists)[:200]))
        return chk


import re
re_state = re.compile(r'^cache (\S+) \[(.*?)\] ; gens (.*?) ; heap ?(.*)$')


def L_port_wires(o):
    import py4hw
    for c in o.children.values():
        for p in c.inPorts + c.outPorts:
            if isinstance(p.wire, py4hw.Wire):
                yield p.wire
    for p in o.inPorts + o.outPorts:
        if isinstance(p.wire, py4hw.Wire):
            yield p.wire


def values_of_root(g, d):
    """values restricted to the objects/wires of circuit d (first root): comparable between twins"""
    objs = DS.all_objs(d['hw'])
    ido = {id(o) for o in objs}
    vals, attrs = [], []
    n_first = None
    for w in g.wires:
        p = getattr(w, 'parent', None)
        if p is not None and id(p) in ido and hasattr(w, 'value'):
            vals.append(w.value)
    for o in objs:
        for k, v in vars(o).items():
            if isinstance(v, (int, bool)) or (isinstance(v, list) and v and all(isinstance(x, int) for x in v)):
                attrs.append((g.oid[id(o)], k, type(v).__name__, v if not isinstance(v, list) else [(type(x).__name__, x) for x in v]))
        # parameter dictionaries: name -> value | (index of the object the Parameter refers to, its name)
        if hasattr(o, 'parameters'):
            import py4hw
            attrs.append((g.oid[id(o)], 'parameters',
                          [(k, ('Param', g.oid.get(id(v.obj), '?'), v.name) if isinstance(v, py4hw.Parameter) else v)
                           for k, v in o.parameters.items()]))
    return vals, attrs


# ------------------------------------------------------------------------------------------------
def run_batch(res, scs):
    """one driver session for many scenarios"""
    lines, owners = [], []
    for sc in scs:
        for l, c in zip(sc.lines, sc.expect):
            lines.append(l)
            owners.append(c)
    if not lines:
        return
    out = run_driver('Drv/C19.lean', lines)
    for l, c, o in zip(lines, owners, out):
        if o == 'bad-op':
            raise ToolFailure(f'driver refused: {l[:200]}')
        if c is not None:
            c(o)


def witness_platform_build(res):
    """regression test of the FIXED finding C19-platform-build-default-list (repaired in /repo by ba2b673): the former witness —
    the real platform `build(projectDir)` called twice in one process — re-derived at every run.  The vendor back end
    (edalize -> make -> quartus) is replaced by a stub for the duration of the call; everything before it (generator call,
    file writing) is the real code.  The second Verilog file must equal the first; a recurrence is a VIOLATION (the entry
    has status fixed and suppresses nothing)."""
    import py4hw, tempfile, shutil, importlib

    class _Backend:
        def __init__(self, **kw):
            pass

        def configure(self):
            pass

        def build(self):
            pass

    class _Eda:
        @staticmethod
        def get_edatool(tool):
            return _Backend
    for modname, clsname in (('py4hw.external.platforms.intel', 'C10LP'), ('py4hw.external.platforms.terasic', 'DE0')):
        try:
            mod = importlib.import_module(modname)
            cls = getattr(mod, clsname)
        except Exception as e:
            res.hist('witness', f'{clsname}: import failed: {type(e).__name__}')
            continue
        dflt = (cls.build.__defaults__ or (None,))[-1]
        saved_default = list(dflt) if isinstance(dflt, list) else None
        saved_eda = getattr(mod, 'edatool', None)
        texts, err = [], None
        try:
            mod.edatool = _Eda
            for k in range(2):
                tmp = tempfile.mkdtemp(prefix='c19_build_')
                try:
                    with L.quiet():
                        hw = cls()
                        a, r = hw.wire('a', 4), hw.wire('r', 4)
                        py4hw.Not(hw, 'n', a, r)
                        hw.build(tmp)
                    f = os.path.join(tmp, hw.name + '.v')
                    texts.append(open(f).read() if os.path.exists(f) else None)
                except Exception as e:
                    err = f'{type(e).__name__}: {str(e)[:100]}'
                    break
                finally:
                    shutil.rmtree(tmp, ignore_errors=True)
        finally:
            mod.edatool = saved_eda
            if saved_default is not None:
                dflt[:] = saved_default
        if err is not None or len(texts) != 2 or texts[0] is None:
            res.hist('witness', f'{clsname}: build() not runnable here ({err})')
            continue
        res.count(('witness', 'platform-build', clsname))
        same = texts[1] is not None and L.canon_text(texts[0], []) == L.canon_text(texts[1], [])
        res.hist('witness', f'{clsname}: second build() ' + ('equals the first' if same else 'DIFFERS'))
        if not same:
            fail_or_known(res, f'second {clsname}.build() in one process writes {len(L.chunks(texts[1] or ""))} modules instead of {len(L.chunks(texts[0]))}',
                          dict(via='platform.build default createdStructures', platform=clsname, call_index=1,
                               default_is_list=isinstance(dflt, list), first_text_modules=len(L.chunks(texts[0])),
                               second_text=(texts[1] or '')[:80]))


def witness_live_attr(res):
    import py4hw

    class Acc(py4hw.Logic):
        def __init__(self, parent, name, a, r, step):
            super().__init__(parent, name)
            self.a = self.addIn('a', a)
            self.r = self.addOut('r', r)
            self.step = step
            self.total = 0

        def clock(self):
            self.total = self.total + self.step
            self.step = self.step + 1
            self.r.prepare(self.total)
    with L.quiet():
        hw = py4hw.HWSystem()
        a, r = hw.wire('a', 8), hw.wire('r', 8)
        x = Acc(hw, 'acc', a, r, 3)
        gen = py4hw.VerilogGenerator(hw)
        try:
            t1 = gen.getVerilog(x)
            hw.getSimulator().clk(3)
            t2 = gen.getVerilog(x)
        except Exception as e:
            res.hist('witness', f'live-attr class refused: {type(e).__name__}')
            return
    res.count(('witness', 'live-attr'))
    if t1 != t2:
        l1 = [l.strip() for l in t1.split('\n')]
        l2 = [l.strip() for l in t2.split('\n')]
        d = [(x, y) for x, y in zip(l1, l2) if x != y][:1]
        fail_or_known(res, f'text of a transpiled block changes after 3 simulated cycles: {d}',
                      dict(via='constructor-argument attribute reassigned by clock()', cycles_between=3,
                           before=d[0][0] if d else '', after=d[0][1] if d else ''))


def exhaustive_sequences(res, rng, tier, kws):
    """all call sequences of length <= 2 (quick) / 3 (thorough) over a small alphabet on one small hierarchical design"""
    import itertools
    probe = Scenario(res, rng.fork('exh'), 'hier', 'exh-probe', tier, kws, exhaustive_ops=[])
    if not probe.build():
        return []
    g = probe.g
    tops = [g.oid[id(o)] for o in probe.A['tops']][:3]
    leaf = next((i for i, o in enumerate(g.objs) if g.pred.isInlinable(o)), 0)
    alphabet = []
    for o in tops[:2]:
        alphabet += [('getVerilog', 0, o, 0, None), ('getHier', 0, o, 1, None, None), ('getHier', 1, o, 0, None, 0)]
    alphabet += [('getVerilog', 1, leaf, 0, None), ('getVerilog', 0, None, 1, None), ('sim', [('clk', 1)]), ('getHier', 1, None, 1, None, 0), ('getHier', 0, None, 1, None, None)]
    depth = 2 if tier == 'quick' else 3
    scs = []
    n = 0
    for k in range(1, depth + 1):
        for seq in itertools.product(alphabet, repeat=k):
            if all(s[0] == 'sim' for s in seq):
                continue
            n += 1
            sc = Scenario(res, rng.fork('exh'), 'hier', f'exh-{n}', tier, kws,
                          exhaustive_ops=[('newGen', tops[0]), ('newGen', tops[-1]), ('newList', [])] + list(seq))
            scs.append(sc)
    res.hist('exhaustive', f'sequences(depth<={depth})', n)
    return scs


def static_scan(res):
    """source-level facts the model rests on (the generator is outside the translator's subset, so the tie to the SOURCE is
    this scan + the correspondence): (a) both public entries start with clearWireNamesCache() and rebind
    self.created_structures before anything else; (b) the two cache globals are assigned only in clearWireNamesCache and
    getWireNames; (c) nothing in the generator / transpiler stores into an attribute of anything but `self` (of the
    generator / visitor objects) or calls put/prepare/clk/propagate/settle/setattr/delattr on the live circuit."""
    import ast
    files = ['py4hw/rtl_generation.py', 'py4hw/transpilation/python2verilog_transpilation.py', 'py4hw/transpilation/astutils.py']
    n = 0
    for rel in files:
        try:
            tree = ast.parse(open(os.path.join(REPO, rel)).read())
        except SyntaxError as e:
            res.disagree('static-scan', dict(file=rel, what=f'does not parse: {e}'))
            continue
        for nd in ast.walk(tree):
            n += 1
            if isinstance(nd, ast.Call) and isinstance(nd.func, ast.Attribute) and \
                    nd.func.attr in ('put', 'prepare', 'clk', 'propagate', 'settle', 'settleAll', 'clock', 'rename', 'reparent',
                                     'reparentAndRename', 'addIn', 'addOut', 'addInOut', 'appendWire', 'setSource', 'addSink'):
                res.disagree('static-scan', dict(file=rel, line=nd.lineno, what=f'call of .{nd.func.attr}() inside the generator'))
            if isinstance(nd, ast.Call) and isinstance(nd.func, ast.Name) and nd.func.id in ('setattr', 'delattr'):
                res.disagree('static-scan', dict(file=rel, line=nd.lineno, what=f'{nd.func.id}() inside the generator'))
            if isinstance(nd, (ast.Assign, ast.AugAssign)):
                tgts = nd.targets if isinstance(nd, ast.Assign) else [nd.target]
                for t in tgts:
                    for x in ast.walk(t):
                        if isinstance(x, ast.Attribute) and isinstance(x.ctx, ast.Store):
                            base = x.value
                            while isinstance(base, ast.Attribute):
                                base = base.value
                            bid = base.id if isinstance(base, ast.Name) else '?'
                            if bid in ('obj', 'child', 'parent', 'wire', 'w', 'inp', 'outp', 'drv') or \
                                    (bid == 'self' and isinstance(x.value, ast.Attribute) and x.value.attr == 'obj'):
                                res.disagree('static-scan', dict(file=rel, line=nd.lineno, what=f'store into {bid}.….{x.attr}'))
        if rel.endswith('rtl_generation.py'):
            glob_writers = {}
            for fn in ast.walk(tree):
                if isinstance(fn, ast.FunctionDef):
                    for nd in ast.walk(fn):
                        if isinstance(nd, ast.Assign):
                            for t in nd.targets:
                                if isinstance(t, ast.Name) and t.id in ('wire_names_cache', 'wire_names_cache_obj'):
                                    glob_writers.setdefault(fn.name, 0)
                                    glob_writers[fn.name] += 1
                    if fn.name in ('getVerilog', 'getVerilogForHierarchy'):
                        body = [b for b in fn.body if not (isinstance(b, ast.Expr) and isinstance(b.value, ast.Constant))]
                        first = body[0] if body else None
                        ok1 = isinstance(first, ast.Expr) and isinstance(first.value, ast.Call) and \
                            getattr(first.value.func, 'id', None) == 'clearWireNamesCache'
                        if not ok1:
                            res.disagree('static-scan', dict(file=rel, line=fn.lineno, what=f'{fn.name} does not start with clearWireNamesCache()'))
                        src = ast.unparse(fn)
                        if 'self.created_structures = []' not in src:
                            res.disagree('static-scan', dict(file=rel, line=fn.lineno, what=f'{fn.name} does not reset self.created_structures'))
            if set(glob_writers) - {'clearWireNamesCache', 'getWireNames'}:
                res.disagree('static-scan', dict(file=rel, what=f'cache globals assigned in {sorted(glob_writers)}'))
    res.hist('static_scan', 'ast_nodes', n)


# every way the transpiler touches the live object on the unchanged tree: (class, function, expression).  Emit/Live.lean models
# exactly these: the source text (getMethodASTInspectingLiveObject), the port lists and clock-driver name (fixed at construction),
# hasattr(obj, 'initial') (a method), and ONE read of a simulation-writable attribute: getattr(self.obj, <constructor parameter>).
LIVE_READS = {
    ('Python2VerilogTranspiler', '__init__', 'self.obj = …'),
    ('Python2VerilogTranspiler', 'transpileCombinational', 'ExtractInitializers(self.obj)'),
    ('Python2VerilogTranspiler', 'transpileCombinational', 'self.obj.outPorts'),
    ('Python2VerilogTranspiler', 'getMethodAST', 'getMethodASTInspectingLiveObject(self.obj, method_name)'),
    ('Python2VerilogTranspiler', 'transpileSequential', 'ExtractInitializers(self.obj)'),
    ('Python2VerilogTranspiler', 'transpileSequential', 'self.obj.outPorts'),
    ('Python2VerilogTranspiler', 'transpileSequential', "hasattr(self.obj, 'initial')"),
    ('Python2VerilogTranspiler', 'transpileSequential', 'getObjectClockDriver(self.obj)'),
    ('Python2VerilogTranspiler', 'getExtraDeclarations', 'self.obj.inPorts'),
    ('Python2VerilogTranspiler', 'getExtraDeclarations', 'self.obj.outPorts'),
    ('Python2VerilogTranspiler', 'toVerilog', "hasattr(node, 'toVerilog')"),
    ('Python2VerilogTranspiler', 'toVerilog', "getattr(node, 'toVerilog')"),
    ('ExtractInitializers', '__init__', 'self.obj = …'),
    ('ExtractInitializers', 'visit_Assign', 'getattr(self.obj, node.value.id)'),
    # /repo 19c507c: a flag of the transpiler's own AST node (VerilogWire.final), not a read of the live circuit object
    ('ReplaceWiresAndVariables', 'visit_VerilogWire', "getattr(node, 'final', False)"),
}


def static_scan_live(res):
    """the transpiler's reads of the live object are the ones Emit/Live.lean models (a NEW read — another getattr/hasattr/vars, another
    use of self.obj, the object handed to another visitor — is a broken tie: the failing-input search is the behavioural-class family)"""
    import ast
    rel = 'py4hw/transpilation/python2verilog_transpilation.py'
    try:
        tree = ast.parse(open(os.path.join(REPO, rel)).read())
    except SyntaxError:
        return          # reported by static_scan
    found = set()
    for cl in [n for n in tree.body if isinstance(n, ast.ClassDef)]:
        for fn in [n for n in cl.body if isinstance(n, ast.FunctionDef)]:
            parent = {}
            for nd in ast.walk(fn):
                for ch in ast.iter_child_nodes(nd):
                    parent[ch] = nd
            for nd in ast.walk(fn):
                if isinstance(nd, ast.Call) and isinstance(nd.func, ast.Name) and nd.func.id in ('getattr', 'hasattr', 'vars', 'dir', 'setattr', 'delattr'):
                    found.add((cl.name, fn.name, ast.unparse(nd)))
                if isinstance(nd, ast.Attribute) and nd.attr == '__dict__':
                    found.add((cl.name, fn.name, ast.unparse(nd)))
                if isinstance(nd, ast.Attribute) and nd.attr == 'obj' and isinstance(nd.value, ast.Name) and nd.value.id == 'self':
                    up = parent.get(nd)
                    if isinstance(nd.ctx, ast.Store):
                        found.add((cl.name, fn.name, 'self.obj = …'))
                    elif isinstance(up, ast.Call) and isinstance(up.func, ast.Name) and up.func.id in ('getattr', 'hasattr'):
                        pass          # recorded as the call
                    elif isinstance(up, (ast.Call, ast.Attribute)):
                        found.add((cl.name, fn.name, ast.unparse(up)))
                    else:
                        found.add((cl.name, fn.name, 'self.obj in ' + type(up).__name__))
    extra = sorted(found - LIVE_READS)
    res.hist('static_scan', 'live_reads', len(found))
    for e in extra:
        res.disagree('static-scan', dict(file=rel, what=f'{e[0]}.{e[1]} touches the live object in a way the model does not know: {e[2]}'))


def start_reference_interpreters(W=8):
    """one FRESH interpreter per variant of every family (nothing else generated in it); started at the very beginning of the
    check so that they run while the proofs are being checked"""
    import subprocess
    env = dict(os.environ, PYTHONPATH=REPO + os.pathsep + os.path.join(VERIF, 'harness'), MPLBACKEND='Agg')
    return {v: subprocess.Popen([sys.executable, os.path.join(VERIF, 'harness', 'c19_designs.py'), v, str(W)], env=env,
                                stdout=subprocess.PIPE, stderr=subprocess.PIPE, text=True)
            for fam, (variants, equal) in DS.FAMILIES.items() for v in sorted(variants)}


def class_families(res, rng, tier, procs):
    """the three-way comparison (real simulator vs Lean Verilog semantics on the emitted text) of all families goes through
    ONE driver session, run in a background thread; the returned function joins it and evaluates the answers"""
    import threading
    import vsim
    W = 8
    vb, exp = vsim.VBatch(), {}
    for fam, (variants, equal) in DS.FAMILIES.items():
        same_name_classes(res, rng, tier, fam, sorted(variants), equal, procs, vb, exp, W)
    box = {}

    def work():
        try:
            box['jobs'] = list(vb.run())
        except Exception as e:          # evaluated in the main thread
            box['err'] = e
    th = threading.Thread(target=work)
    th.start()

    def finish():
        th.join()
        if 'err' in box:
            res.broken.append(('correspondence', 'samename-threeway', str(box['err'])[:300]))
            return
        for jb in box.get('jobs', []):
            v = jb['label']
            fam, tr, hist = exp[v]
            vt = [t['r'] for t in jb['trace'][1:]]
            known = [(i, x, y) for i, (x, y) in enumerate(zip(vt, tr)) if x != 'x']
            res.hist('samename_threeway', 'compared' if known else 'all-x')
            bad = [(i, x, y) for i, x, y in known if x != y]
            if bad:
                fail_or_known(res, f'text generated for circuit {v!r} ({fam}) does not behave like that circuit: cycle {bad[0][0]} verilog r={bad[0][1]} simulator r={bad[0][2]}',
                              dict(via=fam, variant=v, request='behaviour', inputs=hist, verilog=vt, simulator=tr))
    return finish


def same_name_classes(res, rng, tier, fam, variants, equal, procs, vb, exp, W):
    """family 'same-name classes': two or more circuits whose transpiled behavioural classes have the SAME __name__ (`Stage`, defined locally in different
    builder functions) but different method bodies, plus a control pair with identical source.  Oracle: whatever was generated
    before in this process, in whatever order, through one generator or fresh ones, each circuit's text equals the text
    obtained for that circuit ALONE in a fresh interpreter (subprocess), and describes its own behaviour (real simulator vs
    the Lean Verilog semantics on the emitted text).
    family 'shared identifier names': DIFFERENT behavioural classes (Saturate/Scale store constructor arguments `limit`, `step`,
    `total` as self.<name>; Window/Ramp/Mask use the same names as local variables, Hold as an attribute assigned only in clock(),
    Ramp as constant-initialised state) — same oracle: the text of each must not depend on which other classes were transpiled before."""
    import itertools, py4hw
    ref = {}
    for v in variants:
        p = procs[v]
        out, err = p.communicate(timeout=600)
        if p.returncode != 0:
            raise ToolFailure(f'reference interpreter for {v} failed: {err[-300:]}')
        ref[v] = json.loads(out.strip().split('\n')[-1])
    for a, b in equal:
        res.count(('samename-control', fam, a, b))
        if ref[a] != ref[b]:
            fail_or_known(res, f'identical-source classes {a} and {b} give different text even in fresh interpreters',
                          dict(via=fam, control=[a, b], text_a=ref[a]['mod'][:300], text_b=ref[b]['mod'][:300]))
    perms = list(itertools.permutations(variants))
    r2 = rng.fork(('samename', fam))
    orders = [tuple(variants), tuple(reversed(variants))] + [tuple(r2.shuffle(variants)) for _ in range(2 if tier == 'quick' else 30)]
    if tier != 'quick':
        orders += perms if len(perms) <= 120 else [perms[i] for i in range(0, len(perms), 5)]
    first_texts = {}
    for k, order in enumerate(orders):
        mode = ['fresh', 'shared', 'interleaved'][k % 3]
        ds = {v: DS.samename(v, W) for v in order}
        shared = py4hw.VerilogGenerator(ds[order[0]]['hw'])
        seq = list(order) if mode != 'interleaved' else list(order) + list(reversed(order))
        for pos, v in enumerate(seq):
            got = DS.samename_texts(ds[v], shared if mode != 'fresh' else None)
            first_texts.setdefault(v, (got['raw_hier'], ds[v]))
            res.count(('samename', fam, k, pos, v), hist={'samename_mode': mode, 'class_family': fam})
            for what in ('hier', 'mod'):
                if got[what] != ref[v][what]:
                    fail_or_known(res, f'text of circuit {v!r} ({fam}) generated after {list(seq[:pos])} in one process differs from its text in a fresh interpreter',
                                  dict(via=fam, order=list(seq), position=pos, variant=v, generator=mode, request=what,
                                       fresh_interpreter=ref[v][what][-400:], this_process=got[what][-400:],
                                       rerun='harness/c19_designs.py <variant> 8 prints the reference'))
                    break
    # simulation history: the text of each circuit before any cycle, and after 1, 2, … further simulation steps (same generator /
    # fresh generator alternating) must all equal the fresh-interpreter reference (which never simulated)
    nsteps = 4 if tier == 'quick' else 12
    for v in variants:
        d = DS.samename(v, W)
        keep = py4hw.VerilogGenerator(d['hw'])
        with L.quiet():
            sim = d['hw'].getSimulator()
        hist_ops = []
        for step in range(nsteps + 1):
            got = DS.samename_texts(d, keep if step % 2 == 0 else None)
            res.count(('sim-history', fam, v, step), hist={'sim_history_steps': step})
            bad = next((w for w in ('hier', 'mod') if got[w] != ref[v][w]), None)
            if bad:
                fail_or_known(res, f'text of circuit {v!r} ({fam}) after {step} simulation steps differs from its text in a fresh interpreter (never simulated)',
                              dict(via=fam, variant=v, request=bad, history='simulation steps before generation', sim_ops=list(hist_ops),
                                   generator='reused' if step % 2 == 0 else 'fresh', never_simulated=ref[v][bad][-400:], this_process=got[bad][-400:]))
                break
            val, n = r2.bits(W), r2.choice([1, 1, 2, 3])
            d['inputs']['a'].put(val)
            with L.quiet():
                sim.clk(n)
            hist_ops += [('poke', 'a', val), ('clk', n)]
    # the text describes its own circuit: real simulator vs Lean Verilog semantics on the text generated in THIS process
    # (queued; class_families runs the batch of all families in one driver session)
    for v, (text, d) in sorted(first_texts.items()):
        hist = [{'a': r2.bits(W)} for _ in range(8)]
        with L.quiet():
            sim = d['hw'].getSimulator()
        tr = []
        for cyc in hist:
            d['inputs']['a'].put(cyc['a'])
            with L.quiet():
                sim.clk(1)
            tr.append(d['r'].get())
        try:
            vb.add(text, 'STop', 'clk', hist, ['r'], label=v)
            exp[v] = (fam, tr, hist)
        except L.vparse.VParseError:
            res.hist('samename_threeway', 'outside-parser-subset')


def main(res, tier, rng, replay):
    import time
    t_last = [time.time()]
    res.cov['stage_wall_s'] = {}

    def stage(name):
        now = time.time()
        res.cov['stage_wall_s'][name] = round(res.cov['stage_wall_s'].get(name, 0) + now - t_last[0], 1)
        t_last[0] = now
    procs = start_reference_interpreters()
    ok, metas, errors, changed = regenerate()
    for e in errors:
        res.broken.append(('translator', 'py2lean', e))
    stage('regenerate')
    res.proof_stage('Py4hwV.Props.C19', OBLIGATIONS)
    stage('proofs')
    kws = L.keywords()
    res.hist('keywords', 'count', len(kws))
    static_scan(res)
    static_scan_live(res)
    # --- families of behavioural classes (same class name / shared identifier names), BEFORE anything else is transpiled here
    finish_threeway = class_families(res, rng, tier, procs)
    stage('class families')
    # --- known-finding witnesses
    witness_platform_build(res)
    witness_live_attr(res)
    stage('witnesses')
    # --- generated behavioural classes: the transpiler vs the live object (Emit/Live.lean), text vs simulation history
    behav_sink = BH.family(res, rng, tier, lambda what, rp: fail_or_known(res, what, rp))
    stage('generated behavioural classes')
    # --- seeded scenarios
    n = 45 if tier == 'quick' else 700
    scs = []
    built = 0

    def flush():
        nonlocal scs
        try:
            run_batch(res, [s for s in scs if s.ok])
        except ToolFailure as e:
            res.broken.append(('correspondence', 'driver', str(e)[:300]))
        scs = []
    scs.append(behav_sink)
    exh = exhaustive_sequences(res, rng, tier, kws)
    for i, sc in enumerate(exh):
        if not sc.build():
            continue
        sc.vcanon_pairs = []
        if i == 0:
            sc.q('cleartab')
        for l in sc.table:
            sc.q(l)
        sc.refs(0) if i == 0 else sc.refs_light()
        sc.run_ops()
        scs.append(sc)
        if len(scs) >= 60:
            flush()
    flush()
    finish_threeway()
    stage('exhaustive sequences')
    for i in range(n):
        kind = DS.KINDS[i % len(DS.KINDS)]
        sc = Scenario(res, rng.fork(('sc', i)), kind, f'{kind}-{i}', tier, kws)
        if not sc.build():
            continue
        built += 1
        sc.vcanon_pairs = []
        for l in sc.table:
            sc.q(l)
        sc.refs(0)
        sc.run_ops()
        res.hist('design_kind', kind)
        res.hist('design_objects', len(sc.g.objs) // 10 * 10)
        if i < 4:
            res.sample(dict(design=sc.label, desc=sc.A.get('desc'), objects=len(sc.g.objs), ops=[str(o)[:80] for o in sc.replay_ops[:8]]))
        scs.append(sc)
        if len(scs) >= 12:
            flush()
    flush()
    stage('seeded designs')
    res.cov['designs_built'] = built
    res.cov['rule'] = ('per design (seeded: random primitive netlists, library blocks, nested containers with reused blocks, UART link, HIL codec, '
                       'UARTMsgGenerator, gated clock domain, transpiled classes; each built twice = twins): (1) every object from a clean state, '
                       'real module text vs Emit.Cache module (header, declarations, instances, names used by inlined children); (2) seeded call '
                       'sequences (several generators, getVerilog/getVerilogForHierarchy with all flags, caller lists, poisoned initial cache, '
                       'simulation steps, one construction step in between, a second circuit interleaved) — emitted structures, exceptions, '
                       'created_structures, caller lists and the module-level cache after EVERY call vs the model; exhaustive sequences of '
                       'length <= 2/3 over a 10-op alphabet on a small hierarchy; (3) oracle on the real code: deep object-graph snapshot '
                       'before/after every call, simulation vs never-generated twin, Canon-equal text on repetition, from the twin, module text '
                       'independent of the requesting ancestor; (4) seeded GENERATED behavioural classes (source text built from attribute '
                       'categories: constructor constants, constructor arguments read-only / re-assigned, attributes created by clock()/propagate() '
                       'read-before-written (guarded) or written-before-read, class-level constants, class-level defaults re-assigned per instance, '
                       'locals; clock and propagate) + the 13 hand-written family classes: text before simulation, after every step (cycles, pokes, '
                       'pokes only), kept/fresh generator, module and hierarchy, for a same-history twin and a different-history twin, vs the '
                       'text of a never-simulated circuit with the same constructor-argument values; every ReplaceWiresAndVariables decision and '
                       'the ports/variables/arguments of the REAL transpiler vs Emit.transpile / Emit.extractInit on the same live values.  '
                       'distinct = distinct (design, position, request)')
    res.assumptions += [
        'absence of side effects of generation on the live object graph is OBSERVED (snapshots, twin simulation), not proved: the model is pure by construction',
        'the text of a primitive body (provideBody / transpiler) and of each Inline* one-liner is an opaque function of the object in the model; '
        'the harness checks on the real code that it is the same text in every context',
        'simulation steps change nothing the generator reads (Op.sim is the identity in the model) — false for the listed finding C19-live-arg-attr; '
        'for transpiled blocks this is now a theorem (sim_history_indep) under NoArgStore + SimFrame (simulation assigns only the attributes the '
        'transpiled method assigns: an assumption about Python execution), and the reads of the live object the model knows are checked against '
        'the transpiler source (static_scan_live)',
        'Canon is evaluated by its Python transcription on real text (instance suffixes = hex(id(obj)) of the exported objects); the Lean '
        'Emit.canonOuts / V.canon are executable through Drv/C19.lean',
        'user-supplied ast_tree: not modelled (the path raises AssertionError/AttributeError on the unchanged tree: unusable)',
    ]


def _refs_light(self):
    """exhaustive family: same design every time — reuse the per-object reference texts computed on THIS build"""
    import py4hw
    g = self.g
    self.ref, self.frag_items = {}, {}
    gen = py4hw.VerilogGenerator(g.roots[0])
    for i, o in enumerate(g.objs):
        with L.quiet():
            try:
                self.ref[i] = ('ok', gen.getVerilog(o))
            except Exception as e:
                self.ref[i] = ('err', type(e).__name__)
    Real(g).R.clearWireNamesCache()


Scenario.refs_light = _refs_light

if __name__ == '__main__':
    main_wrapper('C19', main)
