"""C16 — AXI4-Stream adapters never lose, duplicate or corrupt a beat.
See DESIGN.md §5 C16, lean/Py4hwV/Proto/Axi.lean (model), Proto/AxiSpec.lean (oracle), Props/C16.lean (theorems), notes/C16.md.

S2 streams
  T1            generated Reg/And2/Or2/Not/Buf/Range/Constant/Axi2ClkFSM/VitisKernelFSM definitions vs the real methods
  net-sim       the flattened netlist of the real blocks vs the Lean simulator model (every wire after every op)
  a2r / r2a     the hand model (`step`) AND the composition of generated leaves (`stepG`) vs the real blocks, cycle by
                cycle, state + every internal wire: corpus (unit-test scenarios, witnesses), exhaustive (state x input)
                transitions at small widths, seeded schedules biased to the interesting interleavings
  variants      the sink adapters (Axi2Reg, Axi2Clk) are built over every AXI4StreamInterface variant (optional TLAST/TKEEP/
                TSTRB/TUSER/TID/TDEST); the extra inputs are driven with arbitrary values (multi-beat packets included) and
                are NOT inputs of the Lean model: the real blocks must not depend on them (structure tie + all streams above)
  ports         port names/directions produced by addInterfaceSink/addInterfaceSource vs the model's list
  tkeep         the constructor's tkeep constant vs `R2A.tkeepVal` for a sweep of widths
  oracle        Spec.A2R.check / Spec.R2A.check (the Lean specification, through the driver) on the traces OBSERVED ON THE
                REAL BLOCKS  = failing-input search
"""
import json, os, glob
import common
from common import *
import t1, dump_ir as D

OBLIGATIONS = [
    # bridges to the generated leaf code
    'Axi.gen_regER', 'Axi.gen_regE', 'Axi.gen_reg_value_eq_q', 'Axi.orNG_eq', 'Axi.leaf_defs_agree', 'Leaf.gen_and2',
    'Leaf.gen_or2', 'Leaf.gen_not', 'Leaf.gen_buf', 'Leaf.gen_range', 'Leaf.gen_const', 'Axi.gen_and2', 'Axi.gen_or2',
    'Axi.gen_not', 'Axi.gen_buf', 'Axi.gen_range', 'Axi.gen_const',
    'Axi.A2R.stepG_eq_step', 'Axi.A2R.runG_eq_run', 'Axi.R2A.stepG_eq_step', 'Axi.R2A.runG_eq_run',
    # step rules
    'C16.a2r_step_rule', 'C16.r2a_step_rule', 'C16.a2r_wf_run', 'C16.r2a_wf_run',
    # Axi2Reg
    'C16.a2r_ready_iff_active', 'C16.a2r_active_rule', 'C16.a2r_holds_last_beat', 'C16.lastBeat_eq_some_iff',
    'C16.a2r_no_lost_beat', 'C16.a2r_beat_lost_on_done_counterexample', 'C16.a2r_oracle_accepts_model',
    'C16.a2r_oracle_accepts_generated',
    # Reg2Axi
    'C16.r2a_valid_implies_active', 'C16.r2a_valid_stable', 'C16.r2a_valid_stable_until', 'C16.r2a_valid_drops',
    'C16.r2a_payload', 'C16.lastLoad_eq_iff', 'C16.r2a_tkeep_full', 'C16.r2a_sent_after_accept',
    'C16.r2a_sent_implies_earlier_accept', 'C16.r2a_no_duplicate_beats', 'C16.r2a_oracle_accepts_model',
    'C16.r2a_oracle_tolerant_accepts_model', 'C16.r2a_reset_clears',
    'C16.r2a_oracle_accepts_generated', 'C16.r2a_done_while_pending_counterexample',
    # kernel FSM (source of ap_done): done is raised only from the state reached after all_sent
    'C16.vitis_done_only_after_all_sent',
    # Axi2Clk / Axi2ClkFSM sequencing
    'Axi.Clk.stepG_eq_step', 'Axi.Clk.train_from_low', 'Axi.Clk.clk_counts_accepted_beat', 'Axi.Clk.pulseTrain_count',
    'C16.clk_generated_counts_accepted_beat', 'Axi.Clk.inv_step', 'Axi.Clk.clk_oracle_accepts_model',
    'Axi.Clk.clk_oracle_accepts_generated', 'Axi.Clk.clk_counts_from_clear', 'Axi.Clk.inv_run', 'Axi.Clk.clk_back_to_back',
    'Axi.Clk.clk_back_to_back_example', 'Axi.Clk.clk_accepts_while_counting_counterexample',
]

T1_CLASSES = ['Reg', 'And2', 'Or2', 'Not', 'Buf', 'Range', 'Constant', 'Axi2ClkFSM', 'VitisKernelFSM']

# proposed known finding (notes/C16.md); used when the integrator has not merged it into known_findings.json yet
PROPOSED_FINDINGS = os.path.join(VERIF, 'corpus', 'C16', 'known_finding_proposal.json')


def install_proposed_findings(res):
    try:
        prop = json.load(open(PROPOSED_FINDINGS))['findings']
    except Exception:
        return
    have = {k.get('id') for k in common.load_known()}
    extra = [k for k in prop if k.get('id') not in have]
    if not extra:
        return
    base = common.load_known
    common.load_known = lambda: base() + extra
    res.notes.append('known_findings.json does not list ' + ','.join(k['id'] for k in extra) +
                     ' yet: using the proposal in corpus/C16/known_finding_proposal.json')


# ------------------------------------------------------------------------------------------------ real blocks
A2R_WIRES = ['inactive', 'tready', 'handshake', 'ap_start_inactive', 'active_handshake', 'tdata', 'reset_loaded', 'reset_active']
R2A_WIRES = ['inactive', 'handshake', 'ap_start_inactive', 'active_handshake', 'one', 'reset_tvalid', 'set_tvalid',
             'tkeep', 'tlast', 'reset_sent', 'reset_active']


# interface variants: optional members of AXI4StreamInterface.  V is a bit mask; every optional source->sink member present is
# an EXTRA INPUT of a sink adapter (Axi2Reg / Axi2Clk), driven with arbitrary values.  createHILVitis builds its input streams
# with has_tlast=True, has_tkeep=True (V=3): the property quantifies over whatever the peer puts on them.
V_TLAST, V_TKEEP, V_TSTRB, V_TUSER, V_TID, V_TDEST = 1, 2, 4, 8, 16, 32
SINK_VARIANTS = [0, 1, 2, 3, 3, 1, 7, 4, 9, 19, 35, 63]
EXTRA_NAMES = ['tlast', 'tkeep', 'tstrb', 'tuser', 'tid', 'tdest']
NIN = {'a2r': 5, 'clk': 5, 'r2a': 6}     # inputs the Lean model reads; the rest of an input tuple drives the optional members


def make_stream(s, DW, V):
    from py4hw.logic.bus.axi import AXI4StreamInterface
    return AXI4StreamInterface(s, 'stream', dw=DW, has_tlast=bool(V & V_TLAST), has_tkeep=bool(V & V_TKEEP),
                               has_tstrb=bool(V & V_TSTRB), uw=3 if V & V_TUSER else None, iw=2 if V & V_TID else None,
                               rw=4 if V & V_TDEST else None)


def stream_extras(stream):
    """[(name, wire)] of the optional source->sink members present, in EXTRA_NAMES order"""
    return [(n, getattr(stream, n)) for n in EXTRA_NAMES if hasattr(stream, n)]


def hidden_state(blk):
    """the value of EVERY register-like child of the real block (name, value): state the observable tuple might not show"""
    out = []
    for n, c in blk.dut.children.items():
        if hasattr(c, 'value') and type(c).__name__ != 'Constant':
            out.append((n, c.value))
    return tuple(out)


class SinkExtras:
    """shared by the sink adapters: drive the optional stream members from the tail of the input tuple"""

    def put_extras(self, i):
        for (n, w), x in zip(self.extras, i[5:]):
            w.put(x)

    def extra_pokes(self, i):
        return [('poke', w, x) for (n, w), x in zip(self.extras, i[5:])]


class RealA2R(SinkExtras):
    """the real Axi2Reg inside a fresh HWSystem"""
    kind = 'a2r'

    def __init__(self, W, DW, V=0):
        self.V = V
        import py4hw
        from py4hw.logic.bus.axi import AXI4StreamInterface
        from py4hw.emulation.vitiswrapping import Axi2Reg
        self.W, self.DW = W, DW
        s = self.sys = py4hw.HWSystem()
        self.ap_start, self.ap_reset, self.ap_done = s.wire('ap_start', 1), s.wire('ap_reset', 1), s.wire('ap_done', 1)
        self.q, self.loaded, self.active = s.wire('q', W), s.wire('loaded', 1), s.wire('active', 1)
        self.stream = make_stream(s, DW, V)
        self.extras = stream_extras(self.stream)
        self.dut = Axi2Reg(s, 'dut', self.ap_start, self.ap_reset, self.ap_done, self.stream, self.q, self.loaded, self.active)
        self.sim = s.getSimulator()

    def cfg(self):
        return f'{self.W},{self.DW}'

    def state(self):
        return [self.active.get(), self.loaded.get(), self.q.get()]

    def wires(self):
        w = self.dut._wires
        return [self.stream.tready.get() if n == 'tready' else w[n].get() for n in A2R_WIRES]

    def obs(self):
        return [self.active.get(), self.loaded.get(), self.q.get(), self.stream.tready.get()]

    def cycle(self, i):
        self.ap_start.put(i[0]); self.ap_reset.put(i[1]); self.ap_done.put(i[2])
        self.stream.tvalid.put(i[3]); self.stream.tdata.put(i[4])
        self.put_extras(i)
        self.sim.clk(1)

    def poke_ops(self, i):
        return [('poke', self.ap_start, i[0]), ('poke', self.ap_reset, i[1]), ('poke', self.ap_done, i[2]),
                ('poke', self.stream.tvalid, i[3]), ('poke', self.stream.tdata, i[4])] + self.extra_pokes(i) + [('clk', 1)]


class RealR2A:
    kind = 'r2a'

    def __init__(self, W, DW, V=0):
        import py4hw
        from py4hw.logic.bus.axi import AXI4StreamInterface
        from py4hw.emulation.vitiswrapping import Reg2Axi
        self.V, self.extras = 0, []     # Reg2Axi drives TLAST and TKEEP unconditionally: the interface always has both
        self.W, self.DW, self.KW = W, DW, DW // 8
        s = self.sys = py4hw.HWSystem()
        self.ap_start, self.ap_reset, self.ap_done = s.wire('ap_start', 1), s.wire('ap_reset', 1), s.wire('ap_done', 1)
        self.load_outs, self.reg_in = s.wire('load_outs', 1), s.wire('reg_in', W)
        self.sent, self.active = s.wire('sent', 1), s.wire('active', 1)
        self.stream = AXI4StreamInterface(s, 'stream', dw=DW, has_tlast=True, has_tkeep=True)
        self.dut = Reg2Axi(s, 'dut', self.ap_start, self.ap_reset, self.ap_done, self.load_outs, self.reg_in, self.stream,
                           self.sent, self.active)
        self.sim = s.getSimulator()

    def cfg(self):
        return f'{self.W},{self.DW},{self.KW}'

    def state(self):
        return [self.active.get(), self.stream.tvalid.get(), self.stream.tdata.get(), self.sent.get()]

    def wires(self):
        w = self.dut._wires
        sp = {'tkeep': self.stream.tkeep, 'tlast': self.stream.tlast}
        return [(sp[n] if n in sp else w[n]).get() for n in R2A_WIRES]

    def obs(self):
        st = self.stream
        return [st.tvalid.get(), st.tdata.get(), st.tlast.get(), st.tkeep.get(), self.sent.get(), self.active.get()]

    def cycle(self, i):
        self.ap_start.put(i[0]); self.ap_reset.put(i[1]); self.ap_done.put(i[2])
        self.load_outs.put(i[3]); self.reg_in.put(i[4]); self.stream.tready.put(i[5])
        self.sim.clk(1)

    def poke_ops(self, i):
        return [('poke', self.ap_start, i[0]), ('poke', self.ap_reset, i[1]), ('poke', self.ap_done, i[2]),
                ('poke', self.load_outs, i[3]), ('poke', self.reg_in, i[4]), ('poke', self.stream.tready, i[5]),
                ('clk', 1)]


class RealClk(SinkExtras):
    """the real Axi2Clk (structural gating + Axi2ClkFSM) inside a fresh HWSystem; W is unused (clk_count is 64 bits)"""
    kind = 'clk'
    CW = 64

    def __init__(self, W, DW, V=0):
        self.V = V
        import py4hw
        from py4hw.logic.bus.axi import AXI4StreamInterface
        from py4hw.emulation.vitiswrapping import Axi2Clk
        self.W, self.DW = W, DW
        s = self.sys = py4hw.HWSystem()
        self.ap_start, self.ap_reset, self.ap_done = s.wire('ap_start', 1), s.wire('ap_reset', 1), s.wire('ap_done', 1)
        self.clk_out, self.load_outs, self.active = s.wire('clk_out', 1), s.wire('load_outs', 1), s.wire('active', 1)
        self.stream = make_stream(s, DW, V)
        self.extras = stream_extras(self.stream)
        self.dut = Axi2Clk(s, 'dut', self.ap_start, self.ap_reset, self.ap_done, self.stream, self.clk_out, self.load_outs, self.active)
        self.fsm = self.dut.children['clk_count']
        self.sim = s.getSimulator()

    def cfg(self):
        return f'{self.CW}'

    def state(self):
        return [self.active.get(), self.fsm.state, self.fsm.target, self.dut._wires['clk_count'].get(), self.clk_out.get(),
                self.load_outs.get()]

    def wires(self):
        return [self.dut._wires['active_handshake'].get()]

    def obs(self):
        return [self.clk_out.get(), self.load_outs.get(), self.active.get(), self.stream.tready.get()]

    def cycle(self, i):
        self.ap_start.put(i[0]); self.ap_reset.put(i[1]); self.ap_done.put(i[2])
        self.stream.tvalid.put(i[3]); self.stream.tdata.put(i[4])
        self.put_extras(i)
        self.sim.clk(1)

    def poke_ops(self, i):
        return [('poke', self.ap_start, i[0]), ('poke', self.ap_reset, i[1]), ('poke', self.ap_done, i[2]),
                ('poke', self.stream.tvalid, i[3]), ('poke', self.stream.tdata, i[4])] + self.extra_pokes(i) + [('clk', 1)]


MODEL_REGS = {'a2r': ['active', 'loaded', 'reg_data'], 'r2a': ['active', 'sent', 'tdata_ext', 'tvalid'], 'clk': ['active']}
KINDS = {'a2r': ('Axi2Reg', RealA2R), 'r2a': ('Reg2Axi', RealR2A), 'clk': ('Axi2Clk', RealClk)}
BLOCK2KIND = {v[0]: k for k, v in KINDS.items()}
BLOCK2KIND.update({k: k for k in KINDS})


def make(kind, W, DW, V=0):
    return KINDS[kind][1](W, DW, V)


def with_extras(rng, blk, it):
    """append values for the optional stream members to every input tuple of a sink adapter's schedule.  TLAST follows a
    per-schedule pattern: single-beat packets, one endless packet, multi-beat packets (TLAST=0 beats followed by further
    beats), random; the byte qualifiers and side-band members take arbitrary values (all-ones / zero / random)"""
    if not blk.extras:
        for i in it:
            yield i
        return
    mode = rng.choice(['packets', 'packets', 'random', 'always0', 'always1', 'long'])
    left = rng.randint(0, 4)
    for i in it:
        xs = []
        for n, w in blk.extras:
            wd = w.getWidth()
            if n == 'tlast':
                if mode == 'always0':
                    x = 0
                elif mode == 'always1':
                    x = 1
                elif mode == 'random':
                    x = rng.randint(0, 1)
                elif mode == 'long':
                    x = 1 if rng.chance(1, 12) else 0
                else:       # counted packets: TLAST on the last of 1..5 TRANSFERRED beats
                    x = 1 if left == 0 else 0
                    if i[3] == 1 and blk.stream.tready.get() == 1:
                        left = rng.randint(0, 4) if left == 0 else left - 1
            else:
                x = rng.choice([(1 << wd) - 1, 0, rng.bits(wd), rng.bits(wd)])
            xs.append(x)
        yield tuple(i) + tuple(xs)


# ------------------------------------------------------------------------------------------------ schedules
def gen_a2r(rng, blk, n, style):
    """adaptive generator: decisions may look at the block's observable outputs. yields input tuples"""
    DW = blk.DW
    burst = 0
    data = rng.bits(DW)
    for t in range(n):
        active, loaded = blk.active.get(), blk.loaded.get()
        start = 1 if rng.chance(1, 3 if not active else 10) else 0
        reset = 1 if rng.chance(1, 25) else 0
        if style == 'literal':
            done = 1 if (loaded and rng.chance(1, 5)) else 0
        elif style == 'nodone':
            done = 0
        else:
            done = 1 if rng.chance(1, 12) else 0
        if burst > 0:
            burst -= 1
            tvalid = 1
        else:
            tvalid = 1 if rng.chance(1, 2) else 0
            if rng.chance(1, 6):
                burst = rng.randint(1, 5)  # back-to-back beats
        if not rng.chance(1, 4):
            data = rng.bits(DW)
        if style == 'storm':  # reset / done in the middle of transfers
            reset = 1 if rng.chance(1, 6) else 0
            done = 1 if rng.chance(1, 5) else 0
            tvalid = 1 if rng.chance(4, 5) else 0
        yield (start, reset, done, tvalid, data)


def gen_r2a(rng, blk, n, style):
    W = blk.W
    bp = rng.choice(['always', 'never_then', 'random', 'periodic', 'rare'])
    period = rng.randint(2, 5)
    hold = rng.randint(2, 8)
    val = rng.bits(W)
    for t in range(n):
        active, tvalid, sent = blk.active.get(), blk.stream.tvalid.get(), blk.sent.get()
        start = 1 if rng.chance(1, 3 if not active else 10) else 0
        reset = 1 if rng.chance(1, 30) else 0
        load = 1 if rng.chance(1, 3) else 0
        if tvalid and rng.chance(1, 3):
            load = 1  # load while a beat is pending
        if not rng.chance(1, 4):
            val = rng.bits(W)
        if bp == 'always':
            tready = 1
        elif bp == 'never_then':
            tready = 1 if t >= hold and rng.chance(2, 3) else 0
        elif bp == 'periodic':
            tready = 1 if t % period == 0 else 0
        elif bp == 'rare':
            tready = 1 if rng.chance(1, 6) else 0
        else:
            tready = 1 if rng.chance(1, 2) else 0
        if style == 'quiet':      # done only when nothing is pending and nothing is being loaded
            ok = (not tvalid) and not (load and active)
            done = 1 if ok and rng.chance(1, 4 if sent else 12) else 0
        elif style == 'literal':  # done only while the sent flag is up (possibly with a second beat pending)
            done = 1 if sent and rng.chance(1, 3) else 0
        elif style == 'storm':
            reset = 1 if rng.chance(1, 6) else 0
            done = 1 if rng.chance(1, 5) else 0
        else:
            done = 1 if rng.chance(1, 10) else 0
        yield (start, reset, done, load, val, tready)


def gen_r2a_pending_done(rng, blk, n, style):
    """scripted skeleton with random fill: k beats loaded and accepted; one more load left pending under back-pressure (or
    coincident with the done pulse); ap_done (legal in the literal reading: sent is up) -> adapter inactive with VALID up;
    idle cycles (the peer may or may not take the stale beat); ap_reset WHILE INACTIVE; idle; restart with READY up; more traffic"""
    W = blk.W
    z = lambda **kw: (kw.get('start', 0), kw.get('reset', 0), kw.get('done', 0), kw.get('load', 0), kw.get('reg', rng.bits(W)), kw.get('rdy', 0))
    if rng.chance(1, 2):
        yield z(reset=1)
    yield z(start=1)
    for _ in range(rng.randint(1, 2)):
        yield z(load=1)
        for _ in range(rng.randint(0, 3)):
            yield z()
        yield z(rdy=1)
    way = rng.randint(0, 2)
    if way == 0:            # load, back-pressure, done
        yield z(load=1)
        for _ in range(rng.randint(0, 2)):
            yield z()
        yield z(done=1)
    elif way == 1:          # load coincides with done
        yield z(load=1, done=1)
    else:                   # load while the previous beat is being accepted is dropped; load again, then done
        yield z(load=1)
        yield z(load=1, rdy=1)
        yield z(load=1)
        yield z(done=1, rdy=rng.randint(0, 1))
    for _ in range(rng.randint(0, 3)):
        yield z(rdy=1 if rng.chance(1, 3) else 0, load=1 if rng.chance(1, 4) else 0)
    if not rng.chance(1, 6):
        yield z(reset=1, rdy=rng.randint(0, 1), load=rng.randint(0, 1))     # reset while inactive with VALID pending
    for _ in range(rng.randint(0, 2)):
        yield z(rdy=rng.randint(0, 1))
    yield z(start=1, rdy=1)
    for _ in range(rng.randint(1, 4)):
        yield z(rdy=1)
    for i in gen_r2a(rng, blk, max(0, n // 3), 'literal' if rng.chance(1, 2) else 'quiet'):
        yield i


def gen_clk(rng, blk, n, style):
    """Axi2Clk: beats with small values; TDATA keeps CHANGING after the handshake (up, down, below the current count, 0, huge)
    while the FSM is counting; TVALID bursts (beats offered while busy / right after END); control pulses at any time"""
    DW = blk.DW
    small = lambda: rng.choice([1, 1, 2, 2, 3, 3, 4, 5, 6, 7])
    data = small()
    for t in range(n):
        active = blk.active.get()
        busy = blk.fsm.state != 0
        cnt = blk.dut._wires['clk_count'].get()
        start = 1 if rng.chance(1, 2 if not active else 12) else 0
        reset = 1 if rng.chance(1, 40) else 0
        done = 1 if rng.chance(1, 40) else 0
        if style == 'storm':
            reset = 1 if rng.chance(1, 8) else 0
            done = 1 if rng.chance(1, 8) else 0
        if busy:
            k = rng.randint(0, 7)
            if k == 0:
                pass                                   # TDATA frozen (the only case the repo's testbench exercises)
            elif k == 1:
                data = data + rng.randint(1, 5)        # up
            elif k == 2:
                data = max(0, data - rng.randint(1, 3))  # down
            elif k == 3:
                data = max(0, cnt - rng.randint(0, 2))   # at / below the current count
            elif k == 4:
                data = 0
            elif k == 5:
                data = cnt + 1                         # exactly the next count value
            elif k == 6:
                data = rng.bits(DW)
            else:
                data = small()
            tvalid = 1 if rng.chance(1, 2) else 0
        else:
            if style == 'edge' and rng.chance(1, 8):
                data = rng.choice([0, (1 << 64) - 1, 1 << 64, (1 << DW) - 1])   # outside the monitored domain / wrap
            elif not rng.chance(1, 3):
                data = small()
            tvalid = 1 if rng.chance(2, 3 if style != 'sparse' else 8) else 0
        yield (start, reset, done, tvalid, data & ((1 << DW) - 1))


STYLES = {'clk': ['any', 'any', 'sparse', 'storm', 'any', 'edge', 'sparse'], 'a2r': ['any', 'any', 'literal', 'nodone', 'storm'],
          'r2a': ['quiet', 'quiet', 'literal', 'pending_done', 'quiet', 'literal', 'any', 'pending_done', 'storm']}


# ------------------------------------------------------------------------------------------------ batch
class Batch:
    """collects runs on the real blocks; one driver session compares model / generated composition / oracle"""

    def __init__(self, res):
        self.res = res
        self.lines, self.jobs = [], []

    def run_real(self, kind, W, DW, cycles, label, init_path=(), V=0):
        """cycles: list of input tuples or a generator factory f(blk) -> iterator. runs the real block NOW."""
        blk = self.last_blk = make(kind, W, DW, V)
        o_init, pre = blk.obs(), []
        for i in init_path:
            blk.cycle(i)
            pre.append((tuple(i), blk.obs()))
        s0, o0 = blk.state(), blk.obs()
        it = cycles(blk) if callable(cycles) else cycles
        ins, rows, obs = [], [], []
        for i in it:
            i = tuple(int(x) for x in i)
            blk.cycle(i)
            ins.append(i)
            rows.append(blk.state() + blk.wires())
            obs.append(blk.obs())
        self.add(kind, blk.cfg(), s0, o0, ins, rows, obs, label, W, DW, list(init_path), o_init, pre, blk.V,
                 [n for n, w in blk.extras])
        return ins, rows, obs

    def add(self, kind, cfg, s0, o0, ins, rows, obs, label, W, DW, init_path, o_init, pre, V=0, extras=()):
        if not ins:
            return
        # the Lean model (and the specification) read the first NIN inputs only: the optional stream members are not inputs of
        # Axi.*.step.  The real block is driven with ALL of them; any dependence on them shows as a model / oracle failure
        k = NIN[kind]
        cyc = ';'.join(','.join(str(x) for x in i[:k]) for i in ins)
        st = ','.join(str(x) for x in s0)
        j = dict(kind=kind, W=W, DW=DW, ins=ins, rows=rows, obs=obs, label=label, at=len(self.lines), init_path=init_path,
                 s0=s0, o0=o0, npre=len(pre), V=V, extras=list(extras))
        pre = [(tuple(i[:k]), o) for i, o in pre]
        core = [tuple(i[:k]) for i in ins]
        self.lines.append(f'{kind}|{cfg}|{st}|{cyc}')
        self.lines.append(f'{kind}G|{cfg}|{st}|{cyc}')
        # the oracle always judges the whole history since power-up (its monitors start there)
        oc = ';'.join(','.join(str(x) for x in list(i) + o) for i, o in pre + list(zip(core, obs)))
        ost = ','.join(str(x) for x in o_init)
        tr = pre + list(zip(core, obs))
        if kind == 'a2r':
            self.lines.append(f'oa2r|{W}|{ost}|{oc}')
            j['py_verdicts'] = [py_oracle_a2r(W, o_init, tr)]
        elif kind == 'clk':
            # strict: additionally no beat may be accepted while a run is in progress (re-derives the finding
            # C16-axi2clk-accepts-while-counting); tolerant: what is proved of the model
            self.lines.append(f'oclk|1,{cfg}|{ost}|{oc}')
            self.lines.append(f'oclk|0,{cfg}|{ost}|{oc}')
            j['py_verdicts'] = [py_oracle_clk(True, int(cfg), o_init, tr), py_oracle_clk(False, int(cfg), o_init, tr)]
        else:
            # mode 0: literal assumption, every clause (re-derives the known finding); mode 2: literal assumption, the
            # state-independent clauses in EVERY state and the doneQuiet-dependent ones whenever no violation is outstanding
            self.lines.append(f'or2a|0,{cfg}|{ost}|{oc}')
            self.lines.append(f'or2a|2,{cfg}|{ost}|{oc}')
            j['py_verdicts'] = [py_oracle_r2a(0, W, DW, DW // 8, o_init, tr), py_oracle_r2a(2, W, DW, DW // 8, o_init, tr)]
        j['nlines'] = len(self.lines) - j['at']
        self.jobs.append(j)

    def add_raw(self, lines, handler):
        """extra driver requests answered in the same session; handler(list of answers | None)"""
        self.jobs.append(dict(raw=True, at=len(self.lines), n=len(lines), handler=handler))
        self.lines += lines

    def flush(self):
        if not self.jobs:
            return
        res = self.res
        try:
            out = run_driver('Drv/C16.lean', self.lines)
        except ToolFailure as e:
            res.broken.append(('correspondence', 'driver', f'Drv/C16.lean does not run: {str(e)[:300]}'))
            out = None
        for j in self.jobs:
            if j.get('raw'):
                j['handler'](None if out is None else out[j['at']:j['at'] + j['n']])
            else:
                analyse(res, j, None if out is None else out[j['at']:j['at'] + j['nlines']])
        self.lines, self.jobs = [], []


# ------------------------------------------------------------------------------------------------ oracle (fallback)
# Direct Python transcription of lean/Py4hwV/Proto/AxiSpec.lean (the SPECIFICATION, not the code).  The verdict normally
# comes from the Lean functions through the driver; this copy (a) is compared with the Lean verdict on every run and
# (b) keeps the failing-input search alive when the Lean side does not build (e.g. generated code no longer elaborates).
def py_oracle_a2r(W, o0, tr):
    m, o = None, o0
    for t, (i, o2) in enumerate(tr):
        start, reset, done, tvalid, tdata = i
        clear = reset == 1 or done == 1 or (start == 1 and o[0] == 0)
        xfer = tvalid == 1 and o[3] == 1
        m2 = None if clear else ((tdata % (1 << W)) if xfer else m)
        act = 0 if (reset == 1 or done == 1) else (1 if start == 1 else o[0])
        cl = [('ready_iff_active', o[3] == o[0] and o2[3] == o2[0]), ('active_rule', o2[0] == act),
              ('loaded_iff_beat_held', o2[1] == (1 if m2 is not None else 0)), ('q_is_last_beat', m2 is None or o2[2] == m2)]
        for n, ok in cl:
            if not ok:
                return f'fail {t} {n} 0'
        m, o = m2, o2
    return 'ok'


def py_oracle_clk(strict, CW, o0, tr):
    """transcription of Spec.Clk.check: phase = ('idle',) | ('high', T, k) | ('low', T, k) | ('fin',) | ('unknown',)"""
    ph, o = ('idle',), o0
    for t, (i, o2) in enumerate(tr):
        start, reset, done, tvalid, tdata = i
        acc = tvalid == 1 and o[3] == 1
        act = 0 if (reset == 1 or done == 1) else (1 if start == 1 else o[2])
        exp = {'idle': (0, 0), 'high': (1, 0), 'low': (0, 0), 'fin': (0, 1), 'unknown': None}[ph[0]]
        busy = ph[0] in ('high', 'low', 'fin')
        cl = [('ready_iff_active', o[3] == o[2] and o2[3] == o2[2]), ('active_rule', o2[2] == act),
              ('clk_out_follows_accepted_beat', exp is None or o2[0] == exp[0]),
              ('load_outs_after_last_pulse', exp is None or o2[1] == exp[1]),
              ('accepted_beat_is_counted', not (strict and acc and busy))]
        for n, ok in cl:
            if not ok:
                return f'fail {t} {n} 0'
        if ph[0] == 'idle':
            if acc:
                ph = ('high', tdata, 0) if 1 <= tdata < (1 << CW) else ('unknown',)
        elif ph[0] == 'high':
            ph = ('low', ph[1], ph[2] + 1)
        elif ph[0] == 'low':
            ph = ('fin',) if ph[2] == ph[1] else ('high', ph[1], ph[2])
        elif ph[0] == 'fin':
            ph = ('idle',)
        else:
            ph = ('idle',) if o2[1] == 1 else ('unknown',)
        o = o2
    return 'ok'


def py_oracle_r2a(mode, W, DW, KW, o0, tr):
    """mode 0 literal / 1 quiet / 2 tolerant, as Spec.R2A.check"""
    keep = ((1 << ((W + 7) // 8)) - 1) % (1 << KW)
    data, sent_ok, loads, accepts, pend, o = 0, False, 0, 0, False, o0
    for t, (i, o2) in enumerate(tr):
        start, reset, done, load, reg_in, tready = i
        tvalid, tdata, tlast, tkeep, sent, active = o
        acc = tvalid == 1 and tready == 1
        le = load == 1 and active == 1
        clear = reset == 1 or done == 1 or (start == 1 and active == 0)
        dq = done != 1 or (tvalid == 0 and not le)
        dl = done != 1 or sent == 1
        if not (dq if mode == 1 else dl):
            return f'stop {t}'
        judged = mode != 2 or not pend
        pend_now = pend or not dq
        data = reg_in if le else data
        sent_ok = False if clear else (True if acc else sent_ok)
        loads = 0 if reset == 1 else loads + (1 if le else 0)
        accepts = 0 if reset == 1 else accepts + (1 if acc else 0)
        pend = False if reset == 1 else pend_now
        act = 0 if (reset == 1 or done == 1) else (1 if start == 1 else active)
        cl = [('tlast_eq_tvalid', tlast == tvalid and o2[2] == o2[0]), ('tkeep_const', tkeep == keep and o2[3] == keep),
              ('active_rule', o2[5] == act),
              ('valid_stable', not (tvalid == 1 and reset != 1 and not acc) or o2[0] == 1),
              ('reset_clears_valid', not (reset == 1) or o2[0] == 0),
              ('valid_raised_only_by_load', not (tvalid == 0 and o2[0] == 1) or le),
              ('load_raises_valid', not (le and reset != 1 and not acc) or o2[0] == 1),
              ('tdata_is_latest_load', o2[1] == data % (1 << DW)),
              ('sent_only_after_accept', not (o2[4] == 1) or sent_ok)]
        if judged:
            cl += [('valid_drops_when_accepted', not acc or o2[0] == 0), ('sent_after_accept', (not sent_ok) or o2[4] == 1),
                   ('no_duplicate_beat', accepts + o2[0] <= loads)]
        for n, ok in cl:
            if not ok:
                return f'fail {t} {n} {1 if pend_now else 0}'
        o = o2
    return 'ok'


def events(j):
    """branch coverage of a run, from the observed pre-edge outputs"""
    kind, ev = j['kind'], {}
    pre = j['o0']
    prev_x = False
    prev_data, busy_guess = None, False
    ti = j.get('extras', []).index('tlast') + 5 if 'tlast' in j.get('extras', []) else None
    in_pkt = False        # a beat with TLAST=0 was transferred and no TLAST=1 beat / clear since
    for i, o, row in zip(j['ins'], j['obs'], j['rows']):
        if kind == 'clk':
            clk_out, load_outs, active, tready = pre
            x = i[3] == 1 and tready == 1
            st_after, cnt_after = row[1], row[3]
            counting = st_after in (1, 2, 3)
            names = [('xfer', x), ('xfer_while_counting', x and busy_guess), ('xfer_right_after_end', x and load_outs == 1),
                     ('tdata_up_while_counting', busy_guess and prev_data is not None and i[4] > prev_data),
                     ('tdata_down_while_counting', busy_guess and prev_data is not None and i[4] < prev_data),
                     ('tdata_below_count', busy_guess and i[4] < cnt_after), ('tdata_zero_while_counting', busy_guess and i[4] == 0),
                     ('tdata_eq_count_while_counting', busy_guess and i[4] == cnt_after),
                     ('beat_zero_or_huge', x and not busy_guess and not (1 <= i[4] < (1 << 64))),
                     ('reset_while_counting', busy_guess and i[1] == 1), ('done_while_counting', busy_guess and i[2] == 1),
                     ('load_outs_pulse', o[1] == 1), ('clk_pulse', o[0] == 1)]
            busy_guess, prev_data = counting, i[4]
        elif kind == 'a2r':
            active, loaded, q, tready = pre
            x = i[3] == 1 and tready == 1
            names = [('xfer', x), ('back_to_back', x and prev_x), ('xfer_while_loaded', x and loaded == 1),
                     ('valid_while_inactive', i[3] == 1 and active == 0), ('restart', i[0] == 1 and active == 0),
                     ('start_while_active', i[0] == 1 and active == 1), ('reset', i[1] == 1), ('done', i[2] == 1),
                     ('reset_during_xfer', i[1] == 1 and x), ('done_during_xfer', i[2] == 1 and x),
                     ('done_before_loaded', i[2] == 1 and loaded == 0), ('truncating_data', i[4] >= (1 << j['W']))]
            if ti is not None:
                names += [('xfer_tlast0', x and i[ti] == 0), ('xfer_tlast1', x and i[ti] == 1),
                          ('xfer_inside_packet', x and in_pkt), ('xfer_inside_packet_new_data', x and in_pkt and i[4] % (1 << j['W']) != q),
                          ('clear_inside_packet', in_pkt and (i[1] == 1 or i[2] == 1 or (i[0] == 1 and active == 0)))]
                if i[1] == 1 or i[2] == 1 or (i[0] == 1 and active == 0):
                    in_pkt = False
                elif x:
                    in_pkt = i[ti] == 0
            prev_x = x
        else:
            tvalid, tdata, tlast, tkeep, sent, active = pre
            acc = tvalid == 1 and i[5] == 1
            le = i[3] == 1 and active == 1
            names = [('accept', acc), ('back_pressure', tvalid == 1 and i[5] == 0), ('load_effective', le),
                     ('load_ignored_inactive', i[3] == 1 and active == 0), ('load_while_pending', le and tvalid == 1 and not acc),
                     ('load_with_accept', le and acc), ('restart', i[0] == 1 and active == 0), ('reset', i[1] == 1),
                     ('reset_while_pending', i[1] == 1 and tvalid == 1), ('done', i[2] == 1),
                     ('done_while_pending', i[2] == 1 and (tvalid == 1 or le)), ('reset_while_inactive_pending', i[1] == 1 and tvalid == 1 and active == 0),
                     ('restart_with_stale_valid', i[0] == 1 and active == 0 and tvalid == 1), ('accept_while_inactive', acc and active == 0), ('done_without_sent', i[2] == 1 and sent == 0),
                     ('ready_without_valid', i[5] == 1 and tvalid == 0), ('truncating_data', i[4] >= (1 << j['DW']))]
        for n, b in names:
            if b:
                ev[n] = ev.get(n, 0) + 1
        pre = o
    return ev


def analyse(res, j, out):
    kind = j['kind']
    ev = events(j)
    for n, c in ev.items():
        res.hist(kind + '_events', n, c)
    res.hist(kind + '_widths', f"W{j['W']}_DW{j['DW']}")
    if kind != 'r2a':
        res.hist(kind + '_interface_variant', '+'.join(j['extras']) or 'plain')
    res.count((kind, j['W'], j['DW'], j['V'], tuple(j['init_path']), tuple(j['ins'])), hist={kind + '_stream': j['label'].split(':')[0]})
    res.cov['cycles'] = res.cov.get('cycles', 0) + len(j['ins'])
    replay = dict(block=KINDS[kind][0], W=j['W'], DW=j['DW'], V=j['V'], stream_members=j['extras'], init_path=j['init_path'],
                  cycles=[list(i) for i in j['ins']], label=j['label'],
                  inputs='start,reset,done,load_outs,reg_in,tready' if kind == 'r2a' else ','.join(['start,reset,done,tvalid,tdata'] + j['extras']),
                  done_while_pending=bool(ev.get('done_while_pending')))
    if out is None:
        out = [None, None] + j['py_verdicts']   # Lean side unavailable: judge with the transcription of the oracle
        res.hist(kind + '_oracle_source', 'python-fallback')
    elif list(out[2:]) != j['py_verdicts']:
        res.broken.append(('correspondence', 'oracle-transcription',
                           dict(replay, lean=list(out[2:]), python=j['py_verdicts'], what='Spec.*.check and its Python copy disagree')))
    want = ';'.join(','.join(str(x) for x in r) for r in j['rows'])
    for tag, got in (('model', out[0]), ('generated', out[1])):
        if got is not None and got != want:
            g, w = got.split(';'), want.split(';')
            t = next((k for k in range(min(len(g), len(w))) if g[k] != w[k]), min(len(g), len(w)))
            names = {'a2r': ['active', 'loaded', 'q'] + A2R_WIRES, 'r2a': ['active', 'tvalid', 'tdata', 'sent'] + R2A_WIRES,
                     'clk': ['active', 'fsm.state', 'fsm.target', 'clk_count', 'clk_out', 'load_outs', 'active_handshake']}[kind]
            res.disagree(f'{kind}-{tag}', dict(replay, cycle=t, names=names, lean=g[t] if t < len(g) else None,
                                              python=w[t] if t < len(w) else None, cycles=replay['cycles'][:t + 1]))
    for k, verdict in enumerate(out[2:]):
        mode = ('strict' if kind == 'clk' else 'literal') if k == 0 else 'tolerant'
        v = verdict.split()
        res.hist(kind + '_oracle' + ('' if k == 0 else '_tolerant'), v[0])
        if v[0] == 'fail' and int(v[1]) < j['npre']:
            res.hist(kind + '_oracle', 'fail_inside_replayed_path')   # reported by the job that explored that transition
        elif v[0] == 'fail':
            t = int(v[1]) - j['npre']
            pre = j['o0'] if t == 0 else j['obs'][t - 1]
            res.fail(f"{replay['block']}: oracle clause {v[2]} fails at cycle {t}" + (' (tolerant mode)' if k else ''),
                     dict(replay, cycles=replay['cycles'][:t + 1], cycle=t, clause=v[2], oracle_mode=mode, outputs_before=pre,
                          inputs_at_cycle=list(j['ins'][t]), outputs_after=j['obs'][t],
                          outputs={'a2r': 'active,loaded,q,tready', 'r2a': 'tvalid,tdata,tlast,tkeep,sent,active',
                                   'clk': 'clk_out,load_outs,active,tready'}[kind],
                          done_while_pending=(kind == 'r2a' and len(v) > 3 and v[3] == '1'),
                          ))
        elif v[0] not in ('ok', 'stop'):
            res.broken.append(('correspondence', 'oracle', f'unexpected verdict {verdict!r}'))


# ------------------------------------------------------------------------------------------------ streams
def corpus_stream(res, b):
    n = 0
    for f in sorted(glob.glob(os.path.join(VERIF, 'corpus', 'C16', '*.json'))):
        try:
            doc = json.load(open(f))
        except Exception as e:
            res.broken.append(('correspondence', 'corpus', f'{f}: {e}'))
            continue
        for k, sc in enumerate(doc.get('scenarios', [])):
            kind = BLOCK2KIND[sc['block']]
            b.run_real(kind, sc['W'], sc['DW'], [tuple(c) for c in sc['cycles']], f"corpus:{os.path.basename(f)}:{sc.get('name', k)}",
                       V=sc.get('V', 0))
            n += 1
    return n


def exhaustive_stream(res, b, kind, W, DW, data_vals, max_states=64, V=0):
    """every (reachable state, input) transition of the real block at this width, reached by replaying a path on a
    fresh instance; the model is started from the observed state.  A state is identified by the observable tuple AND the
    value of every register-like child of the real block (hidden_state), so state the model does not have is explored too.
    With interface variant V, TLAST takes both values in every input; the byte qualifiers alternate all-ones / zero"""
    if kind in ('a2r', 'clk'):
        inputs = [(s, r, d, v, x) for s in (0, 1) for r in (0, 1) for d in (0, 1) for v in (0, 1) for x in data_vals]
        ex = make(kind, W, DW, V).extras
        for n, w in ex:
            vals = (0, 1) if n == 'tlast' else None
            if vals:
                inputs = [i + (y,) for i in inputs for y in vals]
            else:
                full = (1 << w.getWidth()) - 1
                inputs = [i + ((full, 0, 1)[(sum(i[:5]) + k) % 3] & full,) for k, i in enumerate(inputs)]
    else:
        inputs = [(s, r, d, l, x, y) for s in (0, 1) for r in (0, 1) for d in (0, 1) for l in (0, 1) for x in data_vals for y in (0, 1)]
    blk = make(kind, W, DW, V)
    seen = {tuple(blk.state()) + hidden_state(blk): ()}
    state_of = {(): tuple(blk.state())}
    todo, deferred = [()], []
    n = 0
    flag = {'a2r': 1, 'r2a': 3, 'clk': None}[kind]      # index of loaded / sent in the state tuple
    nst = {'a2r': 3, 'r2a': 4, 'clk': 6}[kind]
    while todo or deferred:
        if not todo:                      # states only reachable by violating the literal assumption on done
            path, st = deferred.pop(0)
            if st in seen or len(seen) >= max_states:
                continue
            seen[st], state_of[path] = path, st
            todo.append(path)
            continue
        path = todo.pop(0)
        for i in inputs:
            ins, rows, obs = b.run_real(kind, W, DW, [i], f'exhaustive:{kind}:W{W}', init_path=path, V=V)
            n += 1
            vis = tuple(rows[0][:nst])
            st = vis + hidden_state(b.last_blk)
            if st not in seen and len(seen) < max_states:
                # prefer paths on which done is only pulsed with the loaded / sent flag up: the oracle judges the whole history
                # since power-up and stops where the property's assumption is violated
                if flag is not None and i[2] == 1 and state_of[path][flag] != 1:
                    deferred.append((path + (i,), st))
                    continue
                seen[st], state_of[path + (i,)] = path + (i,), vis
                todo.append(path + (i,))
    tag = f'{kind}_W{W}_DW{DW}' + (f'_V{V}' if V else '')
    res.hist('exhaustive_states', tag, len(seen))
    res.hist('exhaustive_transitions', tag, n)


def random_stream(res, b, rng, kind, n_sched, max_len, widths):
    for k in range(n_sched):
        r = rng.fork((kind, k))
        DW = r.choice(widths)
        W = r.choice([1, 2, 3, 7, 8, 9, DW // 2, DW - 1, DW, DW, DW + 1, DW + 8, 32, 64])
        W = max(1, W)
        style = STYLES[kind][k % len(STYLES[kind])]
        n = r.randint(4, max_len)
        gen = gen_clk if kind == 'clk' else gen_a2r if kind == 'a2r' else (gen_r2a_pending_done if style == 'pending_done' else gen_r2a)
        # sink adapters: every interface variant (optional members present / absent), extras driven by a forked rng
        V = r.fork('variant').choice(SINK_VARIANTS) if kind != 'r2a' else 0
        ins, rows, obs = b.run_real(kind, W, DW, lambda blk: with_extras(r.fork('extras'), blk, gen(r, blk, n, style)),
                                    f'random-{style}:{k}', V=V)
        if k < 2:
            res.sample(dict(block=kind, W=W, DW=DW, V=V, style=style, cycles=[list(i) for i in ins[:12]],
                            observed=[o for o in obs[:12]]))
        if len(b.jobs) >= 6000:
            b.flush()


def ports_stream(res, b):
    def model_side(out):
        for kind, line in zip(('a2r', 'r2a', 'clk'), out or []):
            model = [(p.split(':')[0], p.split(':')[1] == '1') for p in line.split(',') if p]
            blk = make(kind, 8, 16)
            ins = [p.name for p in blk.dut.inPorts]
            outs = [p.name for p in blk.dut.outPorts]
            mi, mo = [n for n, d in model if d], [n for n, d in model if not d]
            if ins != mi or outs != mo:
                res.disagree('ports', dict(block=kind, python_in=ins, python_out=outs, model_in=mi, model_out=mo))
    b.add_raw(['ports|a2r', 'ports|r2a', 'ports|clk'], model_side)
    for kind, V in [(k, 0) for k in ('a2r', 'r2a', 'clk')] + [(k, v) for k in ('a2r', 'clk') for v in sorted(set(SINK_VARIANTS)) if v]:
        blk = make(kind, 8, 16, V)
        ins = [p.name for p in blk.dut.inPorts]
        outs = [p.name for p in blk.dut.outPorts]
        res.count(('ports', kind, V))
        # structure: the model's state is ALL the state.  The register-like children of the real block are the same for every
        # interface variant (the adapters do not look at the optional members)
        regs = sorted(n for n, v in hidden_state(blk))
        if regs != MODEL_REGS[kind]:
            res.disagree(f'{kind}-structure', dict(block=KINDS[kind][0], W=8, DW=16, V=V, stream_members=[n for n, w in blk.extras],
                                                   registers=regs, model_registers=MODEL_REGS[kind],
                                                   what='the real block has state elements the model does not have'))
        # the oracle on the real thing: the stream's source->sink wires are inputs of a sink and outputs of a source
        st = blk.stream
        s2s = [n for n, w in st.sourceToSink]
        k2s = [n for n, w in st.sinkToSource]
        want_in = set(s2s) if kind != 'r2a' else set(k2s)
        want_out = set(k2s) if kind != 'r2a' else set(s2s)
        if not (want_in <= set(ins) and want_out <= set(outs)) or set(s2s) & set(k2s) or 'tready' not in k2s or 'tvalid' not in s2s:
            res.fail(f'{kind}: stream port directions', dict(block=kind, inPorts=ins, outPorts=outs, sourceToSink=s2s, sinkToSource=k2s))


def tkeep_stream(res, b, tier):
    ws = list(range(1, 140 if tier == 'quick' else 600)) + [255, 256, 257, 511, 512, 513, 1023, 1024, 1025, 4095, 4096, 4097]
    reals = {}

    def model_side(out):
        for w, m in zip(ws, out or []):
            if int(m) != reals[w]:
                res.disagree('tkeep', dict(W=w, python=reals[w], lean=m))
    b.add_raw([f'keep|{w}' for w in ws], model_side)
    for w in ws:
        DW = ((w + 7) // 8) * 8
        blk = make('r2a', w, DW)
        real = reals[w] = blk.dut.children['tkeep_const'].value
        res.count(('tkeep', w))
        spec = (1 << ((w + 7) // 8)) - 1  # one bit per byte needed to hold W bits
        if real != spec or blk.stream.tkeep.get() != spec:
            res.fail(f'Reg2Axi: tkeep constant for W={w} is {real}/{blk.stream.tkeep.get()}, expected {spec}',
                     dict(block='Reg2Axi', W=w, DW=DW, tkeep=real, expected=spec))


def net_stream(res, rng, n):
    nb = D.NetBatch(res, 'net-sim')
    for k in range(n):
        r = rng.fork(('net', k))
        kind = ('a2r', 'r2a', 'clk')[k % 3]
        DW = r.choice([8, 16, 64])
        W = r.choice([1, 5, DW, DW + 3])
        V = r.fork('variant').choice(SINK_VARIANTS) if kind != 'r2a' else 0
        blk = make(kind, W, DW, V)
        gen = {'a2r': gen_a2r, 'r2a': gen_r2a, 'clk': gen_clk}[kind]
        ops = []
        # NetBatch executes the ops itself: use a twin block to drive the adaptive generator
        twin = make(kind, W, DW, V)
        for i in with_extras(r.fork('extras'), twin, gen(r, twin, r.randint(5, 25), 'any')):
            twin.cycle(i)
            ops += blk.poke_ops(i)
        try:
            nb.add(blk.sys, ops, sim=blk.sim, label=f'{kind}-W{W}-DW{DW}-V{V}')
            res.count(('net', k))
        except D.NotDumpable as e:
            res.broken.append(('correspondence', 'net-sim', f'leaf class not translated: {e}'))
    try:
        nb.run()
    except ToolFailure as e:
        res.broken.append(('correspondence', 'net-sim', str(e)[:300]))


def main(res, tier, rng, replay):
    import time
    t0 = [time.time()]

    def lap(name):
        res.cov.setdefault('phase_seconds', {})[name] = round(time.time() - t0[0], 1)
        t0[0] = time.time()
    install_proposed_findings(res)
    ok, metas, errors, changed = regenerate()
    for e in errors:
        res.broken.append(('translator', 'py2lean', e))
    lap('regenerate')
    if not res.proof_stage('Py4hwV.Props.C16', OBLIGATIONS):
        lean_build(['Py4hwV.Proto.AxiSpec', 'Py4hwV.Proto.AxiClk'])   # what the driver needs (definitions only), even when a proof is broken
    lap('proof_stage')
    quick = tier == 'quick'
    if ok:
        try:
            t1.validate_generated(res, rng.fork('t1'), 60 if quick else 600, classes=T1_CLASSES)
        except ToolFailure as e:
            res.broken.append(('correspondence', 'T1', f'generated definitions do not run: {e}'))
        D.reset_metas()
    lap('t1')
    b = Batch(res)
    if replay:
        doc = json.load(open(replay))
        for f in doc.get('failing_inputs', []) + [dict(replay=d['detail']) for d in doc.get('no_longer_checks', []) if isinstance(d.get('detail'), dict)]:
            r = f['replay']
            if 'cycles' in r and 'block' in r and 'DW' in r:
                b.run_real(BLOCK2KIND[r['block']], r['W'], r['DW'], [tuple(c) for c in r['cycles']],
                           'replay:0', init_path=tuple(tuple(c) for c in r.get('init_path', [])), V=r.get('V', 0))
    corpus_stream(res, b)
    ports_stream(res, b)
    tkeep_stream(res, b, tier)
    # exhaustive transitions at small widths (W = 1, 2 [, 3]); data values cover all low-bit patterns + bits above W
    for W in ([1, 2] if quick else [1, 2, 3]):
        exhaustive_stream(res, b, 'a2r', W, 8, list(range(1 << W)) + [1 << W, 255, 254])
        exhaustive_stream(res, b, 'r2a', W, 8, list(range(1 << W)))
    # Axi2Reg over the interface variants: TLAST takes both values in every (state, input) pair (multi-beat packets: a TLAST=0
    # beat followed by further beats), with and without the byte qualifiers
    for W, V in ([(1, 1), (2, 3)] if quick else [(1, 1), (2, 1), (2, 3), (1, 7), (3, 3)]):
        exhaustive_stream(res, b, 'a2r', W, 8, list(range(1 << W)) + [1 << W, 255], V=V)
    exhaustive_stream(res, b, 'clk', 1, 8, [0, 1, 2, 3] if quick else [0, 1, 2, 3, 4, 255], max_states=24 if quick else 80, V=3)
    # register wider than the stream (truncation on the way out / zero extension on the way in)
    exhaustive_stream(res, b, 'r2a', 9 if quick else 10, 8, [0, 1, 255, 256, 511])
    # Axi2Clk: every (FSM state, count, target) reached with beats 0..3 x every input with TDATA 0..4 (changing TDATA included)
    exhaustive_stream(res, b, 'clk', 1, 8, [0, 1, 2, 3, 4] if quick else [0, 1, 2, 3, 4, 5, 255], max_states=48 if quick else 120)
    lap('corpus_ports_tkeep_exhaustive(real side)')
    n = 1000 if quick else 30000
    L = 40 if quick else 120
    random_stream(res, b, rng.fork('a2r'), 'a2r', n, L, [8, 16, 32, 64, 64, 128])
    random_stream(res, b, rng.fork('r2a'), 'r2a', n, L, [8, 16, 32, 64, 64, 128])
    random_stream(res, b, rng.fork('clk'), 'clk', n // 2, L + 20, [8, 16, 64, 64, 128])
    lap('random(real side)')
    b.flush()
    lap('driver session (model, generated composition, oracle)')
    net_stream(res, rng.fork('net'), 12 if quick else 120)
    lap('net')
    res.cov['rule'] = ('one evaluation = one run of a real block (fresh HWSystem) compared cycle by cycle (registers + every internal wire) '
                       'with Axi.*.step and with the composition of generated leaves Axi.*.stepG, and judged by the Lean oracle '
                       'Spec.*.check on the observed outputs; distinct = distinct (block, W, DW, path, schedule). exhaustive: every '
                       '(reachable state, input) pair at W in {1,2[,3]}; random: adaptive seeded schedules in styles '
                       'quiet/literal/any/storm, sink adapters over every AXI4StreamInterface variant (TLAST/TKEEP/TSTRB/TUSER/TID/TDEST '
                       'present or absent; TLAST patterns single-beat / multi-beat / endless packets, see a2r_interface_variant and the '
                       'xfer_inside_packet events), with back-pressure patterns, bursts, load while pending, reset/done mid-transfer '
                       '(event histograms a2r_events / r2a_events count the interleavings actually hit)')
    res.assumptions += ['control wires (ap_start, ap_reset, ap_done, load_outs, loaded, sent, active) are 1 bit wide, as in createHILVitis and the unit tests',
                        'model state = register output wires (Reg.value masked by its q wire); exact because the hold branch re-prepares the same value',
                        'inputs are poked between clk(1) calls; outputs are observed after each clk(1) (Moore outputs)',
                        'Reg2Axi theorems assume doneQuiet (no ap_done while a beat is pending or being loaded); under the literal reading '
                        '(done only while sent=1) the real block violates valid_drops_when_accepted: known finding C16-r2a-done-while-pending',
                        'math.ceil(W/8) is modelled as (W+7)/8 (exact for W < 2^53); compared with the constructor for a sweep of W']


if __name__ == '__main__':
    main_wrapper('C16', main)
