"""C03 design generators: library blocks at sampled parameters, adversarial names / collisions, reused blocks with
different optional ports and widths, nested hierarchies, behavioural classes through the transpiler.

Every generator returns a dict(hw, top, desc, kind, [ast_tree]) or raises (constructor refusal: counted, not an error).
All randomness comes from the `rng` argument (common.Rng)."""
import math
from common import *
import gen_vdesigns as GV


def mk(hw, top, ins, outs, ctor, inouts=()):
    i = {n: hw.wire(n, w) for n, w in ins}
    o = {n: hw.wire(n, w) for n, w in outs}
    for n, w in i.items():
        top.addIn(n, w)
    for n, w in o.items():
        top.addOut(n, w)
    ctor(i, o)
    return dict(inputs=i, outputs=o, desc=dict(ins=list(ins), outs=list(outs)))


def fresh(top_name='top', cls_name='Top'):
    import py4hw
    hw = py4hw.HWSystem()
    Top = type(cls_name, (py4hw.Logic,), {})
    return hw, Top(hw, top_name)


WIDTHS = [1, 2, 3, 4, 5, 7, 8, 9, 16, 31, 32, 33, 64]


def lib_specs():
    """name -> f(r) -> (ins, outs, ctor(i,o,top), params).  Widths are sampled by f."""
    import py4hw
    L = py4hw
    S = {}
    W = lambda r: r.choice(WIDTHS)

    def same2(cls):
        def f(r):
            w = W(r)
            return [('a', w), ('b', w)], [('r', w)], lambda i, o, t: cls(t, 'dut', i['a'], i['b'], o['r']), dict(w=w)
        return f

    def free2(cls):
        def f(r):
            aw, bw, rw = W(r), W(r), W(r)
            return [('a', aw), ('b', bw)], [('r', rw)], lambda i, o, t: cls(t, 'dut', i['a'], i['b'], o['r']), dict(aw=aw, bw=bw, rw=rw)
        return f

    def same1(cls):
        def f(r):
            w = W(r)
            return [('a', w)], [('r', w)], lambda i, o, t: cls(t, 'dut', i['a'], o['r']), dict(w=w)
        return f

    def nary(cls):
        def f(r):
            n, w = r.randint(1, 6), W(r)
            ins = [(f'i{k}', w) for k in range(n)]
            return ins, [('r', w)], lambda i, o, t: cls(t, 'dut', [i[f'i{k}'] for k in range(n)], o['r']), dict(n=n, w=w)
        return f

    for nm in ['And2', 'Or2', 'Xor2', 'Nand2', 'Nor2']:
        S[nm] = same2(getattr(L, nm))
    for nm in ['And', 'Or', 'Nor', 'Xor']:
        S[nm] = nary(getattr(L, nm))
    for nm in ['Not', 'Buf', 'Neg']:
        S[nm] = same1(getattr(L, nm))
    for nm in ['Add', 'Sub', 'Mul', 'SignedMul', 'Div', 'Mod', 'SignedSub', 'SignedDiv', 'Max2', 'Min2', 'SignedMax2', 'SignedMin2']:
        if hasattr(L, nm):
            S[nm] = free2(getattr(L, nm)) if nm in ('Add', 'Sub', 'Mul', 'SignedMul', 'Div', 'Mod') else same2(getattr(L, nm))

    def add_opts(r):
        aw, bw, rw = W(r), W(r), W(r)
        if r.chance(1, 2):
            bw = rw = aw
        ci, co = r.chance(1, 2), r.chance(1, 2)
        ins = [('a', aw), ('b', bw)] + ([('ci', 1)] if ci else [])
        outs = [('r', rw)] + ([('co', 1)] if co else [])
        return ins, outs, lambda i, o, t: L.Add(t, 'dut', i['a'], i['b'], o['r'], ci=i.get('ci'), co=o.get('co')), dict(aw=aw, bw=bw, rw=rw, ci=ci, co=co)
    S['Add_opts'] = add_opts

    def sadd(r):
        w = W(r)
        ci, co = r.chance(1, 2), r.chance(1, 2)
        ins = [('a', w), ('b', w)] + ([('ci', 1)] if ci else [])
        outs = [('r', w)] + ([('co', 1)] if co else [])
        return ins, outs, lambda i, o, t: L.SignedAdd(t, 'dut', i['a'], i['b'], o['r'], ci=i.get('ci'), co=o.get('co')), dict(w=w, ci=ci, co=co)
    S['SignedAdd'] = sadd
    S['AddCarryIn'] = lambda r: (lambda w: ([('a', w), ('b', w), ('ci', 1)], [('r', w)], lambda i, o, t: L.AddCarryIn(t, 'dut', i['a'], i['b'], o['r'], i['ci']), dict(w=w)))(W(r))
    S['SubBorrowIn'] = lambda r: (lambda w: ([('a', w), ('b', w), ('bi', 1)], [('r', w)], lambda i, o, t: L.SubBorrowIn(t, 'dut', i['a'], i['b'], o['r'], i['bi']), dict(w=w)))(W(r))

    def abs_(r):
        w = r.choice([2, 3, 4, 8, 16, 32])
        rw = w if r.chance(3, 4) else W(r)
        inv = r.chance(1, 2)
        outs = [('r', rw)] + ([('inverted', 1)] if inv else [])
        return [('a', w)], outs, lambda i, o, t: L.Abs(t, 'dut', i['a'], o['r'], o.get('inverted')), dict(w=w, rw=rw, inverted=inv)
    S['Abs'] = abs_
    S['Sign'] = lambda r: (lambda w, rw: ([('a', w)], [('r', rw)], lambda i, o, t: L.Sign(t, 'dut', i['a'], o['r']), dict(w=w, rw=rw)))(W(r), 1)
    S['SignExtend'] = lambda r: (lambda w, e: ([('a', w)], [('r', w + e)], lambda i, o, t: L.SignExtend(t, 'dut', i['a'], o['r']), dict(w=w, rw=w + e)))(W(r), r.randint(0, 9))
    S['ZeroExtend'] = lambda r: (lambda w, e: ([('a', w)], [('r', w + e)], lambda i, o, t: L.ZeroExtend(t, 'dut', i['a'], o['r']), dict(w=w, rw=w + e)))(W(r), r.randint(0, 9))
    S['AndBits'] = lambda r: (lambda w: ([('a', w)], [('r', 1)], lambda i, o, t: L.AndBits(t, 'dut', i['a'], o['r']), dict(w=w)))(W(r))
    S['OrBits'] = lambda r: (lambda w: ([('a', w)], [('r', 1)], lambda i, o, t: L.OrBits(t, 'dut', i['a'], o['r']), dict(w=w)))(W(r))

    def bit(r):
        w = W(r)
        b = r.randint(0, w - 1)
        return [('a', w)], [('r', 1)], lambda i, o, t: L.Bit(t, 'dut', i['a'], b, o['r']), dict(w=w, bit=b)
    S['Bit'] = bit

    def bits(cls):
        def f(r):
            w = r.choice([1, 2, 3, 4, 8, 9])
            outs = [(f'b{k}', 1) for k in range(w)]
            return [('a', w)], outs, lambda i, o, t: cls(t, 'dut', i['a'], [o[f'b{k}'] for k in range(w)]), dict(w=w)
        return f
    S['BitsLSBF'] = bits(L.BitsLSBF)
    S['BitsMSBF'] = bits(L.BitsMSBF)
    S['BufEnable'] = lambda r: (lambda w: ([('a', w), ('en', 1)], [('r', w)], lambda i, o, t: L.BufEnable(t, 'dut', i['a'], i['en'], o['r']), dict(w=w)))(W(r))

    def const(r):
        w = W(r)
        v = r.choice([0, 1, (1 << w) - 1, r.randint(0, (1 << w) - 1), r.randint(0, (1 << 40))])
        return [], [('r', w)], lambda i, o, t: L.Constant(t, 'dut', v, o['r']), dict(w=w, v=v)
    S['Constant'] = const

    def demux(r):
        sw, w = r.randint(1, 3), W(r)
        outs = [(f'r{k}', w) for k in range(1 << sw)]
        return [('a', w), ('sel', sw)], outs, lambda i, o, t: L.Demux(t, 'dut', i['a'], i['sel'], [o[f'r{k}'] for k in range(1 << sw)]), dict(sw=sw, w=w)
    S['Demux'] = demux

    def shc(cls):
        def f(r):
            w = W(r)
            n = r.randint(0, w + 1)
            return [('a', w)], [('r', w)], lambda i, o, t: cls(t, 'dut', i['a'], n, o['r']), dict(w=w, n=n)
        return f
    for nm in ['ShiftLeftConstant', 'ShiftRightConstant', 'RotateLeftConstant', 'RotateRightConstant']:
        S[nm] = shc(getattr(L, nm))

    def mux(r):
        sw, w = r.randint(1, 3), W(r)
        ins = [('sel', sw)] + [(f'in{k}', w) for k in range(1 << sw)]
        return ins, [('r', w)], lambda i, o, t: L.Mux(t, 'dut', i['sel'], [i[f'in{k}'] for k in range(1 << sw)], o['r']), dict(sw=sw, w=w)
    S['Mux'] = mux
    S['Mux2'] = lambda r: (lambda w, sw: ([('sel', sw), ('a', w), ('b', w)], [('r', w)], lambda i, o, t: L.Mux2(t, 'dut', i['sel'], i['a'], i['b'], o['r']), dict(w=w, sw=sw)))(W(r), r.choice([1, 1, 1, 2, 3]))
    S['Repeat'] = lambda r: (lambda w: ([('a', 1)], [('r', w)], lambda i, o, t: L.Repeat(t, 'dut', i['a'], o['r']), dict(w=w)))(W(r))

    def sel(cls, default=False):
        def f(r):
            n, w = r.randint(1, 5), W(r)
            ins = [(f's{k}', 1) for k in range(n)] + [(f'in{k}', w) for k in range(n)] + ([('dflt', w)] if default else [])
            if default:
                c = lambda i, o, t: cls(t, 'dut', [i[f's{k}'] for k in range(n)], [i[f'in{k}'] for k in range(n)], i['dflt'], o['r'])
            else:
                c = lambda i, o, t: cls(t, 'dut', [i[f's{k}'] for k in range(n)], [i[f'in{k}'] for k in range(n)], o['r'])
            return ins, [('r', w)], c, dict(n=n, w=w)
        return f
    S['Select'] = sel(L.Select)
    S['OneHotMux'] = sel(L.OneHotMux)
    S['SelectDefault'] = sel(L.SelectDefault, True)

    def ohdemux(r):
        n, w = r.randint(1, 5), W(r)
        ins = [(f's{k}', 1) for k in range(n)] + [('a', w)]
        outs = [(f'o{k}', w) for k in range(n)]
        return ins, outs, lambda i, o, t: L.OneHotDemux(t, 'dut', [i[f's{k}'] for k in range(n)], i['a'], [o[f'o{k}'] for k in range(n)]), dict(n=n, w=w)
    S['OneHotDemux'] = ohdemux

    def decoder(r):
        w = r.randint(1, 4)
        outs = [(f'b{k}', 1) for k in range(1 << w)]
        return [('a', w)], outs, lambda i, o, t: L.Decoder(t, 'dut', i['a'], [o[f'b{k}'] for k in range(1 << w)]), dict(w=w)
    S['Decoder'] = decoder

    def minterm(r):
        n = r.randint(1, 6)
        v = r.randint(0, (1 << n) - 1)
        ins = [(f'b{k}', 1) for k in range(n)]
        return ins, [('r', 1)], lambda i, o, t: L.Minterm(t, 'dut', [i[f'b{k}'] for k in range(n)], v, o['r']), dict(n=n, v=v)
    S['Minterm'] = minterm

    def som(r):
        w = r.randint(1, 4)
        ms = sorted(set(r.randint(0, (1 << w) - 1) for _ in range(r.randint(1, 4))))
        return [('a', w)], [('r', 1)], lambda i, o, t: L.SumOfMinterms(t, 'dut', i['a'], ms, o['r']), dict(w=w, ms=ms)
    S['SumOfMinterms'] = som

    def concat(cls):
        def f(r):
            ws = [r.choice([1, 2, 3, 8]) for _ in range(r.randint(1, 5))]
            ins = [(f'i{k}', w) for k, w in enumerate(ws)]
            return ins, [('r', sum(ws))], lambda i, o, t: cls(t, 'dut', [i[f'i{k}'] for k in range(len(ws))], o['r']), dict(ws=ws)
        return f
    S['ConcatenateMSBF'] = concat(L.ConcatenateMSBF)
    S['ConcatenateLSBF'] = concat(L.ConcatenateLSBF)

    def rng_(r):
        w = W(r)
        lo = r.randint(0, w - 1)
        hi = r.randint(lo, w - 1)
        return [('a', w)], [('r', hi - lo + 1)], lambda i, o, t: L.Range(t, 'dut', i['a'], hi, lo, o['r']), dict(w=w, hi=hi, lo=lo)
    S['Range'] = rng_
    S['Digit7Segment'] = lambda r: ([('v', 4)], [('led', 7)], lambda i, o, t: L.Digit7Segment(t, 'dut', i['v'], o['led']), {})

    def prio(r):
        n = r.randint(1, 6)
        inc = r.chance(1, 2)
        ins = [(f'a{k}', 1) for k in range(n)]
        outs = [(f'r{k}', 1) for k in range(n)]
        return ins, outs, lambda i, o, t: L.PriorityEncoder(t, 'dut', [i[f'a{k}'] for k in range(n)], [o[f'r{k}'] for k in range(n)], inc), dict(n=n, inc=inc)
    S['PriorityEncoder'] = prio
    S['Counter'] = lambda r: (lambda w: ([('reset', 1), ('inc', 1)], [('q', w)], lambda i, o, t: L.Counter(t, 'dut', i['reset'], i['inc'], o['q']), dict(w=w)))(W(r))

    def modc(r):
        w = r.choice([2, 3, 4, 8, 16])
        m = r.randint(2, (1 << w) - 1)
        return [('reset', 1), ('inc', 1)], [('q', w), ('carryout', 1)], lambda i, o, t: L.ModuloCounter(t, 'dut', m, i['reset'], i['inc'], o['q'], o['carryout']), dict(w=w, mod=m)
    S['ModuloCounter'] = modc
    S['StepUpCounter'] = lambda r: (lambda w: ([('reset', 1), ('inc', 1), ('step', w)], [('q', w)], lambda i, o, t: L.StepUpCounter(t, 'dut', i['reset'], i['inc'], i['step'], o['q']), dict(w=w)))(W(r))

    def shv(cls, arith=None):
        def f(r):
            w = W(r)
            bw = r.randint(1, 5)
            if arith is None:
                c = lambda i, o, t: cls(t, 'dut', i['a'], i['b'], o['r'])
            else:
                c = lambda i, o, t: cls(t, 'dut', i['a'], i['b'], o['r'], arith)
            return [('a', w), ('b', bw)], [('r', w)], c, dict(w=w, bw=bw, arith=arith)
        return f
    S['ShiftLeft'] = shv(L.ShiftLeft)
    S['ShiftRight'] = shv(L.ShiftRight, False)
    S['ShiftRightArith'] = shv(L.ShiftRight, True)
    S['RotateLeft'] = shv(L.RotateLeft)
    S['RotateRight'] = shv(L.RotateRight)
    S['BinaryToBCD'] = lambda r: (lambda w: ([('a', w)], [('r', 4 * int(math.ceil(w * math.log10(2))) if w > 3 else 4)], lambda i, o, t: L.BinaryToBCD(t, 'dut', i['a'], o['r']), dict(w=w)))(r.choice([4, 5, 8, 10]))

    def clz(r):
        w = r.choice([2, 4, 8, 16, 32])
        rw = int(math.log2(w))
        return [('a', w)], [('r', rw), ('z', 1)], lambda i, o, t: L.CountLeadingZeros(t, 'dut', i['a'], o['r'], o['z']), dict(w=w)
    S['CountLeadingZeros'] = clz

    S['Latch'] = lambda r: (lambda w: ([('d', w), ('e', 1)], [('q', w)], lambda i, o, t: L.Latch(t, 'dut', i['d'], o['q'], i['e']), dict(w=w)))(W(r))

    def reg(r):
        w = W(r)
        he, hr = r.randint(0, 1), r.randint(0, 1)
        rv = None if r.chance(1, 2) else r.randint(0, (1 << w) - 1)
        ins = [('d', w)] + ([('e', 1)] if he else []) + ([('r', 1)] if hr else [])
        return ins, [('q', w)], lambda i, o, t: L.Reg(t, 'dut', i['d'], o['q'], enable=i.get('e'), reset=i.get('r'), reset_value=rv), dict(w=w, e=he, r=hr, rv=rv)
    S['Reg'] = reg

    def treg(r):
        he, hr = r.randint(0, 1), r.randint(0, 1)
        ins = [('t', 1)] + ([('e', 1)] if he else []) + ([('r', 1)] if hr else [])
        return ins, [('q', 1)], lambda i, o, t: L.TReg(t, 'dut', i['t'], o['q'], enable=i.get('e'), reset=i.get('r')), dict(e=he, r=hr)
    S['TReg'] = treg

    def delay(r):
        w, d = W(r), r.randint(1, 4)
        return [('a', w), ('en', 1), ('reset', 1)], [('r', w)], lambda i, o, t: L.DelayLine(t, 'dut', i['a'], i['en'], i['reset'], o['r'], d), dict(w=w, delay=d)
    S['DelayLine'] = delay

    def pipe(r):
        n = r.randint(1, 3)
        ws = [W(r) for _ in range(n)]
        ins = [('reset', 1)] + [(f'i{k}', w) for k, w in enumerate(ws)]
        outs = [(f'o{k}', w) for k, w in enumerate(ws)]
        return ins, outs, lambda i, o, t: L.PipelinePhase(t, 'dut', i['reset'], [i[f'i{k}'] for k in range(n)], [o[f'o{k}'] for k in range(n)]), dict(ws=ws)
    S['PipelinePhase'] = pipe

    def memo(cls):
        def f(r):
            aw, w = r.randint(1, 4), W(r)
            ins = [('read_address', aw), ('write_address', aw), ('write', 1), ('writedata', w)]
            return ins, [('readdata', w)], lambda i, o, t: cls(t, 'dut', i['read_address'], i['write_address'], i['write'], o['readdata'], i['writedata']), dict(aw=aw, w=w)
        return f
    S['AsynchronousMemory'] = memo(L.AsynchronousMemory)
    S['SynchronousMemory'] = memo(L.SynchronousMemory)

    def dpm(r):
        aw, w = r.randint(1, 4), W(r)
        ins, outs = [], []
        for s in 'ab':
            ins += [(f'read_address_{s}', aw), (f'write_address_{s}', aw), (f'write_{s}', 1), (f'writedata_{s}', w)]
            outs += [(f'readdata_{s}', w)]
        return ins, outs, lambda i, o, t: L.DualPortSynchronousMemory(
            t, 'dut', i['read_address_a'], i['write_address_a'], i['write_a'], o['readdata_a'], i['writedata_a'],
            i['read_address_b'], i['write_address_b'], i['write_b'], o['readdata_b'], i['writedata_b']), dict(aw=aw, w=w)
    S['DualPortSynchronousMemory'] = dpm
    S['AnyEqual'] = lambda r: (lambda n, w: ([(f'i{k}', w) for k in range(n)], [('r', 1)], lambda i, o, t: L.AnyEqual(t, 'dut', [i[f'i{k}'] for k in range(n)], o['r']), dict(n=n, w=w)))(r.randint(2, 4), W(r))

    def eqc(cls):
        def f(r):
            w = W(r)
            v = r.choice([0, (1 << w) - 1, r.randint(0, (1 << w) - 1), (1 << w) + r.randint(0, 3)])
            return [('a', w)], [('r', 1)], lambda i, o, t: cls(t, 'dut', i['a'], v, o['r']), dict(w=w, v=v)
        return f
    S['EqualConstant'] = eqc(L.EqualConstant)
    S['NotEqualConstant'] = eqc(L.NotEqualConstant)
    S['Equal'] = lambda r: (lambda w: ([('a', w), ('b', w)], [('r', 1)], lambda i, o, t: L.Equal(t, 'dut', i['a'], i['b'], o['r']), dict(w=w)))(W(r))
    S['Comparator'] = lambda r: (lambda w: ([('a', w), ('b', w)], [('gt', 1), ('eq', 1), ('lt', 1)], lambda i, o, t: L.Comparator(t, 'dut', i['a'], i['b'], o['gt'], o['eq'], o['lt']), dict(w=w)))(W(r))
    S['ComparatorSignedUnsigned'] = lambda r: (lambda w: ([('a', w), ('b', w)], [('gtu', 1), ('eq', 1), ('ltu', 1), ('gt', 1), ('lt', 1)],
                                                          lambda i, o, t: L.ComparatorSignedUnsigned(t, 'dut', i['a'], i['b'], o['gtu'], o['eq'], o['ltu'], o['gt'], o['lt']), dict(w=w)))(r.choice([2, 3, 4, 8, 16, 32]))
    S['Swap'] = lambda r: (lambda w: ([('a', w), ('b', w), ('swap', 1)], [('ra', w), ('rb', w)], lambda i, o, t: L.Swap(t, 'dut', i['a'], i['b'], i['swap'], o['ra'], o['rb']), dict(w=w)))(W(r))

    def edge(r):
        from py4hw.logic.clock import EdgeDetector
        d = r.choice(['pos', 'neg', 'both'])
        return [('a', 1)], [('r', 1)], lambda i, o, t: EdgeDetector(t, 'dut', i['a'], o['r'], d), dict(direction=d)
    S['EdgeDetector'] = edge

    def clkdiv(r):
        from py4hw.logic.clock import ClockDivider
        fo = r.choice([1, 2, 5, 10])
        fi = fo * r.choice([2, 4, 10, 50])
        hr = r.chance(1, 2)
        ins = [('reset', 1)] if hr else []
        return ins, [('clkout', 1)], lambda i, o, t: ClockDivider(t, 'dut', fi, fo, o['clkout'], reset=i.get('reset')), dict(fi=fi, fo=fo, reset=hr)
    S['ClockDivider'] = clkdiv

    def autoreset(r):
        from py4hw.logic.clock import AutoReset
        return [], [('reset', 1)], lambda i, o, t: AutoReset(t, 'dut', o['reset']), {}
    S['AutoReset'] = autoreset

    return S


def lib_design(rng, which):
    """one library block at sampled parameters inside a structural Top"""
    specs = lib_specs()
    ins, outs, ctor, params = specs[which](rng)
    hw, top = fresh()
    d = mk(hw, top, ins, outs, lambda i, o: ctor(i, o, top))
    d.update(hw=hw, top=top, kind='lib:' + which)
    d['desc'] = dict(block=which, params=params)
    return d


def multi_design(rng, which, k, widths):
    """k instances of one library block, parameters sampled independently but with all widths drawn from the small pool
    `widths`, each inside its own structural wrapper: objects that the emitter puts under one module name meet in one
    hierarchy with different options"""
    global WIDTHS
    import py4hw
    specs = lib_specs()
    hw, top = fresh()
    saved = WIDTHS
    plist = []

    class Wrap(py4hw.Logic):
        def __init__(self, parent, name, ins, outs, ctor):
            super().__init__(parent, name)
            for n, w in ins.items():
                self.addIn(n, w)
            for n, w in outs.items():
                self.addOut(n, w)
            ctor(ins, outs, self)
    try:
        WIDTHS = list(widths)
        for j in range(k):
            ins, outs, ctor, params = specs[which](rng.fork(j))
            i = {n: hw.wire(f'{n}_{j}', w) for n, w in ins}
            o = {n: hw.wire(f'{n}_{j}', w) for n, w in outs}
            for n, w in i.items():
                top.addIn(f'{n}_{j}', w)
            for n, w in o.items():
                top.addOut(f'{n}_{j}', w)
            Wrap(top, f'w{j}', i, o, ctor)
            plist.append(params)
    finally:
        WIDTHS = saved
    return dict(hw=hw, top=top, kind='multi:' + which, desc=dict(block=which, params=plist, widths=list(widths)))


# ------------------------------------------------------------------------------------------------ names
def ieee_keywords():
    """the Lean model's list (single source: the driver); read lazily by the harness"""
    raise NotImplementedError


IDENT_POOL = ['a', 'b', 'x', 'y', 'data', 'q', 'd', 'clk', 'reset', 'w_a', 'w_x', 'i_x', 'i_dut', 'reserved_wire', 'reserved_x',
              'r', 'e', 'sel', 'in', 'out', 'table', 'design', 'uwire', 'wire', 'reg', 'logic', 'bit', 'signed', 'w_', 'i_', '_x', 'X', 'Wire']


def named_design(port_in, port_out, wire_name, inst_names, width=4, cls_name='Top', clocked=False, clk_name=None):
    """Top(in -> Not -> local wire -> Buf/Reg -> out) built from user blocks so that port, wire and instance names are free:
         top.<port_in>  --[Inner i1: Not]--> local wire <wire_name> --[Inner i2: Not or Reg]--> top.<port_out>
       Inner blocks are structural user classes (named instances, not inlined)."""
    import py4hw
    hw = py4hw.HWSystem()
    if clk_name is not None:
        hw.clockDriver.name = clk_name

    class Inv(py4hw.Logic):
        def __init__(self, parent, name, a, r):
            super().__init__(parent, name)
            self.addIn('a', a)
            self.addOut('r', r)
            py4hw.Not(self, 'n', a, r)

    class Dff(py4hw.Logic):
        def __init__(self, parent, name, a, r):
            super().__init__(parent, name)
            self.addIn('a', a)
            self.addOut('r', r)
            py4hw.Reg(self, 'ff', a, r)

    Top = type(cls_name, (py4hw.Logic,), {})
    top = Top(hw, 'top')
    a = hw.wire('src', width)
    r = hw.wire('dst', width)
    top.addIn(port_in, a)
    top.addOut(port_out, r)
    mid = top.wire(wire_name, width)
    Inv(top, inst_names[0], a, mid)
    (Dff if clocked else Inv)(top, inst_names[1], mid, r)
    return dict(hw=hw, top=top, kind='names', inputs={port_in: a}, outputs={port_out: r},
                desc=dict(port_in=port_in, port_out=port_out, wire=wire_name, insts=list(inst_names), cls=cls_name, clocked=clocked,
                          clk=clk_name, width=width))


def same_wire_name_design(name, width=3):
    """two distinct local wires with the same name, created by different owners, meet in one scope"""
    import py4hw
    hw, top = fresh()

    class Inv(py4hw.Logic):
        def __init__(self, parent, name, a, r):
            super().__init__(parent, name)
            self.addIn('a', a)
            self.addOut('r', r)
            py4hw.Not(self, 'n', a, r)

    a = hw.wire('a', width)
    r = hw.wire('r', width)
    top.addIn('a', a)
    top.addOut('r', r)
    w1 = hw.wire(name, width)      # owned by the system
    w2 = top.wire(name, width)     # owned by top
    Inv(top, 'u1', a, w1)
    Inv(top, 'u2', w1, w2)
    Inv(top, 'u3', w2, r)
    return dict(hw=hw, top=top, kind='samewire', inputs={'a': a}, outputs={'r': r}, desc=dict(wire=name, width=width, owners=2))


# ------------------------------------------------------------------------------------------------ reuse
def reuse_design(kind, p):
    """two instances that the emitter puts under ONE module name (structureName) with possibly different interfaces"""
    import py4hw
    L = py4hw
    hw, top = fresh()
    ins, outs = {}, {}

    def I(n, w):
        ins[n] = hw.wire(n, w)
        top.addIn(n, ins[n])
        return ins[n]

    def O(n, w):
        outs[n] = hw.wire(n, w)
        top.addOut(n, outs[n])
        return outs[n]
    if kind == 'abs':
        w = p['w']
        a = I('a', w)
        order = [(0, p['inv'][0]), (1, p['inv'][1])]
        for k, inv in order:
            L.Abs(top, f'u{k}', a, O(f'r{k}', w), O(f'n{k}', 1) if inv else None)
    elif kind == 'reg_dw':
        qw = p['qw']
        for k, dw in enumerate(p['dw']):
            L.Reg(top, f'u{k}', I(f'd{k}', dw), O(f'q{k}', qw))
    elif kind == 'reg_ew':
        qw = p['qw']
        for k, ew in enumerate(p['ew']):
            L.Reg(top, f'u{k}', I(f'd{k}', qw), O(f'q{k}', qw), enable=I(f'e{k}', ew))
    elif kind == 'reg_rw':
        qw = p['qw']
        for k, rw in enumerate(p['rw']):
            L.Reg(top, f'u{k}', I(f'd{k}', qw), O(f'q{k}', qw), reset=I(f'r{k}', rw))
    elif kind == 'latch':
        qw = p['qw']
        for k, (dw, ew) in enumerate(p['dew']):
            L.Latch(top, f'u{k}', I(f'd{k}', dw), O(f'q{k}', qw), I(f'e{k}', ew))
    elif kind == 'sign':
        w = p['w']
        a = I('a', w)
        for k, rw in enumerate(p['rw']):
            L.Sign(top, f'u{k}', a, O(f'r{k}', rw))
    elif kind == 'bufenable':
        w = p['w']
        a = I('a', w)
        for k, ew in enumerate(p['ew']):
            L.BufEnable(top, f'u{k}', a, I(f'e{k}', ew), O(f'r{k}', w))
    elif kind == 'neg':
        w = p['w']
        a = I('a', w)
        for k in range(2):
            L.Neg(top, f'u{k}', a, O(f'r{k}', w))
    elif kind == 'add':
        for k, (aw, bw, rw, ci, co) in enumerate(p['v']):
            L.Add(top, f'u{k}', I(f'a{k}', aw), I(f'b{k}', bw), O(f'r{k}', rw), ci=I(f'ci{k}', 1) if ci else None, co=O(f'co{k}', 1) if co else None)
    elif kind == 'add_alias':
        w = p['w']
        a, b = I('a', w), I('b', w)
        for k, al in enumerate(p['alias']):
            L.Add(top, f'u{k}', a, a if al else b, O(f'r{k}', w))
    elif kind == 'reg_clk':
        # two Regs of the same width in two clock domains: the second one lives in a block whose clock driver is
        # ClockDriver(<clkname>, wire=<a wire of the parent>) as test/interactive/tb_DE0.py does for the VGA clock
        w = p['w']
        d0, d1 = I('d0', w), I('d1', w)
        c2 = I('c2', 1)
        L.Reg(top, 'u0', d0, O('q0', w))

        class Dom(L.Logic):
            def __init__(self, parent, name, d, q):
                super().__init__(parent, name)
                self.addIn('d', d)
                self.addOut('q', q)
                L.Reg(self, 'ff', d, q)
        dom = Dom(top, 'dom', d1, O('q1', w))
        dom.clockDriver = L.ClockDriver(p.get('clkname', 'clk2'), 25E6, wire=c2)
    else:
        raise KeyError(kind)
    return dict(hw=hw, top=top, kind='reuse:' + kind, inputs=ins, outputs=outs, desc=dict(kind=kind, **p))


def alias_local_design(order, w=4, top_is_system=False):
    """one LOCAL wire t on two ports of the same child (Mul(t,t,·) inlined, Add(t,t,·) shared named module, And2(t,t,·)
    inlined, user block Two(t,t,·) named module); `order` is the creation order of the children, 'drv' = the driver of t
    (absent = t has no driver in the source design).  Every consumer output is a port of the module."""
    import py4hw
    L = py4hw
    hw, top = fresh()

    class Two(L.Logic):
        def __init__(self, parent, name, x, y, r):
            super().__init__(parent, name)
            self.addIn('x', x)
            self.addIn('y', y)
            self.addOut('r', r)
            L.Xor2(self, 'x2', x, y, r)
    scope = top
    a = hw.wire('a', w)
    top.addIn('a', a)
    t = scope.wire('t', w)
    outs = {}
    for k, kind in enumerate(order):
        if kind == 'drv':
            L.Not(scope, 'drv', a, t)
            continue
        o = hw.wire(f'o_{kind}', w)
        top.addOut(f'o_{kind}', o)
        outs[f'o_{kind}'] = o
        if kind == 'mul':
            L.Mul(scope, 'square', t, t, o)
        elif kind == 'add':
            L.Add(scope, 'double', t, t, o)
        elif kind == 'and':
            L.And2(scope, 'same', t, t, o)
        elif kind == 'two':
            Two(scope, 'two', t, t, o)
        elif kind == 'buf':
            L.Buf(scope, 'copy', t, o)          # ordinary single use of t
        elif kind == 'add2':
            L.Add(scope, 'plain', t, a, o)      # second Add of the same module name with distinct ports
        else:
            raise KeyError(kind)
    return dict(hw=hw, top=top, kind='aliaslocal', inputs={'a': a}, outputs=outs, desc=dict(order=list(order), w=w))


def kwport_design(n_in, n_out, n_io=None, w=4, leaf='struct', depth=2):
    """reserved-word (or any) port names on NON-inlined children at depth >= 2:
         Top(a -> r [, inout p]) -> Mid_1 -> … -> Mid_depth-1 -> Leaf, every level below Top has input port n_in, output
         port n_out and (optionally) inout port n_io; leaf = 'struct' (user structural block around Not), 'body' (primitive
         providing its own verilogBody) or 'reg' (structural block around a Reg, clocked)."""
    import py4hw
    L = py4hw
    from py4hw.rtl_generation import getValidVerilogName
    hw, top = fresh()

    class LeafS(L.Logic):
        def __init__(self, parent, name, a, r, io):
            super().__init__(parent, name)
            self.addIn(n_in, a)
            self.addOut(n_out, r)
            if io is not None:
                self.addInOut(n_io, io)
            if leaf == 'reg':
                L.Reg(self, 'ff', a, r)
            else:
                L.Not(self, 'inv', a, r)

    class LeafB(L.Logic):
        def __init__(self, parent, name, a, r, io):
            super().__init__(parent, name)
            self.a = self.addIn(n_in, a)
            self.r = self.addOut(n_out, r)
            if io is not None:
                self.addInOut(n_io, io)

        def propagate(self):
            self.r.put(~self.a.get())

        def verilogBody(self):
            return 'assign {} = ~{};\n'.format(getValidVerilogName(n_out), getValidVerilogName(n_in))

    class Mid(L.Logic):
        def __init__(self, parent, name, a, r, io, lvl):
            super().__init__(parent, name)
            self.addIn(n_in, a)
            self.addOut(n_out, r)
            if io is not None:
                self.addInOut(n_io, io)
            t = self.wire('t', w)
            L.Buf(self, 'b', a, t)
            if lvl > 1:
                Mid(self, 'm', t, r, io, lvl - 1)
            else:
                (LeafB if leaf == 'body' else LeafS)(self, 'leaf', t, r, io)
    a, r = hw.wire('a', w), hw.wire('r', w)
    top.addIn('a', a)
    top.addOut('r', r)
    io = None
    if n_io is not None:
        io = L.BidirWire(hw, 'pad', 1) if hasattr(L, 'BidirWire') else hw.wire('pad', 1)
        top.addInOut('pad', io)
    Mid(top, 'm', a, r, io, depth - 1)
    return dict(hw=hw, top=top, kind='kwport', inputs={'a': a}, outputs={'r': r},
                desc=dict(n_in=n_in, n_out=n_out, n_io=n_io, w=w, leaf=leaf, depth=depth))


def seq_design(rng, w=8):
    """hierarchy for request SEQUENCES on one generator: Top{A: Blk, B: Blk, Add} where both blocks contain modules with
    shared names (Add<w>, Reg<w>, Neg<w>, Abs<w>)"""
    import py4hw
    L = py4hw
    hw, top = fresh()

    class Blk(L.Logic):
        def __init__(self, parent, name, a, b, r, kinds):
            super().__init__(parent, name)
            self.addIn('a', a)
            self.addIn('b', b)
            self.addOut('r', r)
            cur = self.wire('s', w)
            L.Add(self, 'add', a, b, cur)
            for k, kind in enumerate(kinds):
                nxt = r if k == len(kinds) - 1 else self.wire(f't{k}', w)
                if kind == 'reg':
                    L.Reg(self, f'u{k}', cur, nxt)
                elif kind == 'neg':
                    L.Neg(self, f'u{k}', cur, nxt)
                elif kind == 'abs':
                    L.Abs(self, f'u{k}', cur, nxt)
                elif kind == 'add':
                    L.Add(self, f'u{k}', cur, b, nxt)
                else:
                    L.Not(self, f'u{k}', cur, nxt)
                cur = nxt
    pool = ['reg', 'neg', 'abs', 'add', 'not']
    ka = [rng.choice(pool) for _ in range(rng.randint(1, 4))]
    kb = [rng.choice(pool) for _ in range(rng.randint(1, 4))]
    a, b, r = hw.wire('a', w), hw.wire('b', w), hw.wire('r', w)
    top.addIn('a', a)
    top.addIn('b', b)
    top.addOut('r', r)
    ra, rb = top.wire('ra', w), top.wire('rb', w)
    A = Blk(top, 'A', a, b, ra, ka)
    B = Blk(top, 'B', b, a, rb, kb)
    L.Add(top, 'sum', ra, rb, r)
    return dict(hw=hw, top=top, A=A, B=B, kind='seq', desc=dict(w=w, A=ka, B=kb))


# ------------------------------------------------------------------------------------------------ hierarchies
def hier_design(rng, depth=2, fan=3, wmax=8):
    """random nested hierarchy of user structural blocks (unique module per instance) whose leaves are library blocks
    with structureName (shared modules) and inlined primitives; every level passes one data path through"""
    import py4hw
    L = py4hw
    hw, top = fresh()
    w = rng.choice([1, 2, 4, 8][: max(1, [1, 2, 4, 8].index(min(wmax, 8)) + 1)])
    cnt = [0]

    class Node(L.Logic):
        def __init__(self, parent, name, a, r, lvl, r_):
            super().__init__(parent, name)
            self.addIn('a', a)
            self.addOut('r', r)
            n = r_.randint(1, fan)
            cur = a
            for k in range(n):
                nxt = r if k == n - 1 else self.wire(f't{k}', w)
                kind = r_.choice(['node', 'not', 'neg', 'reg', 'abs', 'add', 'buf', 'bufen']) if lvl > 0 else r_.choice(['not', 'neg', 'reg', 'abs', 'add', 'buf', 'bufen'])
                cnt[0] += 1
                nm = f'{kind}{k}'
                if kind == 'node':
                    Node(self, nm, cur, nxt, lvl - 1, r_.fork(k))
                elif kind == 'not':
                    L.Not(self, nm, cur, nxt)
                elif kind == 'buf':
                    L.Buf(self, nm, cur, nxt)
                elif kind == 'neg':
                    L.Neg(self, nm, cur, nxt)
                elif kind == 'reg':
                    L.Reg(self, nm, cur, nxt)
                elif kind == 'abs':
                    if w >= 2:
                        L.Abs(self, nm, cur, nxt)
                    else:
                        L.Not(self, nm, cur, nxt)
                elif kind == 'add':
                    L.Add(self, nm, cur, a, nxt)
                elif kind == 'bufen':
                    one = self.wire(f'one{k}', 1)
                    L.Constant(self, f'c{k}', 1, one)
                    L.BufEnable(self, nm, cur, one, nxt)
                cur = nxt
    a = hw.wire('a', w)
    r = hw.wire('r', w)
    top.addIn('a', a)
    top.addOut('r', r)
    Node(top, 'root', a, r, depth, rng)
    return dict(hw=hw, top=top, kind='hier', inputs={'a': a}, outputs={'r': r}, desc=dict(depth=depth, fan=fan, w=w, nodes=cnt[0]))


# ------------------------------------------------------------------------------------------------ interface-only blocks
BBOX_KINDS = ['bb', 'shell', 'pass', 'half', 'prim', 'sprim', 'reg']


def bbox_design(stages, w=16, vw=1, head='port', tail='port', side=True):
    """structural module whose children are (partly) blocks WITHOUT behaviour: no propagate/clock, so py4hw registers them
    neither as source nor as sink of the wires on their ports (vendor IP / black boxes, empty structural shells).
      stages: list of kinds, stage k reads net t<k-1> (and the side net v<k-1>) and drives t<k> (and v<k>):
        'bb'    interface-only leaf class (ports only)                     'shell'  interface-only leaf, ONE shared class per design
        'pass'  structural block whose ports go straight to an inner 'bb'  'half'   structural block: data through a Buf, side port unused inside
        'prim'  inlined primitive (Buf)   'sprim' structural block around a Not   'reg' library Reg (shared named module)
      head: 'port' (t_-1 is the input port a) | 'none' (first stage has no data input: a pure source, a is unused)
      tail: 'port' (last net is the output port r) | 'dangling' (last net is a local wire nobody reads, r driven by a Buf of a)
      side: a second net v<k> of width vw runs beside every data net between two adjacent non-primitive stages"""
    import py4hw
    L = py4hw
    hw, top = fresh()

    def ports(self, a, v, r, vo):
        if a is not None:
            self.addIn('data_in', a)
        if v is not None:
            self.addIn('valid_in', v)
        self.addOut('data', r)
        if vo is not None:
            self.addOut('valid', vo)

    class Shell(L.Logic):                      # one class for all 'shell' stages
        def __init__(self, parent, name, a, v, r, vo):
            super().__init__(parent, name)
            ports(self, a, v, r, vo)

    def bb_class(k):
        class BB(L.Logic):
            def __init__(self, parent, name, a, v, r, vo):
                super().__init__(parent, name)
                ports(self, a, v, r, vo)
        BB.__name__ = BB.__qualname__ = 'Vendor%d' % k
        return BB

    class Pass(L.Logic):
        def __init__(self, parent, name, a, v, r, vo):
            super().__init__(parent, name)
            ports(self, a, v, r, vo)
            bb_class(99)(self, 'ip', a, v, r, vo)

    class Half(L.Logic):
        def __init__(self, parent, name, a, v, r, vo):
            super().__init__(parent, name)
            ports(self, a, v, r, vo)
            if a is not None:
                L.Buf(self, 'b', a, r)
            else:
                L.Constant(self, 'c', 1, r)

    class SPrim(L.Logic):
        def __init__(self, parent, name, a, r):
            super().__init__(parent, name)
            self.addIn('a', a)
            self.addOut('r', r)
            L.Not(self, 'n', a, r)
    a, r = hw.wire('a', w), hw.wire('r', w)
    top.addIn('a', a)
    top.addOut('r', r)
    soft = ('bb', 'shell', 'pass', 'half')
    cur, curv = (a if head == 'port' else None), None
    n = len(stages)
    for k, kind in enumerate(stages):
        last = k == n - 1
        nxt = r if (last and tail == 'port') else top.wire('t%d' % k, w)
        nxtv = top.wire('v%d' % k, vw) if (side and kind in soft and not last and stages[k + 1] in soft) else None
        nm = '%s%d' % (kind, k)
        if kind in soft:
            cls = dict(bb=bb_class(k), shell=Shell, **{'pass': Pass}, half=Half)[kind]
            cls(top, nm, cur, curv, nxt, nxtv)
        else:
            src = cur
            if src is None:
                src = top.wire('k%d' % k, w)
                L.Constant(top, 'c%d' % k, 5, src)
            if kind == 'prim':
                L.Buf(top, nm, src, nxt)
            elif kind == 'sprim':
                SPrim(top, nm, src, nxt)
            else:
                L.Reg(top, nm, src, nxt)
        cur, curv = nxt, nxtv
    if tail != 'port':
        L.Buf(top, 'thru', a, r)
    return dict(hw=hw, top=top, kind='bbox', inputs={'a': a}, outputs={'r': r},
                desc=dict(stages=list(stages), w=w, vw=vw, head=head, tail=tail, side=side))


def clkport_design(src='port', depth=1, holder='reg', clkname='clk25', w=8, inherited=True, pnames=('pixclk', 'ck')):
    """multi-clock design whose second clock is an ordinary WIRE that reaches the block living in that domain through `depth`
    levels of input ports:  Top[ clock wire = input port (src='port') or a local net driven by a divide-by-two register
    (src='local') ] -> Wrap_1(ck, d, q) -> … -> Wrap_depth(ck, d, q){ [Reg r0 in the inherited domain] ; X in domain `clkname` }
    where X is a Reg carrying its own ClockDriver (holder='reg') or a structural block around a Reg carrying it ('block').
    depth = 0: X sits directly in Top."""
    import py4hw
    L = py4hw
    hw, top = fresh()

    class Dom(L.Logic):
        def __init__(self, parent, name, d, q):
            super().__init__(parent, name)
            self.addIn('d', d)
            self.addOut('q', q)
            L.Reg(self, 'ff', d, q)

    def payload(self, ck, d, q):
        mid = d
        if inherited:
            mid = self.wire('mid', w)
            L.Reg(self, 'r0', d, mid)
        x = (L.Reg if holder == 'reg' else Dom)(self, 'r1', mid, q)
        x.clockDriver = L.ClockDriver(clkname, 25E6, wire=ck)

    class Wrap(L.Logic):
        def __init__(self, parent, name, ck, d, q, lvl):
            super().__init__(parent, name)
            self.addIn(pnames[lvl % len(pnames)], ck)
            self.addIn('d', d)
            self.addOut('q', q)
            if lvl > 1:
                Wrap(self, 'wrap', ck, d, q, lvl - 1)
            else:
                payload(self, ck, d, q)
    d, q = hw.wire('d', w), hw.wire('q', w)
    top.addIn('d', d)
    top.addOut('q', q)
    if src == 'port':
        ck = hw.wire('extclk', 1)
        top.addIn('extclk', ck)
    else:
        ck = top.wire('vclk', 1)
        nck = top.wire('nvclk', 1)
        L.Not(top, 'inv', ck, nck)
        L.Reg(top, 'div2', nck, ck)
    if depth == 0:
        payload(top, ck, d, q)
    else:
        Wrap(top, 'wrap', ck, d, q, depth)
    return dict(hw=hw, top=top, kind='clkport', inputs={'d': d}, outputs={'q': q},
                desc=dict(src=src, depth=depth, holder=holder, clkname=clkname, w=w, inherited=inherited))


# ------------------------------------------------------------------------------------------------ helpers
def all_objects(obj):
    out = [obj]
    for c in obj.children.values():
        out += all_objects(c)
    return out
