"""
Seeded generators of netlists made of primitive leaves.  A *plan* is pure data, so the same netlist can be
built several times in different instantiation orders (C04), with permuted clockables (C05), etc.

plan = {'inputs': [(name, width)], 'nodes': [node]}
node = {'kind', 'name', 'ins': [ref], 'outw': [widths], 'params': {...}}      ref = ('in', i) | ('node', j, k)
"""
from common import *

COMB = ['And2', 'Or2', 'Not', 'Buf', 'Mux2', 'Sub', 'Mul', 'AddCarryIn', 'Constant', 'ShiftLeftConstant',
        'ShiftRightConstant', 'Bit', 'Range', 'ZeroExtend', 'SignExtend', 'Repeat', 'ConcatenateLSBF',
        'ConcatenateMSBF', 'BitsLSBF', 'BitsMSBF', 'RotateLeftConstant', 'RotateRightConstant', 'SignedMul']
SEQ = ['Reg', 'Sequence', 'SynchronousMemory', 'AutoReset']


def random_plan(rng, n_nodes, seq_ratio=(1, 4), wmax=8, kinds=None, allow_feedback=True, extreme=False, n_domains=0, driver_wires=False):
    """n_domains > 0: a tree of hierarchy containers ('domains'); container 0 is the HWSystem (ungated clock);
    each other container has a parent container and optionally its own gated ClockDriver whose enable is a wire
    of the design (chosen late: may be a register inside the gated domain itself)."""
    n_in = rng.randint(1, 4)
    plan = {'inputs': [(f'in{i}', rng.randint(1, wmax)) for i in range(n_in)], 'nodes': [], 'domains': [{'parent': None, 'gated': False}]}
    for di in range(n_domains):
        plan['domains'].append({'parent': rng.randint(0, di), 'gated': rng.chance(2, 3), 'enable': None})
        # distinct ClockDriver objects may carry the same name (a reusable sub-block that creates its own 'gclk'; a gated
        # driver called 'clk' like the default one): domains are identified by the driver object, never by its name
        plan['domains'][-1]['drv_name'] = rng.fork(('drvname', di)).choice([f'gclk{di + 1}', f'gclk{di + 1}', 'gclk', 'clk'])
        # a gated driver may be DERIVED (base=) from the gated driver of an enclosing domain: it is still governed by its own enable only
        plan['domains'][-1]['base_parent'] = rng.fork(('base', di)).chance(1, 2)
        if driver_wires:
            # (C10, opt-in) the clock WIRE a driver is declared on: none, a wire of its own, or THE SAME Wire object as the driver in
            # force for another container (0 = the system's 'clk' wire; the parent container = an ancestor's; any other = a
            # sibling's / cousin's); and containers that carry their own FREE-RUNNING driver (possibly nested inside a gated domain)
            rw_ = rng.fork(('drvwire', di))
            plan['domains'][-1]['wire_mode'] = rw_.choice(['none', 'own', 'share', 'share'])
            plan['domains'][-1]['wire_share'] = rw_.choice([0, plan['domains'][-1]['parent'], rw_.randint(0, di)])
            plan['domains'][-1]['free_driver'] = (not plan['domains'][-1]['gated']) and rw_.chance(1, 2)
    nodes = plan['nodes']
    comb = [k for k in COMB if (kinds is None or k in kinds)]
    if kinds is not None and 'AsynchronousMemory' in kinds:
        comb.append('AsynchronousMemory')     # only on request: a propagatable block with state (written inside propagate())
    seq = [k for k in SEQ if (kinds is None or k in kinds)]

    def width_of(ref):
        return plan['inputs'][ref[1]][1] if ref[0] == 'in' else nodes[ref[1]]['outw'][ref[2]]

    def pick(upto, want_w=None):
        cands = [('in', i) for i in range(n_in)]
        for j in range(upto):
            for k in range(len(nodes[j]['outw'])):
                cands.append(('node', j, k))
        if want_w is not None:
            c2 = [c for c in cands if width_of(c) == want_w]
            if c2:
                return rng.choice(c2)
        return rng.choice(cands)

    for j in range(n_nodes):
        is_seq = seq and rng.chance(*seq_ratio)
        kind = rng.choice(seq) if is_seq else rng.choice(comb)
        nd = {'kind': kind, 'name': f'n{j}', 'ins': [], 'outw': [], 'params': {}, 'dom': rng.randint(0, n_domains)}
        W = rng.randint(1, wmax)
        if kind in ('And2', 'Or2', 'Sub', 'Mul', 'SignedMul'):
            nd['ins'] = [pick(j), pick(j)]
            nd['outw'] = [W]
        elif kind == 'AddCarryIn':
            nd['ins'] = [pick(j), pick(j), pick(j, 1)]
            nd['outw'] = [width_of(nd['ins'][0]) + rng.choice([0, 0, 1, 2])]
        elif kind in ('Not', 'Buf', 'ZeroExtend'):
            nd['ins'] = [pick(j)]
            nd['outw'] = [W]
        elif kind == 'Repeat':
            nd['ins'] = [pick(j, 1)]
            if width_of(nd['ins'][0]) != 1:
                nd['kind'] = 'Buf'
            nd['outw'] = [W]
        elif kind == 'SignExtend':
            nd['ins'] = [pick(j)]
            nd['outw'] = [width_of(nd['ins'][0]) + rng.randint(0, 4)]
        elif kind == 'Mux2':
            nd['ins'] = [pick(j), pick(j), pick(j)]
            nd['outw'] = [W]
        elif kind == 'Constant':
            nd['params']['value'] = rng.randint(-(1 << (W + 1)), 1 << (W + 2)) if extreme else rng.randint(0, (1 << W) - 1)
            nd['outw'] = [W]
        elif kind in ('ShiftLeftConstant', 'ShiftRightConstant'):
            nd['ins'] = [pick(j)]
            nd['params']['n'] = rng.randint(0, wmax + 3)
            nd['outw'] = [W]
        elif kind in ('RotateLeftConstant', 'RotateRightConstant'):
            nd['ins'] = [pick(j)]
            aw = width_of(nd['ins'][0])
            nd['params']['n'] = rng.randint(0, aw)
            nd['outw'] = [rng.choice([aw, W])]
        elif kind == 'Bit':
            nd['ins'] = [pick(j)]
            nd['params']['bit'] = rng.randint(0, width_of(nd['ins'][0]) - 1)
            nd['outw'] = [rng.choice([1, W])]
        elif kind == 'Range':
            nd['ins'] = [pick(j)]
            aw = width_of(nd['ins'][0])
            lo = rng.randint(0, aw - 1)
            hi = rng.randint(lo, aw - 1)
            nd['params'].update(high=hi, low=lo)
            nd['outw'] = [rng.choice([hi - lo + 1, W])]
        elif kind in ('ConcatenateLSBF', 'ConcatenateMSBF'):
            nd['ins'] = [pick(j) for _ in range(rng.randint(1, 4))]
            tot = sum(width_of(r) for r in nd['ins'])
            nd['outw'] = [tot + rng.choice([0, 0, 1, 3])]
        elif kind in ('BitsLSBF', 'BitsMSBF'):
            nd['ins'] = [pick(j)]
            nd['outw'] = [1] * width_of(nd['ins'][0])
        elif kind == 'Reg':
            top = n_nodes if allow_feedback else j
            nd['late'] = True  # inputs chosen after all nodes exist (feedback allowed)
            nd['outw'] = [W]
            nd['params'] = dict(has_e=rng.randint(0, 1), has_r=rng.randint(0, 1),
                                reset_value=(None if rng.chance(1, 2) else
                                             (rng.randint(-3, 1 << (W + 1)) if extreme else rng.randint(0, (1 << W) - 1))))
        elif kind == 'Sequence':
            n = rng.randint(1, 5)
            nd['params']['values'] = [(rng.randint(-(1 << W), 1 << (W + 1)) if extreme else rng.randint(0, (1 << W) - 1))
                                      for _ in range(n)]
            nd['params']['once'] = bool(rng.randint(0, 1))
            nd['outw'] = [W]
        elif kind == 'AsynchronousMemory':
            nd['ins'] = [pick(j), pick(j), pick(j, 1), pick(j)]
            nd['params']['aw'] = rng.randint(1, 3)
            nd['outw'] = [W]
        elif kind == 'SynchronousMemory':
            nd['late'] = True
            nd['params']['aw'] = rng.randint(1, 3)
            nd['outw'] = [W]
        elif kind == 'AutoReset':
            nd['outw'] = [1]
        nodes.append(nd)
    # late inputs (may point anywhere: feedback through state)
    for j, nd in enumerate(nodes):
        if nd.get('late'):
            top = n_nodes if allow_feedback else j
            if nd['kind'] == 'Reg':
                nd['ins'] = [pick(top)]
                if nd['params']['has_e']:
                    nd['ins'].append(pick(top, 1) if rng.chance(3, 4) else pick(top))
                if nd['params']['has_r']:
                    nd['ins'].append(pick(top, 1))
            else:
                aw, W = nd['params']['aw'], nd['outw'][0]
                nd['ins'] = [pick(top, aw), pick(top, aw), pick(top, 1), pick(top, W)]
    for dm in plan['domains'][1:]:
        if dm['gated']:
            dm['enable'] = pick(n_nodes, 1) if rng.chance(3, 4) else pick(n_nodes)
    if n_domains > 0:
        # a driver placed directly on a sequential LEAF (nearest-ancestor-or-self rule)
        for nd in nodes:
            if nd['kind'] in SEQ and rng.chance(1, 5):
                nd['own_driver'] = pick(n_nodes, 1) if rng.chance(3, 4) else pick(n_nodes)
                if driver_wires:
                    nd['own_driver_wire'] = rng.fork(('leafdrvwire', nd['name'])).choice(['none', 'own', 'share', 'share'])
    return plan


def build(plan, inst_order=None, wire_order=None, sysname=None, into=None, leaf_parent=None, pause_after=None, on_pause=None):
    """instantiates the plan with the real py4hw constructors.
       returns (sys, inputs: [Wire], outs: {(j,k): Wire}, leaves: {j: obj})"""
    import py4hw
    import py4hw.logic.bitwise as B
    import py4hw.logic.arithmetic as A
    import py4hw.logic.storage as S
    import py4hw.logic.clock as C
    import py4hw.logic.simulation as SIM
    sysobj = py4hw.HWSystem() if into is None else into
    nodes = plan['nodes']
    # wires first (any order)
    wspecs = [('in', i, None) for i in range(len(plan['inputs']))]
    for j, nd in enumerate(nodes):
        for k in range(len(nd['outw'])):
            wspecs.append(('node', j, k))
    if wire_order is not None:
        wspecs = [wspecs[i] for i in wire_order]
    W = {}
    mem_extra = {}
    for s in wspecs:
        if s[0] == 'in':
            nm, w = plan['inputs'][s[1]]
            W[('in', s[1])] = sysobj.wire(nm, w)
        else:
            nd = nodes[s[1]]
            W[('node', s[1], s[2])] = sysobj.wire(f"{nd['name']}_o{s[2]}", nd['outw'][s[2]])

    def fit(ref, want, tag):
        """memory address ports need exact widths: adapt with a Range/ZeroExtend-free trick: create a Buf to a wire
        of the wanted width (Buf masks through the wire)"""
        return W[ref]
    leaves = {}
    order = list(range(len(nodes))) if inst_order is None else list(inst_order)
    top = sysobj
    conts = [top if leaf_parent is None else leaf_parent]
    in_force = [getattr(top, 'clockDriver', None)]       # per container: the driver its blocks were ASKED to run on

    def clock_wire_(mode, share, tag):
        if mode == 'own':
            return top.wire(tag)
        if mode == 'share' and in_force[share] is not None:
            return in_force[share].wire                   # the very same Wire object (None when that driver has no clock wire)
        return None
    for di, dm in enumerate(plan.get('domains', [])[1:], 1):
        c = py4hw.Logic(conts[dm['parent']], f'dom{di}')
        if dm.get('free_driver'):
            c.clockDriver = py4hw.ClockDriver(dm.get('drv_name', f'fclk{di}'), base=in_force[dm['parent']],
                                              wire=clock_wire_(dm.get('wire_mode'), dm.get('wire_share', 0), f'fck{di}'))
            c.clockDriver._verif_enable = None
            c._verif_driver = c.clockDriver
        if dm['gated']:
            base = top.clockDriver
            if dm.get('base_parent'):
                o_ = conts[dm['parent']]
                while o_ is not None and getattr(o_, 'clockDriver', None) is None:
                    o_ = getattr(o_, 'parent', None)
                if o_ is not None:
                    base = o_.clockDriver
            if dm.get('wire_mode') is None:
                c.clockDriver = py4hw.ClockDriver(dm.get('drv_name', f'gclk{di}'), base=base, enable=W[tuple(dm['enable'])])
            else:
                c.clockDriver = py4hw.ClockDriver(dm.get('drv_name', f'gclk{di}'), base=base, enable=W[tuple(dm['enable'])],
                                                  wire=clock_wire_(dm['wire_mode'], dm.get('wire_share', 0), f'gck{di}'))
            c.clockDriver._verif_enable = W[tuple(dm['enable'])]      # the enable the design ASKED for (oracles never trust the attribute)
            c._verif_driver = c.clockDriver                           # … and the driver object the design ASKED for on this block
        in_force.append(c.clockDriver if getattr(c, 'clockDriver', None) is not None else in_force[dm['parent']])
        conts.append(c)
    for pos_, j in enumerate(order):
        if pause_after is not None and pos_ == pause_after and on_pause is not None:
            on_pause(top)          # e.g. create the simulator on the partially built design (late additions follow)
        nd = nodes[j]
        k, nm, p = nd['kind'], nd.get('inst', nd['name']), nd['params']     # optional 'inst': the INSTANCE name (leaves in different containers may share it); wires keep the unique nd['name']
        sysobj = conts[nd.get('dom', 0)]
        ins = [W[r] for r in nd['ins']]
        o = [W[('node', j, x)] for x in range(len(nd['outw']))]
        if k in ('And2', 'Or2'):
            leaves[j] = getattr(B, k)(sysobj, nm, ins[0], ins[1], o[0])
        elif k in ('Sub', 'Mul', 'SignedMul'):
            leaves[j] = getattr(A, k)(sysobj, nm, ins[0], ins[1], o[0])
        elif k == 'AddCarryIn':
            leaves[j] = A.AddCarryIn(sysobj, nm, ins[0], ins[1], o[0], ins[2])
        elif k in ('Not', 'Buf', 'Repeat'):
            leaves[j] = getattr(B, k)(sysobj, nm, ins[0], o[0])
        elif k in ('ZeroExtend', 'SignExtend'):
            leaves[j] = getattr(A, k)(sysobj, nm, ins[0], o[0])
        elif k == 'Mux2':
            leaves[j] = B.Mux2(sysobj, nm, ins[0], ins[1], ins[2], o[0])
        elif k == 'Constant':
            leaves[j] = B.Constant(sysobj, nm, p['value'], o[0])
        elif k in ('ShiftLeftConstant', 'ShiftRightConstant', 'RotateLeftConstant', 'RotateRightConstant'):
            leaves[j] = getattr(B, k)(sysobj, nm, ins[0], p['n'], o[0])
        elif k == 'Bit':
            leaves[j] = B.Bit(sysobj, nm, ins[0], p['bit'], o[0])
        elif k == 'Range':
            leaves[j] = B.Range(sysobj, nm, ins[0], p['high'], p['low'], o[0])
        elif k in ('ConcatenateLSBF', 'ConcatenateMSBF'):
            leaves[j] = getattr(B, k)(sysobj, nm, ins, o[0])
        elif k in ('BitsLSBF', 'BitsMSBF'):
            leaves[j] = getattr(B, k)(sysobj, nm, ins[0], o)
        elif k == 'Reg':
            it = iter(ins[1:])
            e = next(it) if p['has_e'] else None
            r = next(it) if p['has_r'] else None
            leaves[j] = S.Reg(sysobj, nm, ins[0], o[0], enable=e, reset=r, reset_value=p['reset_value'])
        elif k == 'Sequence':
            leaves[j] = SIM.Sequence(sysobj, nm, list(p['values']), o[0], once=p['once'])
        elif k in ('SynchronousMemory', 'AsynchronousMemory'):
            aw = p['aw']
            # address wires of exactly aw bits fed through Bufs (width adaptation by the wire mask)
            ra = top.wire(nd['name'] + '_ra', aw)
            wa = top.wire(nd['name'] + '_wa', aw)
            we = top.wire(nd['name'] + '_we', 1)
            wd = top.wire(nd['name'] + '_wd', nd['outw'][0])
            B.Buf(sysobj, nm + '_bra', ins[0], ra)
            B.Buf(sysobj, nm + '_bwa', ins[1], wa)
            B.Buf(sysobj, nm + '_bwe', ins[2], we)
            B.Buf(sysobj, nm + '_bwd', ins[3], wd)
            leaves[j] = getattr(S, k)(sysobj, nm, ra, wa, we, o[0], wd)
        elif k == 'AutoReset':
            leaves[j] = C.AutoReset(sysobj, nm, o[0])
        else:
            raise Exception('unknown kind ' + k)
        if nd.get('own_driver') is not None:
            if nd.get('own_driver_wire') is None:
                leaves[j].clockDriver = py4hw.ClockDriver(f'lclk{j}', base=top.clockDriver, enable=W[tuple(nd['own_driver'])])
            else:
                leaves[j].clockDriver = py4hw.ClockDriver(f'lclk{j}', base=top.clockDriver, enable=W[tuple(nd['own_driver'])],
                                                          wire=clock_wire_(nd['own_driver_wire'], nd.get('dom', 0), f'lck{j}'))
            leaves[j].clockDriver._verif_enable = W[tuple(nd['own_driver'])]
            leaves[j]._verif_driver = leaves[j].clockDriver
    inputs = [W[('in', i)] for i in range(len(plan['inputs']))]
    sysobj = top
    sysobj._containers = conts
    return sysobj, inputs, W, leaves


def random_ops(rng, inputs, n_ops, extreme=False):
    ops = []
    for _ in range(n_ops):
        if rng.chance(2, 3) and inputs:
            w = rng.choice(inputs)
            wd = w.getWidth()
            v = rng.bits(wd)
            if extreme and rng.chance(1, 3):
                v = rng.choice([-1, -(1 << wd), (1 << wd), (1 << (wd + 3)) + 5, -rng.randint(1, 1 << (wd + 2))])
            ops.append(('poke', w, v))
        else:
            ops.append(('clk', rng.choice([1, 1, 1, 2, 3])))
    ops.append(('clk', 1))
    return ops


def register_inputs(plan):
    """every reference to a primary input becomes a reference to a plain register fed by that input: after each clk() the
    combinational cloud sees NEW source values in the single propagation pass that follows the edge (a poked input is followed
    by two passes, which hides a single misplaced block)"""
    n = len(plan['nodes'])
    idx = {}
    for nd in plan['nodes']:
        for k, ref in enumerate(nd['ins']):
            if ref[0] == 'in':
                if ref[1] not in idx:
                    idx[ref[1]] = n + len(idx)
                nd['ins'][k] = ('node', idx[ref[1]], 0)
    for i, j in sorted(idx.items(), key=lambda kv: kv[1]):
        plan['nodes'].append({'kind': 'Reg', 'name': f'n{j}', 'ins': [('in', i)], 'outw': [plan['inputs'][i][1]], 'dom': 0,
                              'params': dict(has_e=0, has_r=0, reset_value=None)})
    return plan


def plan_summary(plan):
    return {'inputs': plan['inputs'], 'domains': plan.get('domains'),
            'nodes': [(n['kind'], n['ins'], n['outw'], n['params'], n.get('dom', 0), n.get('own_driver')) + ((n['own_driver_wire'],) if n.get('own_driver_wire') else ())
                      for n in plan['nodes']]}


def reg_chain_plan(rng, wmax=8):
    """register chains / rings with (partly shared, partly private) 1-bit resets and enables driven from inputs, nonzero reset
    values, a little combinational logic in between: the 'register chains, feedback' family of C05/C09"""
    w = rng.randint(1, wmax)
    plan = {'inputs': [('d', w), ('r0', 1), ('r1', 1), ('e0', 1), ('e1', 1)], 'nodes': [], 'domains': [{'parent': None, 'gated': False}]}
    n = rng.randint(2, 7)
    ring = rng.chance(1, 3)
    for j in range(n):
        src = ('in', 0) if j == 0 else ('node', j - 1, 0)
        if j == 0 and ring:
            src = ('node', n - 1, 0)
        has_r, has_e = rng.chance(2, 3), rng.chance(1, 2)
        ins = [src] + ([('in', rng.choice([3, 4]))] if has_e else []) + ([('in', rng.choice([1, 2]))] if has_r else [])
        plan['nodes'].append({'kind': 'Reg', 'name': f'n{j}', 'ins': ins, 'outw': [w], 'dom': 0,
                              'params': dict(has_e=int(has_e), has_r=int(has_r),
                                             reset_value=(None if rng.chance(1, 4) else rng.randint(0, (1 << w) - 1)))})
    # observers
    plan['nodes'].append({'kind': 'Not', 'name': f'n{n}', 'ins': [('node', rng.randint(0, n - 1), 0)], 'outw': [w], 'params': {}, 'dom': 0})
    return plan
