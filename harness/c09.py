"""C09 — Storage and sequential blocks follow their reference state machines.
See DESIGN.md §5 C09, lean/Py4hwV/Lib/Seq.lean (models + Spec.*), lean/Py4hwV/Props/C09.lean, notes/C09.md.

S2 streams
  T1            generated Reg / SynchronousMemory / AutoReset / used leaves vs the real methods (t1.validate_generated)
  block-model   every real library block, cycle by cycle (outputs after poke+settle and after the edge), vs the Lean
                model Lib.<block> run by Drv/C09.lean
  oracle        the reference machine Lib.Spec.<block> (evaluated by the same driver) on the outputs OBSERVED on the
                real block  -> res.fail with the concrete history.  A Python transcription of the same Spec machines
                (class PySpec below, cross-checked against the Lean Spec on every case: stream spec-transcription) is
                the fallback oracle when the Lean side does not build.
  net-sim       the flattened netlist of the real block vs Net.Sim running the generated leaves (dump_ir.NetBatch)
  netlist-import / netlist-run   the netlist builders of Lib/SeqNet.lean, Lib/SeqNetM.lean, Lib/SeqMem.lean = the live constructors'
                netlists; the list-state netlists (memories inside a netlist) are also RUN under Net.Sim by the driver and
                compared with the live simulator
  reach         exhaustive exploration of the reachable state graph (full simulator snapshot: wire values + leaf
                attributes) of tiny configurations: every transition from every reachable state vs model and Spec
"""
import os, json, itertools, contextlib, io
from common import *
import t1, dump_ir as D

OBLIGATIONS = [
    # register rule on the generated Reg.clock
    'C09.regClk_rule', 'C09.reg_rule', 'C09.reg_powerup', 'C09.regClk_nat',
    # generic simulation argument
    'C09.refines_of_sim', 'C09.trace_of_sim',
    # blocks
    'C09.treg_refines', 'C09.counter_refines', 'C09.stepUpCounter_refines', 'C09.eqConst_spec', 'C09.gen_bitsLSBF',
    'C09.moduloCounter_refines', 'C09.delayLine_refines', 'C09.delayLine_delay', 'C09.pipelinePhase_refines',
    'C09.shiftRegBidir_refines', 'C09.stack_lifo', 'C09.edgeDetector_refines', 'C09.clockDivider_refines',
    'C09.clockDivider_period', 'C09.syncMem_read_before_write', 'C09.autoReset_pulse',
    # specimen: flattened netlist under Net.Sim (generated leaves) = functional model
    'C09.edgeDetector_net',
    # netlist level (Props/C09Net.lean): constructor's netlist under Net.Sim = Lib model, for all histories
    'C09N.cycle', 'C09N.init_state', 'C09N.netTrace_sim', 'C09N.treg_net', 'C09N.counter_net', 'C09N.stepUpCounter_net',
    'C09N.delayLine_net', 'C09N.edgeDetector_netD', 'C09N.edgeDetector_netD_pre', 'C09N.shiftRegBidir_net', 'C09N.stack_net', 'C09N.pipelinePhase_net', 'C09N.reg_net',
    'SeqFlat.propagate_combfix', 'SeqFlat.edge_sim', 'SeqFlat.gen_reg_rule', 'C04.propagate_fixpoint', 'C05.leaf_sees_pre_edge',
    # netlist level on C01's multi-output flat netlists (Props/C09NetM.lean)
    'C09M.okb_sound', 'C09M.cycle', 'C09M.moduloCounter_net', 'C09M.clockDivider_net', 'FlatM.eqc_val', 'FlatM.edge_sim',
    'FlatM.propagate_combfix', 'FlatM.CertSrc.topoCheckG_sound',
    # dual-port memory: generated clock (Gen/C09.lean via harness/targets.d/C09.json)
    'C09.dualPort_read_before_write',
    # memories inside a netlist (Props/C09NetMem.lean; leaves with list state, stateful propagate)
    'SeqMem.propagate_fixpoint', 'SeqMem.propagate_propfix', 'SeqMem.edge_sim', 'C09S.cycle', 'C09S.init_state', 'C09S.init_attr',
    'C09S.netTrace_sim', 'C09S.smemQ_ck', 'C09S.dmemQ_ck', 'C09S.smem_embedded_from', 'C09S.smem_embedded', 'C09S.smem_embedded_content',
    'C09S.dmem_embedded', 'C09S.amem_pass', 'C09S.regQ_ck', 'C09S.ramPipeNet_ok', 'C09S.ramPipe_net', 'C09S.ramPipe_refines',
    'C09S.dpNet_ok', 'C09S.amNet_sched', 'C06.inv_clk', 'C06.inv_power_upC',
    # leaf bridges the block models rest on
    'Leaf.gen_and2', 'Leaf.gen_or2', 'Leaf.gen_not', 'Leaf.gen_buf', 'Leaf.gen_mux2', 'Leaf.gen_const', 'Leaf.gen_addc',
]



# ------------------------------------------------------------------------------------------------ real blocks
class Block:
    """a real py4hw block inside a fresh HWSystem"""

    def __init__(self, kind, p):
        self.kind, self.p = kind, p
        self.ins, self.outs = [], []      # [(field, Wire|None)], [Wire]
        with contextlib.redirect_stdout(io.StringIO()):
            self._build()
            self.sim = self.sys.getSimulator()

    def _build(self):
        import py4hw
        import py4hw.logic.storage as S
        import py4hw.logic.arithmetic as A
        import py4hw.logic.clock as C
        k, p = self.kind, self.p
        s = self.sys = py4hw.HWSystem()
        W = s.wire
        if k == 'Reg':
            d, q = W('d', p.get('dw', p['w'])), W('q', p['w'])
            e = W('e', p.get('ew', 1)) if p['hasE'] else None
            r = W('r', p.get('rw', 1)) if p['hasR'] else None
            S.Reg(s, 'dut', d, q, enable=e, reset=r, reset_value=p['rv'] if p.get('rv_given', True) else None)
            self.ins, self.outs = [('e', e), ('r', r), ('d', d)], [q]
        elif k == 'TReg':
            t, q = W('t', 1), W('q', 1)
            e = W('e', 1) if p['hasE'] else None
            r = W('r', 1) if p['hasR'] else None
            S.TReg(s, 'dut', t, q, enable=e, reset=r)
            self.ins, self.outs = [('t', t), ('e', e), ('r', r)], [q]
        elif k == 'Counter':
            q = W('q', p['w'])
            r = W('reset', 1) if p['hasReset'] else None
            i = W('inc', 1) if p['hasInc'] else None
            A.Counter(s, 'dut', r, i, q)
            self.ins, self.outs = [('reset', r), ('inc', i)], [q]
        elif k == 'StepUp':
            q = W('q', p['w'])
            r = W('reset', 1) if p['hasReset'] else None
            i = W('inc', 1) if p.get('hasInc', 1) else None
            st = W('step', p.get('sw', p['w']))
            A.StepUpCounter(s, 'dut', r, i, st, q)
            self.ins, self.outs = [('reset', r), ('inc', i), ('step', st)], [q]
        elif k == 'Mod':
            q, co = W('q', p['w']), W('co', 1)
            r, i = W('reset', 1), W('inc', 1)
            A.ModuloCounter(s, 'dut', p['mod'], r, i, q, co)
            self.ins, self.outs = [('reset', r), ('inc', i)], [q, co]
        elif k == 'Delay':
            a, r_ = W('a', p['w']), W('r', p['w'])
            en = W('en', 1) if p['hasEn'] else None
            rs = W('reset', 1) if p['hasReset'] else None
            S.DelayLine(s, 'dut', a, en, rs, r_, p['delay'])
            self.ins, self.outs = [('a', a), ('en', en), ('reset', rs)], [r_]
        elif k == 'Pipe':
            rs = W('reset', 1)
            ins = [W(f'i{j}', w) for j, w in enumerate(p.get('iws', p['ws']))]     # lane input may be wider / narrower than its register
            outs = [W(f'o{j}', w) for j, w in enumerate(p['ws'])]
            S.PipelinePhase(s, 'dut', rs, ins, outs)
            self.ins, self.outs = [('reset', rs)] + [(f'd{j}', x) for j, x in enumerate(ins)], outs
        elif k == 'Srb':
            w = p['w']
            li, ri, lo, ro = W('li', w), W('ri', w), W('lo', w), W('ro', w)
            sl, sr = W('sl', 1), W('sr', 1)
            S.ShiftRegisterBidirectional(s, 'dut', li, ri, lo, ro, sl, sr, p['depth'])
            self.ins, self.outs = [('li', li), ('ri', ri), ('sl', sl), ('sr', sr)], [lo, ro]
        elif k == 'Stack':
            w = p['w']
            din, dout, push, pop = W('din', w), W('dout', w), W('push', 1), W('pop', 1)
            em = W('empty', 1) if p.get('flags') else None
            fu = W('full', 1) if p.get('flags') else None
            S.Stack_ShiftRegister(s, 'dut', din, dout, push, pop, em, fu, p['depth'])
            self.ins, self.outs = [('din', din), ('push', push), ('pop', pop)], [dout]
        elif k == 'Edge':
            a, r_ = W('a', 1), W('r', 1)
            C.EdgeDetector(s, 'dut', a, r_, ['pos', 'neg', 'both'][p['dir']])
            self.ins, self.outs = [('a', a)], [r_]
        elif k == 'Div':
            co = W('clkout', 1)
            rs = W('reset', 1) if p.get('hasReset', 1) else None
            dut = C.ClockDivider(s, 'dut', p['fin'], p['fout'], co, reset=rs)
            # n and qw are computed with floats in the constructor: read them back from the built object
            mc = dut.children['count']
            p['n'] = mc.children['eq{}'.format(self._mod_of(mc))].v + 1
            p['qw'] = mc.outPorts[0].wire.getWidth()
            # what the documentation promises, computed independently of the constructor: clkout = freq_in / (2 n)
            p['n_spec'] = int(p['fin'] // (2 * p['fout']))
            self.ins, self.outs = [('reset', rs)], [co]
        elif k == 'Mem':
            ra, wa = W('ra', p['aw']), W('wa', p['aw'])
            we, rd, wd = W('we', 1), W('rd', p['dw']), W('wd', p.get('wdw', p['dw']))
            S.SynchronousMemory(s, 'dut', ra, wa, we, rd, wd)
            self.ins, self.outs = [('ra', ra), ('wa', wa), ('we', we), ('wd', wd)], [rd]
        elif k == 'DualPort':
            ws = {}
            for port in 'ab':
                ws[port] = [W('ra' + port, p['aw']), W('wa' + port, p['aw']), W('we' + port, 1), W('rd' + port, p['dw']),
                            W('wd' + port, p.get('wdw', p['dw']))]
            a, b = ws['a'], ws['b']
            S.DualPortSynchronousMemory(s, 'dut', a[0], a[1], a[2], a[3], a[4], b[0], b[1], b[2], b[3], b[4])
            self.ins = [('raa', a[0]), ('waa', a[1]), ('wea', a[2]), ('wda', a[4]), ('rab', b[0]), ('wab', b[1]),
                        ('web', b[2]), ('wdb', b[4])]
            self.outs = [a[3], b[3]]
        elif k == 'AutoReset':
            r_ = W('reset', 1)
            C.AutoReset(s, 'dut', r_)
            self.ins, self.outs = [('dummy', None)], [r_]
        elif k == 'RamPipe':
            # a memory INSIDE a netlist (Lib/SeqMem.lean ramPipeNet): address driven by a register, readdata feeding a
            # register through a combinational leaf.  Wire names = canonical numbering of the Lean builder.
            from py4hw.logic.bitwise import Buf
            aw, dw, ww = p['aw'], p['dw'], p.get('ww', p['dw'])
            ws = [W('w1', aw), W('w2', aw), W('w3', 1), W('w4', ww), W('w5', aw), W('w6', dw), W('w7', dw), W('w8', dw)]
            S.Reg(s, 'ra_reg', ws[0], ws[4])
            S.SynchronousMemory(s, 'mem', ws[4], ws[1], ws[2], ws[5], ws[3])
            Buf(s, 'rdbuf', ws[5], ws[6])
            S.Reg(s, 'out_reg', ws[6], ws[7])
            self.ins, self.outs = [('ra', ws[0]), ('wa', ws[1]), ('we', ws[2]), ('wd', ws[3])], [ws[7]]
            self.canon = ws
        elif k == 'DpNet':
            from py4hw.logic.bitwise import Buf
            aw, dw = p['aw'], p['dw']
            wd_ = [aw, aw, 1, dw, dw, aw, aw, 1, dw, dw, dw]
            ws = [W(f'w{j + 1}', x) for j, x in enumerate(wd_)]
            S.DualPortSynchronousMemory(s, 'mem', ws[0], ws[1], ws[2], ws[4], ws[3], ws[5], ws[6], ws[7], ws[9], ws[8])
            Buf(s, 'abuf', ws[4], ws[10])
            # the bench pokes wires 1..9 — including wire 5 = readdata_a, a DRIVEN wire (the theorems allow arbitrary pokes)
            self.ins, self.outs = [(f'w{j + 1}', ws[j]) for j in range(9)], [ws[4], ws[9], ws[10]]
            self.canon = ws
        elif k == 'AmNet':
            from py4hw.logic.bitwise import Buf
            aw, dw = p['aw'], p['dw']
            wd_ = [aw, aw, 1, dw, dw, dw]
            ws = [W(f'w{j + 1}', x) for j, x in enumerate(wd_)]
            S.AsynchronousMemory(s, 'mem', ws[0], ws[1], ws[2], ws[4], ws[3])
            Buf(s, 'obuf', ws[4], ws[5])
            self.ins, self.outs = [(f'w{j + 1}', ws[j]) for j in range(4)], [ws[4], ws[5]]
            self.canon = ws
        else:
            raise ValueError(k)

    @staticmethod
    def _mod_of(mc):
        for name in mc.children:
            if name.startswith('eq'):
                return int(name[2:])
        raise KeyError('eq')

    def apply(self, step):
        """poke; returns the values actually on the input wires (after the wire mask)"""
        eff = []
        for (f, w), v in zip(self.ins, step):
            if w is None:
                eff.append(0 if self.kind != 'StepUp' or f != 'inc' else 1)
            else:
                w.put(v)
                eff.append(w.get())
        return eff

    def observe(self):
        return [w.get() for w in self.outs]

    def run(self, hist):
        """returns (effective history, trace [(pre, post)]) ; raises what the implementation raises"""
        eff, tr = [], []
        for st in hist:
            e = self.apply(st)
            self.sim.clk(0)
            pre = self.observe()
            self.sim.clk(1)
            tr.append((pre, self.observe()))
            eff.append(e)
        return eff, tr

    # -- full snapshot (wire values + leaf attributes) for the reachable-state exploration
    def snap_init(self):
        self.wires = D.all_wires(self.sys)
        self.leaves = self.sys.allLeaves()
        self.clk_out_wires = []
        for l in self.leaves:
            if l.isClockable():
                self.clk_out_wires += [pt.wire for pt in l.outPorts]

    @staticmethod
    def _attrs(l):
        n = type(l).__name__
        if n == 'Reg':
            return ('v', l.value)
        if n in ('SynchronousMemory', 'DualPortSynchronousMemory', 'AsynchronousMemory'):
            return ('m', tuple(l.data))
        if n == 'AutoReset':
            return ('s', l.state)
        return None

    def snapshot(self):
        return (tuple(w.value for w in self.wires), tuple(self._attrs(l) for l in self.leaves))

    def key(self):
        return (tuple(w.value for w in self.clk_out_wires), tuple(self._attrs(l) for l in self.leaves))

    def restore(self, sn):
        for w, v in zip(self.wires, sn[0]):
            w.value = v
        for l, a in zip(self.leaves, sn[1]):
            if a is None:
                continue
            if a[0] == 'v':
                l.value = a[1]
            elif a[0] == 'm':
                l.data = list(a[1])
            elif a[0] == 's':
                l.state = a[1]


def driver_params(kind, p):
    if kind == 'Reg':
        return [p['w'], p['rv'], int(p['hasE']), int(p['hasR'])]
    if kind == 'TReg':
        return [int(p['hasE']), int(p['hasR'])]
    if kind == 'Counter':
        return [p['w'], int(p['hasReset']), int(p['hasInc'])]
    if kind == 'StepUp':
        return [p['w'], int(p['hasReset']), int(p.get('hasInc', 1))]
    if kind == 'Mod':
        return [p['w'], p['mod']]
    if kind == 'Delay':
        return [p['w'], p['delay'], int(p['hasEn']), int(p['hasReset'])]
    if kind == 'Pipe':
        return list(p['ws'])
    if kind in ('Srb', 'Stack'):
        return [p['w'], p['depth']]
    if kind == 'Pipe':
        return list(p['ws'])
    if kind == 'Edge':
        return [p['dir']]
    if kind == 'Div':
        return [p['n'], p['qw'], p['n_spec']]
    if kind in ('Mem', 'DualPort', 'RamPipe'):
        return [p['aw'], p['dw']]
    return []


def field_widths(blk):
    return [(f, (w.getWidth() if w is not None else 0)) for f, w in blk.ins]


# ------------------------------------------------------------------------------------------------ the Spec, in Python
class PySpec:
    """transcription of Lib.Spec.* (lean/Py4hwV/Lib/Seq.lean) — of the SPEC machines, not of the library code.
    Cross-checked against the Lean Spec through the driver on every case (stream spec-transcription)."""

    def __init__(self, kind, p):
        self.k, self.p = kind, p
        k = kind
        if k == 'Reg':
            self.s = p['rv'] % (1 << p['w'])
        elif k in ('TReg', 'Counter', 'StepUp', 'Mod', 'Edge', 'AutoReset'):
            self.s = 0
        elif k == 'Delay':
            self.s = [0] * p['delay']
        elif k == 'Pipe':
            self.s = [0] * len(p['ws'])
        elif k == 'Srb':
            self.s = [0] * p['depth']
        elif k == 'Stack':
            self.s = ([], 0)
            self.within = True
        elif k == 'Div':
            self.s = (0, 0)
        elif k == 'Mem':
            self.s = ({}, 0)
        elif k == 'DualPort':
            self.s = ({}, 0, 0)
        elif k == 'RamPipe':
            self.s = (0, {}, 0, 0)      # address register, memory, readdata, output register

    def step(self, i):
        k, p, s = self.k, self.p, self.s
        if k == 'Reg':
            e, r, d = i
            if p['hasR'] and r == 1:
                s = p['rv'] % (1 << p['w'])
            elif p['hasE'] and e == 0:
                pass
            else:
                s = d % (1 << p['w'])
        elif k == 'TReg':
            t, e, r = i
            if p['hasR'] and r == 1:
                s = 0
            elif p['hasE'] and e == 0:
                pass
            elif t % 2 == 1:
                s = 1 - s
        elif k in ('Counter', 'StepUp'):
            if k == 'Counter':
                reset = i[0] if p['hasReset'] else 0
                inc = i[1] if p['hasInc'] else 1
                stp = 1
            else:
                reset = i[0] if p['hasReset'] else 0
                inc, stp = (i[1] if p.get('hasInc', 1) else 1), i[2]
            if reset % 2 == 1:
                s = 0
            elif inc % 2 == 1:
                s = (s + stp) % (1 << p['w'])
        elif k == 'Mod':
            if i[0] % 2 == 1:
                s = 0
            elif i[1] % 2 == 1:
                s = (s + 1) % p['mod']
        elif k == 'Delay':
            a, en, rs = i
            if p['hasReset'] and rs == 1:
                s = [0] * p['delay']
            elif p['hasEn'] and en == 0:
                pass
            else:
                s = ([a % (1 << p['w'])] + s)[:p['delay']]
        elif k == 'Pipe':
            if i[0] == 1:
                s = [0] * len(p['ws'])
            else:
                s = [d % (1 << w) for w, d in zip(p['ws'], i[1:])]
        elif k == 'Srb':
            li, ri, sl, sr = i
            if sl % 2 == 1:
                s = s[1:] + [ri % (1 << p['w'])]
            elif sr % 2 == 1:
                s = ([li % (1 << p['w'])] + s)[:p['depth']]
        elif k == 'Stack':
            din, push, pop = i
            stk, dout = s
            if pop % 2 == 1:
                s = (stk[1:], stk[0] if stk else 0)
            elif push % 2 == 1:
                if len(stk) >= p['depth']:
                    self.within = False
                s = ([din % (1 << p['w'])] + stk, dout)
        elif k == 'Edge':
            s = i[0] % 2
        elif k == 'Div':
            if i[0] == 1:
                s = (0, 0)
            elif s[0] == p['n_spec'] - 1:
                s = (0, 1 - s[1])
            else:
                s = (s[0] + 1, s[1])
        elif k == 'Mem':
            ra, wa, we, wd = i
            mem, _ = s
            rd = mem.get(ra, 0) % (1 << p['dw'])
            if we != 0:
                mem = dict(mem)
                mem[wa] = wd
            s = (mem, rd)
        elif k == 'DualPort':
            mem, _, _ = s
            rda, rdb = mem.get(i[0], 0) % (1 << p['dw']), mem.get(i[4], 0) % (1 << p['dw'])
            mem = dict(mem)
            if i[2] != 0:
                mem[i[1]] = i[3]
            if i[6] != 0:
                mem[i[5]] = i[7]
            s = (mem, rda, rdb)
        elif k == 'RamPipe':
            ra, wa, we, wd = i
            raq, mem, rd, out = s
            nmem = mem
            if we != 0:
                nmem = dict(mem)
                nmem[wa] = wd
            s = (ra, nmem, mem.get(raq, 0) % (1 << p['dw']), rd)
        elif k == 'AutoReset':
            s = s + 1
        self.s = s

    def out(self, i):
        k, p, s = self.k, self.p, self.s
        if k in ('Reg', 'TReg', 'Counter', 'StepUp'):
            return [s]
        if k == 'Mod':
            return [s, 1 if s == p['mod'] - 1 else 0]
        if k == 'Delay':
            return [(s[-1] if s else i[0]) % (1 << p['w'])]
        if k == 'Pipe':
            return list(s)
        if k == 'Srb':
            return [s[0] if s else 0, s[-1] if s else 0]
        if k == 'Stack':
            return [s[1]]
        if k == 'Edge':
            a = i[0] % 2
            d = p['dir']
            return [int(a == 1 and s == 0) if d == 0 else int(a == 0 and s == 1) if d == 1 else int(a != s)]
        if k == 'Div':
            return [s[1]]
        if k == 'Mem':
            return [s[1]]
        if k == 'DualPort':
            return [s[1], s[2]]
        if k == 'RamPipe':
            return [s[3]]
        if k == 'AutoReset':
            return [1 if s in (1, 2) else 0]

    def trace(self, hist):
        """[(pre, post, pre_claimed, claimed)] ; claimed=False where the property makes no claim (stack after an
        overflow)"""
        tr = []
        for n, i in enumerate(hist):
            pre = self.out(i)
            pre_claimed = getattr(self, 'within', True)
            self.step(i)
            tr.append((pre, self.out(i), pre_claimed, getattr(self, 'within', True)))
        return tr


# ------------------------------------------------------------------------------------------------ generators
def rand_params(kind, r, tier):
    big = tier != 'quick'
    W = lambda: r.choice([1, 2, 3, 4, 5, 8] + ([13, 16, 31, 32, 33, 64] if big or r.chance(1, 4) else []))
    if kind == 'Reg':
        w = W()
        rvk = r.randint(0, 5)
        rv = 0 if rvk == 0 else r.bits(w) if rvk < 4 else r.randint(-(1 << w), (1 << (w + 1)))
        p = dict(w=w, rv=rv, hasE=r.chance(2, 3), hasR=r.chance(2, 3))
        if r.chance(1, 3):
            p['dw'] = max(1, w + r.choice([-2, -1, 1, 2, 3]))          # d narrower / wider than q
        if r.chance(1, 4):
            p['ew'] = 2
        if r.chance(1, 4):
            p['rw'] = 2
        return p
    if kind == 'TReg':
        return dict(hasE=r.chance(2, 3), hasR=r.chance(2, 3))
    if kind == 'Counter':
        return dict(w=W(), hasReset=r.chance(3, 4), hasInc=r.chance(3, 4))
    if kind == 'StepUp':
        w = W()
        p = dict(w=w, hasReset=r.chance(3, 4), hasInc=int(r.chance(3, 4)))
        if r.chance(1, 2):                                             # step narrower / wider than the count
            p['sw'] = r.choice(list(range(1, w)) + [w + 1, w + 2])
        return p
    if kind == 'Mod':
        w = r.choice([1, 2, 3, 4, 5, 8] + ([12] if big else []))
        return dict(w=w, mod=r.randint(1, 1 << w) if r.chance(3, 4) else r.choice([1, 2, 1 << w, (1 << w) - 1 or 1]))
    if kind == 'Delay':
        return dict(w=W(), delay=r.randint(0, 6 if not big else 12), hasEn=r.chance(2, 3), hasReset=r.chance(2, 3))
    if kind == 'Pipe':
        p = dict(ws=[W() for _ in range(r.randint(1, 5))])
        if r.chance(1, 2):                                             # lane inputs narrower / wider than the lane registers
            p['iws'] = [max(1, w + r.choice([-1, 0, 1, 2])) for w in p['ws']]
        return p
    if kind == 'Srb':
        return dict(w=W(), depth=r.randint(1, 6 if not big else 12))
    if kind == 'Stack':
        return dict(w=W(), depth=r.randint(1, 6 if not big else 12), flags=r.chance(1, 2))
    if kind == 'Edge':
        return dict(dir=r.randint(0, 2))
    if kind == 'Div':
        n = r.randint(1, 12 if not big else 40)
        # freq_in/(2*freq_out) = n exactly, or with a fractional part (constructor truncates and warns)
        fout = r.choice([1, 5, 50])
        return dict(fin=2 * fout * n + r.choice([0, 0, fout]), fout=fout, hasReset=r.chance(2, 3))
    if kind == 'RamPipe':
        dw = W()
        return dict(aw=r.randint(1, 4 if not big else 6), dw=dw, ww=max(1, dw + r.choice([-2, -1, 0, 0, 1, 2])))
    if kind in ('Mem', 'DualPort'):
        p = dict(aw=r.randint(1, 4 if not big else 6), dw=W())
        if r.chance(1, 3):                                             # writedata narrower / wider than readdata
            p['wdw'] = max(1, p['dw'] + r.choice([-2, -1, 1, 2]))
        return p
    return {}


def rand_hist(kind, blk, r, n):
    """control wires follow per-history biases so that long runs, alternations and all interleavings occur"""
    fw = field_widths(blk)
    bias = {f: r.choice([(1, 8), (1, 2), (7, 8), (1, 1), (0, 1)]) for f, w in fw}
    if kind == 'Stack':
        bias['push'] = r.choice([(1, 2), (3, 4), (7, 8)])
        bias['pop'] = r.choice([(1, 8), (1, 3), (1, 2)])
    hist = []
    level, keep_within = 0, (kind == 'Stack' and r.chance(2, 3))
    for _ in range(n):
        st = []
        for f, w in fw:
            if w == 0:
                st.append(0)
            elif f in ('e', 'r', 'reset', 'inc', 'en', 'sl', 'sr', 'push', 'pop', 'we', 'wea', 'web', 't', 'a') and w <= 2 \
                    and not (kind == 'Delay' and f == 'a'):
                b = bias[f]
                v = 1 if r.chance(*b) else 0
                if w == 2 and r.chance(1, 3):
                    v = r.randint(0, 3)
                st.append(v)
            elif r.chance(1, 4):      # boundary values of the field: 0, 1, top bit only, all ones, all ones but the top bit
                st.append(r.choice([0, 1, 1 << (w - 1), (1 << w) - 1, (1 << (w - 1)) - 1]))
            else:
                st.append(r.bits(w) if not r.chance(1, 10) else r.randint(0, (1 << (w + 1))))
        if kind == 'Stack':
            names = [f for f, _ in fw]
            ipush, ipop = names.index('push'), names.index('pop')
            if keep_within and st[ipush] and not st[ipop] and level >= blk.p['depth']:
                st[ipush] = 0
            level = max(level - 1, 0) if st[ipop] else level + 1 if st[ipush] else level
        hist.append(st)
    return hist


NET_SIM_STEPS = 24
KINDS = ['Reg', 'TReg', 'Counter', 'StepUp', 'Mod', 'Delay', 'Pipe', 'Srb', 'Stack', 'Edge', 'Div', 'Mem', 'DualPort', 'AutoReset', 'RamPipe']


def enc_line(kind, p, eff):
    return f"run {kind} | {','.join(str(x) for x in driver_params(kind, p))} | " + ';'.join(','.join(str(v) for v in st) for st in eff)


def parse_trace(s, nout):
    s = s.strip()
    if not s:
        return []
    out = []
    for st in s.split(';'):
        v = [int(x) for x in st.split(',') if x != '']
        out.append((v[:len(v) // 2], v[len(v) // 2:]))
    return out


# ------------------------------------------------------------------------------------------------ checking one case
class Cases:
    """collects (kind, params, effective history, real trace) and checks them in one driver session"""

    def __init__(self, res):
        self.res, self.items = res, []

    def add(self, kind, p, eff, real, tag, only_last=False):
        self.items.append((kind, dict(p), eff, real, tag, only_last))

    def oracle_py(self, kind, p, eff, real, tag, only_last):
        """Spec (Python transcription) on the observed outputs; returns the python spec trace"""
        sp = PySpec(kind, p).trace(eff)
        if kind == 'Stack' and not only_last:
            self.res.hist('stack_history', 'within-depth' if all(x[3] for x in sp) else 'overflows (LIFO claim made up to the overflow)')
        rng_ = range(len(eff) - 1, len(eff)) if only_last else range(len(eff))
        for n in rng_:
            pre, post, pre_claimed, claimed = sp[n]
            rpre, rpost = real[n]
            bad = None
            if pre_claimed and rpre != pre:
                bad = ('before-edge', pre, rpre)
            elif claimed and rpost != post:
                bad = ('after-edge', post, rpost)
            if bad:
                self.res.fail(f'{kind}: output {bad[0]} {n + 1} is {bad[2]}, reference machine says {bad[1]}',
                              dict(block=kind, params=p, history=eff[:n + 1], fields=FIELDS.get(kind), step=n + 1,
                                   at=bad[0], expected=bad[1], observed=bad[2], stream=tag,
                                   rerun='harness/c09.py: Block(kind, params).run(history)'))
                break
        return sp

    def flush(self):
        res = self.res
        items, self.items = self.items, []
        if not items:
            return
        sps = [self.oracle_py(*it) for it in items]      # always: the oracle on the real implementation
        try:
            outs = run_driver('Drv/C09.lean', [enc_line(k, p, eff) for k, p, eff, _, _, _ in items])
        except ToolFailure as e:
            res.broken.append(('correspondence', 'block-model', 'driver does not run: ' + str(e)[:300]))
            return
        for (kind, p, eff, real, tag, only_last), ans, sp in zip(items, outs, sps):
            parts = [x.strip() for x in ans.split('|')]
            if len(parts) < 2:
                res.disagree('block-model', dict(block=kind, params=p, answer=ans))
                continue
            mt, st = parse_trace(parts[0], 0), parse_trace(parts[1], 0)
            rng_ = range(len(eff) - 1, len(eff)) if only_last else range(len(eff))
            for n in rng_:
                if n >= len(mt) or (list(mt[n][0]), list(mt[n][1])) != (list(real[n][0]), list(real[n][1])):
                    res.disagree('block-model', dict(block=kind, params=p, history=eff[:n + 1], step=n + 1,
                                                     model=mt[n] if n < len(mt) else None, real=real[n], stream=tag))
                    break
            # Lean Spec vs its Python transcription, and Lean Spec as the oracle proper
            for n in rng_:
                pre, post, pre_claimed, claimed = sp[n]
                if n >= len(st) or (pre_claimed and list(st[n][0]) != pre) or (claimed and list(st[n][1]) != post):
                    res.disagree('spec-transcription', dict(block=kind, params=p, history=eff[:n + 1], step=n + 1,
                                                            lean_spec=st[n] if n < len(st) else None, py_spec=(pre, post)))
                    break
            if kind == 'Stack' and not only_last and len(parts) > 2:
                within = all(x[3] for x in sp)
                if (parts[2] == '1') != within:
                    res.disagree('spec-transcription', dict(block=kind, params=p, what='within-depth flag', lean=parts[2], py=within))


FIELDS = {'Reg': 'e,r,d', 'TReg': 't,e,r', 'Counter': 'reset,inc', 'StepUp': 'reset,inc,step', 'Mod': 'reset,inc',
          'Delay': 'a,en,reset', 'Pipe': 'reset,d0..', 'Srb': 'left_in,right_in,shift_left,shift_right',
          'Stack': 'din,push,pop', 'Edge': 'a', 'Div': 'reset', 'Mem': 'ra,wa,we,wd',
          'DualPort': 'ra_a,wa_a,we_a,wd_a,ra_b,wa_b,we_b,wd_b', 'AutoReset': '-', 'RamPipe': 'ra,wa,we,wd'}


def ctl_signature(kind, st):
    if kind == 'Reg':
        return f'r{min(st[1], 2)}e{min(st[0], 2)}'
    if kind in ('Counter', 'StepUp', 'Mod'):
        return f'reset{st[0]}inc{st[1]}'
    if kind == 'Stack':
        return f'push{st[1]}pop{st[2]}'
    if kind == 'Srb':
        return f'sl{st[2]}sr{st[3]}'
    if kind == 'Delay':
        return f'en{st[1]}reset{st[2]}'
    if kind == 'TReg':
        return f't{st[0]}e{st[1]}r{st[2]}'
    if kind in ('Mem', 'RamPipe'):
        return f'we{st[2]}' + ('_same' if st[0] == st[1] else '')
    if kind == 'DualPort':
        return f'wea{st[2]}web{st[6]}' + ('_collide' if st[1] == st[5] else '') + ('_bReadsAWrite' if st[4] == st[1] else '')
    return None


def run_case(res, cases, kind, p, hist, tag, nb=None):
    try:
        blk = Block(kind, p)
    except Exception as e:
        res.fail(f'{kind} constructor raises {type(e).__name__}: {e}',
                 dict(block=kind, params=p, error=type(e).__name__, at='constructor'))
        return None
    try:
        eff, real = blk.run(hist)
    except Exception as e:
        res.fail(f'{kind} raises {type(e).__name__} during simulation: {e}',
                 dict(block=kind, params=p, history=hist, error=type(e).__name__, at='clk'))
        return None
    cases.add(kind, p, eff, real, tag)
    res.count((kind, str(sorted(p.items())), str(eff)), hist={'block': kind})
    for st in eff:
        sg = ctl_signature(kind, st)
        if sg:
            res.hist('ctl_' + kind, sg)
    if nb is not None and kind != 'DualPort':     # extension-translated class: not in Gen.dynStep
        # the same history on a second instance, flattened netlist vs Net.Sim running the generated leaves
        try:
            b2 = Block(kind, p)
            ops = []
            for st in hist[:NET_SIM_STEPS]:      # Net.Sim is interpreted with closure-chained wire maps: keep its runs short
                for (f, w), v in zip(b2.ins, st):
                    if w is not None:
                        ops.append(('poke', w, v))
                ops += [('clk', 0), ('clk', 1)]
            nb.add(b2.sys, ops, sim=b2.sim, label=f'{kind}:{driver_params(kind, p)}')
            res.hist('net_sim_designs', kind)
        except D.NotDumpable as e:
            res.hist('net_sim_not_dumpable', str(e))
    return blk


# ------------------------------------------------------------------------------------------------ reachable states
def tiny_configs(tier):
    T = [('Reg', dict(w=2, rv=1, hasE=True, hasR=True)), ('Reg', dict(w=1, rv=1, hasE=False, hasR=True)),
         ('Reg', dict(w=2, rv=3, hasE=True, hasR=False)),
         ('TReg', dict(hasE=True, hasR=True)), ('TReg', dict(hasE=False, hasR=False)),
         ('Counter', dict(w=2, hasReset=True, hasInc=True)), ('Counter', dict(w=2, hasReset=False, hasInc=False)),
         ('StepUp', dict(w=2, hasReset=True, hasInc=1)),
         ('Mod', dict(w=2, mod=3)), ('Mod', dict(w=2, mod=4)), ('Mod', dict(w=1, mod=1)), ('Mod', dict(w=3, mod=5)),
         ('Delay', dict(w=1, delay=2, hasEn=True, hasReset=True)), ('Delay', dict(w=2, delay=0, hasEn=False, hasReset=False)),
         ('Pipe', dict(ws=[1, 2])),
         ('Srb', dict(w=1, depth=2)), ('Srb', dict(w=1, depth=1)), ('Srb', dict(w=1, depth=3)),
         ('Stack', dict(w=1, depth=2, flags=True)), ('Stack', dict(w=2, depth=1, flags=False)),
         ('Edge', dict(dir=0)), ('Edge', dict(dir=1)), ('Edge', dict(dir=2)),
         ('Div', dict(fin=4, fout=1, hasReset=1)), ('Div', dict(fin=6, fout=1, hasReset=1)), ('Div', dict(fin=2, fout=1, hasReset=0)),
         ('Mem', dict(aw=1, dw=1)), ('DualPort', dict(aw=1, dw=1)), ('StepUp', dict(w=2, hasReset=True, hasInc=0)), ('AutoReset', dict()),
         # operand widths different from the state width (narrower and wider)
         ('StepUp', dict(w=3, hasReset=True, hasInc=1, sw=2)), ('StepUp', dict(w=2, hasReset=True, hasInc=0, sw=3)),
         ('Reg', dict(w=3, rv=5, hasE=True, hasR=True, dw=2)), ('Reg', dict(w=1, rv=0, hasE=True, hasR=True, dw=2)),
         ('Pipe', dict(ws=[2, 1], iws=[1, 2])), ('Mem', dict(aw=1, dw=2, wdw=1)),
         # a memory inside a netlist (address register -> SynchronousMemory -> Buf -> output register)
         ('RamPipe', dict(aw=1, dw=1, ww=1))]
    if tier != 'quick':
        T += [('Reg', dict(w=3, rv=5, hasE=True, hasR=True, ew=2, rw=2)),
              ('Counter', dict(w=4, hasReset=True, hasInc=True)), ('StepUp', dict(w=3, hasReset=True, hasInc=1)),
              ('Mod', dict(w=4, mod=11)), ('Mod', dict(w=4, mod=16)), ('Mod', dict(w=3, mod=8)), ('Mod', dict(w=3, mod=7)),
              ('Delay', dict(w=2, delay=3, hasEn=True, hasReset=True)), ('Delay', dict(w=1, delay=5, hasEn=True, hasReset=False)),
              ('Pipe', dict(ws=[2, 1, 2])),
              ('Srb', dict(w=2, depth=3)), ('Srb', dict(w=1, depth=6)), ('Stack', dict(w=2, depth=3, flags=True)),
              ('Stack', dict(w=1, depth=5, flags=False)),
              ('Div', dict(fin=10, fout=1, hasReset=1)), ('Div', dict(fin=14, fout=1, hasReset=1)), ('Div', dict(fin=16, fout=1, hasReset=1)),
              ('Mem', dict(aw=1, dw=2)), ('Mem', dict(aw=2, dw=1)),
              ('Reg', dict(w=4, rv=9, hasE=True, hasR=True)), ('Reg', dict(w=2, rv=-1, hasE=True, hasR=True, dw=3)),
              ('Counter', dict(w=6, hasReset=True, hasInc=True)), ('Counter', dict(w=3, hasReset=True, hasInc=False)),
              ('StepUp', dict(w=4, hasReset=True, hasInc=1)), ('StepUp', dict(w=3, hasReset=False, hasInc=1, sw=2)),
              ('Mod', dict(w=5, mod=32)), ('Mod', dict(w=5, mod=17)), ('Mod', dict(w=6, mod=33)), ('Mod', dict(w=2, mod=1)),
              ('Mod', dict(w=2, mod=2)),
              ('Delay', dict(w=1, delay=8, hasEn=True, hasReset=True)), ('Delay', dict(w=3, delay=2, hasEn=True, hasReset=True)),
              ('Delay', dict(w=1, delay=1, hasEn=False, hasReset=True)),
              ('Pipe', dict(ws=[3])), ('Pipe', dict(ws=[1, 1, 1, 1])),
              ('Srb', dict(w=3, depth=2)), ('Srb', dict(w=1, depth=8)), ('Srb', dict(w=2, depth=4)),
              ('Stack', dict(w=3, depth=2, flags=False)), ('Stack', dict(w=1, depth=8, flags=True)), ('Stack', dict(w=2, depth=4, flags=True)),
              ('Div', dict(fin=2 * 23, fout=1, hasReset=1)), ('Div', dict(fin=64, fout=1, hasReset=1)), ('Div', dict(fin=66, fout=1, hasReset=0)),
              ('Div', dict(fin=2 * 100, fout=1, hasReset=1)),
              ('Mem', dict(aw=2, dw=2)), ('Mem', dict(aw=1, dw=2, wdw=3)), ('DualPort', dict(aw=1, dw=2)),
              ('Pipe', dict(ws=[2, 2], iws=[3, 1])), ('Mem', dict(aw=1, dw=1, wdw=2)), ('DualPort', dict(aw=1, dw=2, wdw=1)),
              ('RamPipe', dict(aw=1, dw=2, ww=1)), ('RamPipe', dict(aw=2, dw=1, ww=1)),
              ('StepUp', dict(w=3, hasReset=False, hasInc=0))]
    return T


def explore(res, cases, kind, p, max_states):
    """BFS over the reachable states of the REAL block; every (state, input) transition is compared"""
    try:
        blk = Block(kind, p)
    except Exception as e:
        res.fail(f'{kind} constructor raises {type(e).__name__}: {e}', dict(block=kind, params=p, error=type(e).__name__, at='constructor'))
        return
    blk.snap_init()
    alphabet = list(itertools.product(*[range(1 << w) if w else [0] for f, w in field_widths(blk)]))
    seen = {blk.key(): ([], blk.snapshot())}
    todo = [blk.key()]
    n_edges = 0
    while todo:
        k = todo.pop(0)
        path, sn = seen[k]
        for inp in alphabet:
            blk.restore(sn)
            try:
                eff, real = blk.run([list(inp)])
            except Exception as e:
                res.fail(f'{kind} raises {type(e).__name__} during simulation', dict(block=kind, params=p, history=path + [list(inp)],
                                                                                     error=type(e).__name__, at='clk'))
                return
            n_edges += 1
            h = path + [eff[0]]
            cases.add(kind, p, h, [None] * len(path) + real, 'reach', only_last=True)
            k2 = blk.key()
            if k2 not in seen and len(seen) < max_states:
                seen[k2] = (h, blk.snapshot())
                todo.append(k2)
    res.hist('reach_states', f'{kind}:{driver_params(kind, p)}', len(seen))
    res.hist('reach_transitions', kind, n_edges)
    res.cov['evaluations'] += n_edges
    if len(seen) >= max_states:
        res.hist('reach_truncated', kind)


# ------------------------------------------------------------------------------------------------ netlist import
# canonical wire numbering of the netlist builders in lean/Py4hwV/Lib/SeqNet.lean, by wire NAME (path below the block)
NETMAP = {
    'TReg': {'t': 1, 'q': 2, 'e': 3, 'r': 4, 'nq': 5, 'd': 6},
    'Counter': {'q': 1, 'reset': 2, 'inc': 3, 'one': 4, 'zero': 5, 'add': 6, 'd': 7, 'd1': 8, 'e_add': 9, 'add/ci': 10},
    'Reg': {'d': 1, 'q': 2, 'e': 3, 'r': 4},
    'Edge': {'a': 1, 'r': 2, 'z1': 3, 'na': 4, 'nz1': 5, 'r/Mid': 6, 'r/XOut': 7, 'r/YOut': 8, 'r/NandMid/Mid': 9,
             'r/NandX/Mid': 10, 'r/NandY/Mid': 11, 'r/NandR/Mid': 12},
    'Delay': dict([('a', 1), ('r', 2), ('en', 3), ('reset', 4)] + [(f'r{j}', 5 + j) for j in range(64)]),
    'StepUp': {'q': 1, 'reset': 2, 'inc': 3, 'one': 4, 'zero': 5, 'add': 6, 'd': 7, 'd1': 8, 'e_add': 9, 'add/ci': 10, 'step': 11},
}


def netmap(kind, p):
    if kind == 'Srb':
        d = p['depth']
        m = {'li': 1, 'ri': 2, 'lo': 3, 'ro': 4, 'sl': 5, 'sr': 6, 'shift': 7}
        for k in range(d):
            m[f'q_{k}'] = 8 + k
            m[f'rd{k}'] = 8 + d + k
        return m
    if kind == 'Mod':
        w, v = p['w'], p['mod'] - 1
        m = {'q': 1, 'reset': 2, 'inc': 3, 'co': 4, 'one': 5, 'zero': 6, 'add': 7, 'd': 8, 'd1': 9, 'e_add': 10,
             'anyreset': 11, 'add/ci': 12}
        for i in range(w + 2):
            m[f'eq{v}/b_{i}'] = 13 + i
            m[f'eq{v}/m{v}/n{i}'] = 13 + w + i
            m[f'eq{v}/m{v}/prod/and{i}'] = 13 + 2 * w + i
        return m
    if kind == 'Div':
        w, v = p['qw'], p['n'] - 1
        m = {'clkout': 1, 'reset': 2, 'q': 3, 't': 4, 'i0': 5, 'count/one': 6, 'count/zero': 7, 'count/add': 8, 'count/d': 9,
             'count/d1': 10, 'count/e_add': 11, 'count/anyreset': 12, 'count/add/ci': 13, 'clkout/nq': 14, 'clkout/d': 15}
        if not p.get('hasReset', 1):
            m['i1'] = 2
        for i in range(w + 2):
            m[f'count/eq{v}/b_{i}'] = 16 + i
            m[f'count/eq{v}/m{v}/n{i}'] = 16 + w + i
            m[f'count/eq{v}/m{v}/prod/and{i}'] = 16 + 2 * w + i
        return m
    if kind == 'Pipe':
        n = len(p['ws'])
        m = {'reset': 1}
        for j in range(n):
            m[f'i{j}'] = 2 + j
            m[f'o{j}'] = 2 + n + j
        return m
    if kind == 'Stack':
        d = p['depth']
        m = {'din': 1, 'zerow': 2, 'pre_dout': 3, 'rout': 4, 'pop': 5, 'push': 6, 'shift/shift': 7, 'dout': 8 + 2 * d}
        for k in range(d):
            m[f'shift/q_{k}'] = 8 + k
            m[f'shift/rd{k}'] = 8 + d + k
        return m
    return NETMAP[kind]


def net_params(kind, p):
    if kind in ('Srb', 'Stack'):
        return [p['w'], p['depth']]
    if kind == 'Pipe':
        return list(p['ws'])
    if kind == 'TReg':
        return [int(p['hasE']), int(p['hasR'])]
    if kind == 'Counter':
        return [p['w'], int(p['hasReset']), int(p['hasInc'])]
    if kind == 'StepUp':
        return [p['w'], p.get('sw', p['w']), int(p['hasReset']), int(p.get('hasInc', 1))]
    if kind == 'Edge':
        return [p['dir']]
    if kind == 'Delay':
        return [p['w'], p['delay'], int(p['hasEn']), int(p['hasReset'])]
    if kind == 'Reg':
        return [p['w'], p.get('dw', p['w']), p.get('ew', 1), p['rv'], int(p['hasE']), int(p['hasR'])]
    raise KeyError(kind)


def net_configs(tier):
    C = []
    for e in (0, 1):
        for r in (0, 1):
            C.append(('TReg', dict(hasE=e, hasR=r)))
            for w in ([1, 5] if tier == 'quick' else [1, 2, 5, 8, 33]):
                C.append(('Counter', dict(w=w, hasReset=e, hasInc=r)))
                C.append(('StepUp', dict(w=w, hasReset=e, hasInc=r, sw=max(1, w - 1 + 2 * r))))
    C += [('Edge', dict(dir=k)) for k in (0, 1, 2)]
    C += [('Reg', dict(w=w, dw=dw, ew=cw, rw=cw, rv=rv, hasE=e_, hasR=r_)) for (w, dw, cw, rv) in [(3, 3, 1, 0), (3, 5, 2, 21), (8, 8, 1, 255), (1, 1, 1, 3)]
          for e_ in (0, 1) for r_ in (0, 1)]
    C += [('Pipe', dict(ws=ws)) for ws in ([[3], [2, 4], [1, 1, 8]] if tier == 'quick' else [[3], [2, 4], [1, 1, 8], [5, 4, 3, 2, 1], [64, 33]])]
    C += [(k_, dict(w=w, depth=dp, flags=(dp % 2 == 1))) for k_ in ('Srb', 'Stack') for w, dp in ([(1, 1), (4, 2), (4, 3)] if tier == 'quick' else [(1, 1), (4, 2), (4, 3), (2, 7), (33, 12)])]
    for e in (0, 1):
        for r in (0, 1):
            for dl in ([0, 1, 3] if tier == 'quick' else [0, 1, 2, 3, 7, 20]):
                C.append(('Delay', dict(w=4 + dl, delay=dl, hasEn=e, hasReset=r)))
    return C


def wire_name(w):
    import re
    path = w.getFullPath()
    if '[dut]' in path:
        return '/'.join(re.findall(r'\[([^\]]*)\]', path.split('[dut]', 1)[1]))
    return w.name


def render_live(kind, blk, p=None):
    """the LIVE constructor's netlist in the format of C09N.KNet.render, wires renamed by name"""
    d = D.Dump(blk.sys, blk.sim)
    m = netmap(kind, p if p is not None else blk.p)
    can = {0: 0}
    for i, w in enumerate(d.wires):
        n = wire_name(w)
        if n in m:
            can[i + 1] = m[n]
    used = set()

    def W(txt):
        out = []
        for x in [t for t in txt.split(',') if t.strip() != '']:
            x = int(x)
            if x not in can:
                raise KeyError(f'wire {d.wires[x - 1].getFullPath()} has no canonical name')
            out.append(str(can[x]))
            used.add(x)
        return ','.join(out)
    kinds, regs, comb_ix = [], [], {}
    lid = -1
    for ln in d.lines:
        if not ln.startswith('leaf '):
            continue
        lid += 1
        f = [x.strip() for x in ln[5:].split('|')]
        if f[0] == 'Reg':
            regs.append(f'Reg {f[1]} : {W(f[3])} > {W(f[5])}')
        else:
            comb_ix[lid] = len(kinds)
            kinds.append(f'{f[0]} {f[1]} : {W(f[3])} > {W(f[5]) if f[5] else W(f[6])}')
    order = [comb_ix[int(x)] for x in d.schedule_lines()[0].split()[1].split(',')] if len(d.schedule_lines()[0].split()) > 1 else []
    ws = sorted((can[x], d.wires[x - 1].getWidth()) for x in used if x != 0)
    return ' ; '.join(kinds) + ' | ' + ' ; '.join(regs) + ' | ' + ','.join(str(x) for x in order) + ' | ' + \
        ','.join(f'{a}:{b}' for a, b in ws)


def netlist_import(res, tier):
    """the netlists the theorems of Props/C09Net.lean are about ARE the netlists the live constructors build"""
    cfgs, live = [], []
    for kind, p in net_configs(tier):
        try:
            blk = Block(kind, p)
            live.append(render_live(kind, blk))
            cfgs.append((kind, p))
        except Exception as e:
            res.disagree('netlist-import', dict(block=kind, params=p, what=f'cannot import the live netlist: {type(e).__name__}: {e}'))
    try:
        outs = run_driver('Drv/C09.lean', [f"net {k} | {','.join(str(x) for x in net_params(k, p))} | " for k, p in cfgs])
    except ToolFailure as e:
        res.broken.append(('correspondence', 'netlist-import', 'driver does not run: ' + str(e)[:300]))
        return
    for (kind, p), lv, ln in zip(cfgs, live, outs):
        res.hist('netlist_import', kind)
        norm = lambda t: ' '.join(t.split())
        if norm(lv) != norm(ln):
            res.disagree('netlist-import', dict(block=kind, params=p, live=lv, lean_builder=ln))


def netm_configs(tier):
    C = [('Mod', dict(w=w, mod=n)) for w, n in [(1, 1), (1, 2), (2, 3), (2, 4), (3, 5), (3, 8), (4, 11), (4, 16), (5, 17)]]
    C += [('Div', dict(fin=2 * n, fout=1, hasReset=r)) for n in (1, 2, 3, 5, 8) for r in (0, 1)]
    if tier != 'quick':
        C += [('Mod', dict(w=w, mod=n)) for w, n in [(3, 6), (3, 7), (5, 32), (6, 33), (8, 200), (8, 256), (12, 2731), (12, 4096)]]
        C += [('Div', dict(fin=2 * n, fout=1, hasReset=r)) for n in (4, 7, 12, 23, 64, 100) for r in (0, 1)]
    return C


def netm_import(res, tier):
    """ModuloCounter / ClockDivider: netlist = builder of Lib/SeqNetM.lean, and the decidable side conditions of the
    theorems of Props/C09NetM.lean (`okb`: the LIVE schedule is an evaluation order, ...) hold on the live instance"""
    cfgs, live, lines = [], [], []
    for kind, p in netm_configs(tier):
        try:
            blk = Block(kind, p)
            lv = [x.strip() for x in render_live(kind, blk, p).split('|')]
            prm = [p['w'], p['mod']] if kind == 'Mod' else [p['n'], p['qw'], int(p.get('hasReset', 1))]
            lines.append(f"netm {kind} | {','.join(str(x) for x in prm)} | {lv[2]}")
            live.append(lv)
            cfgs.append((kind, dict(p)))
        except Exception as e:
            res.disagree('netlist-import', dict(block=kind, params=p, what=f'cannot import the live netlist: {type(e).__name__}: {e}'))
    try:
        outs = run_driver('Drv/C09.lean', lines)
    except ToolFailure as e:
        res.broken.append(('correspondence', 'netlist-import', 'driver does not run: ' + str(e)[:300]))
        return
    norm = lambda t: ' '.join(t.split())
    for (kind, p), lv, ln in zip(cfgs, live, outs):
        res.hist('netlist_import', kind)
        lp = [x.strip() for x in ln.split('|')]
        if len(lp) != 4 or [norm(lv[0]), norm(lv[1]), norm(lv[3])] != [norm(x) for x in lp[:3]]:
            res.disagree('netlist-import', dict(block=kind, params=p, live=' | '.join(lv), lean_builder=ln))
        elif lp[3] != '1':
            res.disagree('netlist-import', dict(block=kind, params=p, live_schedule=lv[2],
                                                what='okb (side conditions of the netlist-level theorem) is false on the live instance'))


# ------------------------------------------------------------------------------------------------ netlists with memories
def render_live_s(blk):
    """the LIVE netlist of a design with memories in the format of SeqMem.KNetS.render (wires named w<k> = canonical k)"""
    num = {id(w): j + 1 for j, w in enumerate(blk.canon)}
    used = set()

    def W(*ws):
        out = []
        for w in ws:
            if w is None:
                out.append('0')
            else:
                out.append(str(num[id(w)]))
                used.add(num[id(w)])
        return ','.join(out)
    pk, sk, pidx = [], [], {}
    for l in blk.sys.allLeaves():
        n = type(l).__name__
        if n == 'Reg':
            sk.append(f'Reg {int(l.reset_value)};{int(l.e is not None)};{int(l.r is not None)} : {W(l.e, l.r, l.d)} > {W(l.q)}')
        elif n == 'SynchronousMemory':
            sk.append(f'SynchronousMemory  : {W(l.read_address, l.write_address, l.write, l.writedata)} > {W(l.readdata)}')
        elif n == 'DualPortSynchronousMemory':
            sk.append('DualPortSynchronousMemory  : ' + W(l.read_address_a, l.write_address_a, l.write_a, l.writedata_a, l.read_address_b,
                                                           l.write_address_b, l.write_b, l.writedata_b) + ' > ' + W(l.readdata_a, l.readdata_b))
        elif n == 'AsynchronousMemory':
            pidx[id(l)] = len(pk)
            pk.append(f'AsynchronousMemory  : {W(l.read_address, l.write_address, l.write, l.writedata)} > {W(l.readdata)}')
        elif n == 'Buf':
            pidx[id(l)] = len(pk)
            pk.append(f'Buf  : {W(l.a)} > {W(l.r)}')
        else:
            raise KeyError(f'leaf class {n} not expected in this design')
        if (n in ('Reg', 'SynchronousMemory', 'DualPortSynchronousMemory')) != bool(l.isClockable()) or \
                (n in ('AsynchronousMemory', 'Buf')) != bool(l.isPropagatable()):
            raise KeyError(f'leaf class {n}: clockable/propagatable flags changed')
    order = [pidx[id(o)] for o in blk.sim.propagatables]
    clocked = [o for ds in blk.sim.clockDrivers.values() for o in ds.clockables]
    if len(clocked) != len(sk):
        raise KeyError('clocked leaves of the simulator differ from the clockable leaves of the design')
    ws = sorted((k, blk.canon[k - 1].getWidth()) for k in used)
    return ' ; '.join(pk) + ' | ' + ' ; '.join(sk) + ' | ' + ','.join(str(x) for x in order) + ' | ' + ','.join(f'{a}:{b}' for a, b in ws)


def nets_configs(tier):
    C = [('RamPipe', dict(aw=a, dw=d, ww=w)) for a, d, w in ([(1, 1, 1), (2, 4, 3), (3, 2, 5)] if tier == 'quick' else
                                                            [(1, 1, 1), (2, 4, 3), (3, 2, 5), (4, 8, 8), (6, 33, 31), (10, 3, 3)])]
    C += [(k, dict(aw=a, dw=d)) for k in ('DpNet', 'AmNet') for a, d in ([(1, 1), (2, 4)] if tier == 'quick' else [(1, 1), (2, 4), (3, 8), (5, 33)])]
    return C


def nets_import(res, tier, rng):
    """memories INSIDE a netlist (Props/C09NetMem.lean): the live design = the Lean builder (SeqMem.KNetS), and that netlist
    RUN under Net.Sim with the generated leaves (driver op netrun) = the live simulator, outputs before and after every edge"""
    lines, jobs = [], []
    for kind, p in nets_configs(tier):
        try:
            blk = Block(kind, p)
            prm = [p['aw'], p['dw']] + ([p['ww']] if kind == 'RamPipe' else [])
            lines.append(f"nets {kind} | {','.join(str(x) for x in prm)} | ")
            jobs.append(('import', kind, p, render_live_s(blk)))
            for j in range(3 if tier == 'quick' else 12):
                r = rng.fork(('nets', kind, str(sorted(p.items())), j))
                b2 = Block(kind, p)
                hist = rand_hist(kind, b2, r, r.randint(1, 16 if tier == 'quick' else 40))
                eff, real = b2.run(hist)
                lines.append(f"netrun {kind} | {','.join(str(x) for x in prm)} | " + ';'.join(','.join(str(v) for v in st) for st in eff))
                jobs.append(('run', kind, p, (eff, real)))
                res.cov['evaluations'] += 1
        except Exception as e:
            res.disagree('netlist-import', dict(block=kind, params=p, what=f'cannot import / run the live netlist: {type(e).__name__}: {e}'))
    try:
        outs = run_driver('Drv/C09.lean', lines)
    except ToolFailure as e:
        res.broken.append(('correspondence', 'netlist-import', 'driver does not run: ' + str(e)[:300]))
        return
    norm = lambda t: ' '.join(t.split())
    for (what, kind, p, x), ans in zip(jobs, outs):
        if what == 'import':
            res.hist('netlist_import', kind)
            if norm(x) != norm(ans):
                res.disagree('netlist-import', dict(block=kind, params=p, live=x, lean_builder=ans))
        else:
            eff, real = x
            res.hist('netlist_run', kind)
            mt = parse_trace(ans, 0)
            for n in range(len(eff)):
                if n >= len(mt) or (list(mt[n][0]), list(mt[n][1])) != (list(real[n][0]), list(real[n][1])):
                    res.disagree('netlist-run', dict(block=kind, params=p, history=eff[:n + 1], step=n + 1,
                                                     lean_netlist=mt[n] if n < len(mt) else None, real=real[n]))
                    break


# ------------------------------------------------------------------------------------------------ main
def main(res, tier, rng, replay):
    ok, metas, errors, changed = regenerate()
    for e in errors:
        res.broken.append(('translator', 'py2lean', e))
    res.proof_stage('Py4hwV.Props.C09NetMem', OBLIGATIONS)
    quick = tier == 'quick'
    if ok:
        try:
            t1.validate_generated(res, rng.fork('t1'), 60 if quick else 600,
                                  classes=['Reg', 'SynchronousMemory', 'AutoReset', 'And2', 'Or2', 'Not', 'Buf', 'Mux2',
                                           'Constant', 'AddCarryIn', 'BitsLSBF'])
        except ToolFailure as e:
            res.broken.append(('correspondence', 'T1', f'generated definitions do not run: {e}'))
    netlist_import(res, tier)
    netm_import(res, tier)
    nets_import(res, tier, rng)
    cases = Cases(res)
    # corpus first
    cdir = os.path.join(VERIF, 'corpus', 'C09')
    if os.path.isdir(cdir):
        for f in sorted(os.listdir(cdir)):
            if f.endswith('.json') and f != 'proposed_findings.json':
                try:
                    c = json.load(open(os.path.join(cdir, f)))
                    run_case(res, cases, c['block'], c['params'], c['history'], 'corpus:' + f)
                except Exception as e:
                    res.notes.append(f'corpus {f}: {e}')
    if replay:
        body = json.load(open(replay))
        for fi in body.get('failing_inputs', []):
            rp = fi.get('replay', {})
            if 'history' in rp and rp.get('at') != 'constructor':
                run_case(res, cases, rp['block'], rp['params'], rp['history'], 'replay')
    # exhaustive reachable-state exploration of tiny configurations
    for kind, p in tiny_configs(tier):
        explore(res, cases, kind, p, 400 if quick else 20000)
        if len(cases.items) > 20000:
            cases.flush()
    # seeded random histories over every constructor option
    n_cfg = 40 if quick else 2500
    n_len = 48 if quick else 200
    nb = D.NetBatch(res, 'net-sim')
    for kind in KINDS:
        for j in range(n_cfg if kind not in ('AutoReset', 'Edge', 'TReg') else max(6, n_cfg // 8)):
            r = rng.fork((kind, j))
            p = rand_params(kind, r, tier)
            try:
                with contextlib.redirect_stdout(io.StringIO()):
                    probe = Block(kind, p)
            except Exception as e:
                res.fail(f'{kind} constructor raises {type(e).__name__}: {e}', dict(block=kind, params=p, error=type(e).__name__, at='constructor'))
                continue
            hist = rand_hist(kind, probe, r, r.randint(1, n_len))
            use_nb = nb if (j % 4 == 0 and j < (40 if quick else 160)) else None
            run_case(res, cases, kind, p, hist, 'random', nb=use_nb)
            for key in ('w', 'depth', 'delay', 'mod', 'aw', 'dw'):
                if key in p:
                    res.hist(f'{kind}_{key}', p[key])
            if j < 1:
                res.sample(dict(block=kind, params={k: v for k, v in p.items()}, history_head=hist[:4]))
        if len(nb.jobs) >= 400:
            try:
                nb.run()
            except ToolFailure as e:
                res.broken.append(('correspondence', 'net-sim', str(e)[:300]))
                nb = D.NetBatch(res, 'net-sim')
        if len(cases.items) > 20000:
            cases.flush()
    try:
        nb.run()
    except ToolFailure as e:
        res.broken.append(('correspondence', 'net-sim', str(e)[:300]))
    cases.flush()
    res.cov['rule'] = ('one evaluation = one (block, constructor parameters, input history) run on the real block with all outputs read '
                       'after poke+settle and after every edge, compared with the Lean model and judged by the reference machine; '
                       'reach: one evaluation = one transition (reachable state x input letter) of a tiny configuration, exhaustive; '
                       'distinct = distinct (block, parameters, effective history)')
    res.assumptions += ['the functional composition of a structural block (registers read the settled pre-edge values, outputs are the '
                        'settled post-edge values) is hand-written after the constructors; it is validated cycle by cycle against the real '
                        'blocks and, on the flattened netlists, against Net.Sim running the generated leaves',
                        'control wires of the composite blocks (reset, inc, enable, push, pop, shift, write) are 1 bit wide; bare Reg is '
                        'also exercised with 2-bit enable/reset wires',
                        'ClockDivider: n and the counter width are computed with Python floats in the constructor; the model is parametric '
                        'in (n, qw) read back from the built object',
                        'Stack_ShiftRegister: the LIFO claim is made for histories that never push onto a full stack (overflow drops the '
                        'bottom element; compared with the model only); its empty/full ports are never driven by the constructor']


if __name__ == '__main__':
    main_wrapper('C09', main)
