"""C19 — the transpiler and the LIVE object (model: lean/Py4hwV/Emit/Live.lean, theorems transpile_live_frame /
transpile_sim_indep_partial / sim_history_indep in Props/C19.lean).

Seeded generator of behavioural (transpiled) classes whose clock()/propagate() use every category of `self.<name>`:
    const     self.x = <int> in the constructor, read and re-assigned by the method
    arg       self.p = p (constructor parameter), read only  |  arg_rw: ALSO re-assigned by the method (= listed finding
              C19-live-arg-attr: the only way a simulated value reaches the text on the unchanged tree)
    late rbw  attribute CREATED by the method itself (not in the constructor), first textual occurrence is a guarded read
    late wbr  attribute created by the method, written before it is read
    clsconst  class-level constant read as self.NAME
    clsdef    class-level default that the method re-assigns per instance (instance attribute appears with the first cycle)
    locals
The class object is built from generated SOURCE (registered in linecache so that inspect.getsource works; the source is
part of every replay).

Per class: three structurally identical circuits A (subject), B (same simulation, generated only at the end), T (different
simulation history).  Text of A before simulation, after every simulation step (clock cycles, pokes, pokes only), through
a kept / a fresh generator, single module and hierarchy; text of B and T at the end.
  oracle O1  text(X, now) == text(fresh never-simulated circuit constructed with X's CURRENT constructor-argument values)
             — "a function of structure and constructor-time configuration only"; failure = VIOLATION
  oracle O2  text(X, now) == text(A, before simulation); failure = listed finding iff the class re-assigns a constructor-
             argument attribute in its method (and O1 holds), VIOLATION otherwise
  oracle O3  simulation of A (generated upon) == simulation of B (not generated upon) after every step
  tie        every ReplaceWiresAndVariables decision of the REAL transpiler during these requests (logged by wrapping the
             visitor methods; ports / variables / arguments it was constructed with) vs Emit.transpile on the same
             constructor statements, occurrences and live attribute values (driver command `tr`)."""
import ast, contextlib, io, linecache, textwrap
from common import *
import c19_lib as L
import c19_designs as DS

P_CONST = ['count', 'acc', 'state', 'hold', 'lim', 'phase']
P_ARG = ['step', 'gain', 'base', 'thr']
P_LATE = ['prev', 'last', 'best', 'mark', 'snap']
P_CLS = ['LIMIT', 'MASK', 'SEED']
P_DEF = ['mode', 'level', 'old']
# local variable names: named like Verilog / SystemVerilog reserved words (all legal Python identifiers), like generated
# identifiers (suffixes, prefixes the generator itself uses), like the clock port, upper case, leading underscore
P_LOCAL = ['bit', 'reg', 'time', 'new', 'wire', 'logic', 'byte', 'int', 'event', 'begin', 'end', 'input', 'output', 'module', 'integer',
           'signed', 'real', 'initial', 'always', 'assign', 'posedge', 'case', 'default', 'task', 'function', 'this',
           't_0', 'bit_0', 'r_1', 'a0', 'clk', '_t', 'T', 'rq', 'w_a', 'i_stage', 'reserved_bit', 'tmp', 'x']
VIA_KNOWN = 'constructor-argument attribute reassigned by clock()'


def gen_spec(rng, idx):
    """-> JSON-able spec: the class SOURCE and the constructor arguments"""
    mode = 'clock' if rng.chance(3, 4) else 'propagate'
    W = rng.choice([4, 8])
    consts = [(n, rng.randint(0, 9)) for n in rng.shuffle(P_CONST)[:rng.randint(1, 3)]]
    args = [(n, rng.randint(1, 9), rng.chance(1, 4)) for n in rng.shuffle(P_ARG)[:rng.randint(0, 2)]]
    if mode == 'propagate':
        args = [(n, v, False) for n, v, _ in args]
    late = [(n, 'rbw' if rng.chance(2, 3) else 'wbr') for n in rng.shuffle(P_LATE)[:rng.randint(1, 2)]]
    clsconst = [(n, rng.randint(1, 200)) for n in rng.shuffle(P_CLS)[:rng.randint(0, 1)]]
    clsdef = [(n, rng.randint(0, 1)) for n in rng.shuffle(P_DEF)[:rng.randint(0, 1)]]
    rbw = [n for n, k in late if k == 'rbw']
    wbr = [n for n, k in late if k == 'wbr']
    if rbw:
        consts.append(('started', 0))
    cnames = [n for n, _ in consts if n != 'started']
    locs = []
    body = []
    lpool = rng.shuffle(P_LOCAL)
    plain = rng.chance(1, 3)          # a third of the classes keep the ordinary names t, u0, u1

    def local(dflt):
        return dflt if plain else lpool.pop()

    def atom(extra=()):
        pool = ['self.a.get()', str(rng.randint(0, 7))] + [f'self.{c}' for c in cnames] + [f'self.{p}' for p, _, _ in args] + \
               list(locs) + [f'self.{k}' for k, _ in clsconst] + [f'self.{d}' for d, _ in clsdef] + list(extra)
        return rng.choice(pool)

    def expr(extra=()):
        if rng.chance(1, 4):
            return atom(extra)
        return f'{atom(extra)} {rng.choice(["+", "-", "&", "|", "^"])} {atom(extra)}'

    def cmp_(extra=()):
        return f'({atom(extra)} {rng.choice(["==", "!=", "<", ">"])} {atom(extra)})'
    if rng.chance(2, 3) or mode == 'propagate':
        t = local('t')
        body.append(f'{t} = self.a.get() & {rng.randint(1, 7)}')
        locs.append(t)
    avail = []          # late attributes readable from here on (written above)
    if mode == 'clock':
        if rbw:
            body.append('if (self.started == 1):')
            for x in rbw:
                c = rng.choice(cnames)
                k = rng.randint(0, 2)
                if k == 0:
                    body += [f'    if (self.a.get() != self.{x}):', f'        self.{c} = self.{c} + 1']
                elif k == 1:
                    body += [f'    if (self.{x} < {atom()}):', f'        self.{c} = {expr([f"self.{x}"])}']
                else:
                    body.append(f'    self.{c} = self.{c} + self.{x}')
        for x in wbr:
            body.append(f'self.{x} = {expr()}')
            avail.append(f'self.{x}')
        for _ in range(rng.randint(1, 3)):
            c = rng.choice(cnames)
            k = rng.randint(0, 3)
            if k == 0:
                body.append(f'self.{c} = {expr(avail)}')
            elif k == 1:
                body.append(f'self.{c} += {rng.randint(1, 3)}')
            elif k == 2:
                body += [f'if {cmp_(avail)}:', f'    self.{c} = {expr(avail)}']
            else:
                body += [f'if {cmp_(avail)}:', f'    self.{c} = {expr(avail)}', 'else:', f'    self.{rng.choice(cnames)} = {expr(avail)}']
        for d, _ in clsdef:
            body.append(f'self.{d} = ({expr(avail)}) & 3')
        for x in rbw:
            body.append(f'self.{x} = {"self.a.get()" if rng.chance(1, 2) else expr(avail)}')
        for p, _, rw in args:
            if rw:
                body.append(f'self.{p} = self.{p} + {rng.randint(1, 2)}')
        if rbw:
            body.append('self.started = 1')
        body.append(f'self.r.prepare({expr(avail)})')
    else:
        for x in wbr:
            body.append(f'self.{x} = {expr()}')
            avail.append(f'self.{x}')
        for i, x in enumerate(rbw):
            u = local(f'u{i}')
            body += ['if (self.started == 1):', f'    {u} = self.{x}', 'else:', f'    {u} = 0']
            locs.append(u)
        for d, _ in clsdef:
            body.append(f'self.{d} = ({expr(avail)}) & 3')
        for x in rbw:
            body.append(f'self.{x} = self.a.get()')
        if rbw:
            body.append('self.started = 1')
        body.append(f'self.r.put({expr(avail)})')
    name = f'Blk{idx}'
    params = ''.join(f', {p}' for p, _, _ in args)
    src = [f'class {name}(py4hw.Logic):']
    src += [f'    {k} = {v}' for k, v in clsconst + clsdef]
    src += [f'    def __init__(self, parent, name, a, r{params}):', '        super().__init__(parent, name)',
            "        self.a = self.addIn('a', a)", "        self.r = self.addOut('r', r)"]
    src += [f'        self.{c} = {v}' for c, v in consts]
    src += [f'        self.{p} = {p}' for p, _, _ in args]
    src += ['', f'    def {mode}(self):'] + ['        ' + b for b in body]
    return dict(name=name, mode=mode, W=W, src='\n'.join(src) + '\n', args=[[p, v] for p, v, _ in args],
                arg_rw=[p for p, _, rw in args if rw],
                locals=list(locs),
                kinds=sorted({'const'} | ({'keyword-like local'} if any(x in P_LOCAL[:26] for x in locs) else set()) | ({'arg'} if args else set()) | ({'arg_rw'} if any(rw for _, _, rw in args) else set()) |
                             ({'late_rbw'} if rbw else set()) | ({'late_wbr'} if wbr else set()) |
                             ({'clsconst'} if clsconst else set()) | ({'clsdef'} if clsdef else set())))


_SEQ = [0]


def make_class(spec):
    import py4hw
    _SEQ[0] += 1
    fn = f'<c19-behav-{spec["name"]}-{_SEQ[0]}>'
    src = spec['src']
    linecache.cache[fn] = (len(src), None, src.splitlines(True), fn)
    ns = {'py4hw': py4hw, '__name__': 'c19_behav_generated'}
    exec(compile(src, fn, 'exec'), ns)
    return ns[spec['name']]


def build(spec, cls=None, args=None):
    """top box holding one instance; args: {param: value} overriding the spec's constructor arguments"""
    import py4hw
    if 'variant' in spec:
        return DS.samename(spec['variant'], spec['W'])
    with L.quiet():
        hw = py4hw.HWSystem()
        a, r = hw.wire('a', spec['W']), hw.wire('r', spec['W'])
        top = DS.box_class('GTop')(hw, 'top')
        top.addIn('a', a)
        top.addOut('r', r)
        vals = [(args or {}).get(p, v) for p, v in spec['args']]
        st = cls(top, 'stage', a, r, *vals)
    return dict(hw=hw, top=top, stage=st, inputs={'a': a}, r=r, W=spec['W'])


# ------------------------------------------------------------------------------------------------ instrumentation
class Tap:
    """wraps the visitor methods of the REAL ReplaceWiresAndVariables for the duration of a request and records every decision"""

    def __init__(self):
        import py4hw.transpilation.python2verilog_transpilation as M
        self.M = M
        self.runs = []        # one entry per visitor object: dict(init=…, log=[…])

    def __enter__(self):
        M, tap = self.M, self
        K = M.ReplaceWiresAndVariables
        self.saved = {n: K.__dict__.get(n) for n in ('__init__', 'visit_Name', 'visit_Attribute', 'visit_VerilogWire')}
        o_init, o_name, o_attr, o_wire = K.__init__, K.visit_Name, K.visit_Attribute, K.visit_VerilogWire

        def tok(v, r):
            if isinstance(r, M.VerilogWire):
                return ('P:' if any(r is w for w in v.ports.values()) else 'W:') + str(r.name)
            if isinstance(r, M.VerilogVariable):
                return 'V:' + str(r.name)
            if isinstance(r, M.VerilogConstant):
                return 'C:' + str(r.value)
            return '?:' + type(r).__name__

        def init(v, *a, **k):
            o_init(v, *a, **k)
            run = dict(ports={k_: w.name for k_, w in v.ports.items()}, variables=list(v.variables.keys()),
                       arguments={k_: getattr(c, 'value', None) for k_, c in v.arguments.items()}, log=[])
            v._c19_run = run
            tap.runs.append(run)

        def wrap(orig, occ_of):
            def f(v, node):
                if getattr(node, 'final', False):
                    # /repo 19c507c: the initialiser wires of the output regs already carry the Verilog port name and are returned as
                    # they are (no attribute lookup, hence no decision of the modelled kind)
                    return orig(v, node)
                occ = occ_of(node)
                try:
                    r = orig(v, node)
                except Exception as e:
                    v._c19_run['log'].append((occ, 'raise ' + type(e).__name__))
                    raise
                v._c19_run['log'].append((occ, tok(v, r)))
                return r
            return f
        K.__init__ = init
        K.visit_Name = wrap(o_name, lambda n: f'N:{n.id}:{int(isinstance(n.ctx, ast.Store))}')
        K.visit_Attribute = wrap(o_attr, lambda n: (f'A:{n.attr}:{int(isinstance(n.ctx, ast.Store))}'
                                                    if isinstance(n.value, ast.Name) and n.value.id == 'self' else None))
        K.visit_VerilogWire = wrap(o_wire, lambda n: f'W:{n.name}')
        return self

    def __exit__(self, *exc):
        K = self.M.ReplaceWiresAndVariables
        for n, f in self.saved.items():
            if f is None:
                delattr(K, n)
            else:
                setattr(K, n, f)
        return False


def ctor_stmts(cls):
    """the assignment statements of __init__ as the Lean model's CtorStmt list (a purely syntactic reading of the SOURCE);
    None when the constructor has a statement outside the modelled forms"""
    import inspect
    from py4hw.rtl_generation import getValidVerilogName
    fn = ast.parse(textwrap.dedent(inspect.getsource(cls.__init__))).body[0]
    out = []
    for st in fn.body:
        if isinstance(st, ast.Expr) and isinstance(st.value, ast.Call):
            continue          # super().__init__(...)
        if not (isinstance(st, ast.Assign) and len(st.targets) == 1 and isinstance(st.targets[0], ast.Attribute)
                and isinstance(st.targets[0].value, ast.Name) and st.targets[0].value.id == 'self'):
            return None
        x, v = st.targets[0].attr, st.value
        if isinstance(v, ast.Call) and isinstance(v.func, ast.Attribute) and v.func.attr in ('addIn', 'addOut') and v.args and \
                isinstance(v.args[0], ast.Constant) and isinstance(v.args[0].value, str):
            out.append(f'p:{x}:{getValidVerilogName(v.args[0].value)}')
        elif isinstance(v, ast.Constant) and isinstance(v.value, (int, bool)):
            out.append(f'c:{x}:{int(v.value)}')
        elif isinstance(v, ast.Name):
            out.append(f'a:{x}:{v.id}')
        else:
            return None
    return out


def live_env(obj, names):
    env = {}
    for n in names:
        v = getattr(obj, n, None)
        if isinstance(v, int):
            env[n] = int(v)
    return env


def model_line(ctor, env, occs):
    return 'tr ' + (','.join(ctor) or '-') + '|' + (','.join(f'{k}={v}' for k, v in sorted(env.items())) or '-') + '|' + (','.join(occs) or '-')


# ------------------------------------------------------------------------------------------------ one request
def request(res, d, gen, sink, spec, cls, when):
    """text of d (hierarchy of top + module of the stage), Canon'ed, with the transpiler tapped.
    sink.q(line, check) queues the model comparison.  -> ('ok', hier, mod) | ('err', type name)"""
    import py4hw
    ids = [hex(id(o))[2:] for o in DS.all_objs(d['hw'])]
    gen = gen if gen is not None else py4hw.VerilogGenerator(d['hw'])
    st = d['stage']
    ctor = ctor_stmts(type(st))
    # what getattr(obj, <name>) gives for every name the model may be asked about — read BEFORE the request
    cand = set(vars(st).keys()) | {k for k in dir(type(st)) if not k.startswith('__')}
    env_all = live_env(st, cand)
    tap = Tap()
    with tap, L.quiet():
        try:
            th = gen.getVerilogForHierarchy(d['top'], noInstanceNumberInTopEntity=True)
            tm = gen.getVerilog(st)
            out = ('ok', L.canon_text(th, ids), L.canon_text(tm, ids), all(c in L.chunks(th) for c in L.chunks(tm)))
        except Exception as e:
            out = ('err', type(e).__name__)
    if ctor is None:
        res.hist('tr_tie', 'constructor outside the modelled forms')
        return out
    params = [c.split(':')[2] for c in ctor if c.startswith('a:')]
    if not tap.runs:
        # the visitor was never constructed: ExtractInitializers raised (getattr on a missing attribute) or something earlier did
        occs, env = [], {k: v for k, v in env_all.items() if k in params}
        sink.q(model_line(ctor, env, occs), chk_tr(res, spec, when, None, out))
        return out
    for run in tap.runs:
        if any(o is None for o, _ in run['log']):
            res.hist('tr_tie', 'non-self attribute: outside the model')
            continue
        occs = [o for o, _ in run['log']]
        names = set(params) | {o.split(':')[1] for o in occs}
        env = {k: v for k, v in env_all.items() if k in names}
        sink.q(model_line(ctor, env, occs), chk_tr(res, spec, when, run, out))
        envp = {k: v for k, v in env_all.items() if k in params}
        sink.q('trinit ' + (','.join(ctor) or '-') + '|' + (','.join(f'{k}={v}' for k, v in sorted(envp.items())) or '-'), chk_init(res, spec, when, run))
    return out


def chk_tr(res, spec, when, run, out):
    def chk(ans):
        res.count(('tr', spec['name'], when, ans[:60]), hist={'tr_model': ans.split(' ')[0]})
        if run is None:
            ok = ans.startswith('initerr') and out[0] == 'err'
            # a raise before the visitor exists that the model does not predict is only a disagreement when the request
            # failed with the exception the model's initerr stands for
            if ans.startswith('initerr') != (out[0] == 'err' and out[1] == 'AttributeError'):
                res.disagree('transpiler-live', dict(cls=spec['name'], when=when, what='ExtractInitializers outcome', model=ans[:160], real=str(out)[:160],
                                                     src=spec.get('src', spec.get('variant'))))
            return
        toks = [t for _, t in run['log']]
        raised = [i for i, t in enumerate(toks) if t.startswith('raise ')]
        if ans.startswith('ok '):
            mt, md = ans[3:].split(' ; ')
            mt = mt.split(',') if mt else []
            if raised or mt != toks:
                k = next((i for i, (x, y) in enumerate(zip(mt, toks)) if x != y), min(len(mt), len(toks)))
                res.disagree('transpiler-live', dict(cls=spec['name'], when=when, what='ReplaceWiresAndVariables decision', position=k,
                                                     occurrence=run['log'][k][0] if k < len(run['log']) else None,
                                                     model=mt[k] if k < len(mt) else None, real=toks[k] if k < len(toks) else None,
                                                     src=spec.get('src', spec.get('variant'))))
        elif ans.startswith('err '):
            k = int(ans.split(' ')[1])
            mt = [x for x in ans.split(' ; ')[1].split(',') if x]
            if not raised or raised[0] != k or mt != toks[:k]:
                res.disagree('transpiler-live', dict(cls=spec['name'], when=when, what='model raises, real does not (or elsewhere)', model=ans[:120],
                                                     real=toks[:k + 1][-3:], src=spec.get('src', spec.get('variant'))))
        elif ans.startswith('initerr'):
            res.disagree('transpiler-live', dict(cls=spec['name'], when=when, what='model: constructor read fails; real visitor was constructed', model=ans[:120]))
        else:
            raise ToolFailure('tr answer: ' + ans[:200])
    return chk


def chk_init(res, spec, when, run):
    def chk(ans):
        if not ans.startswith('ok '):
            res.disagree('transpiler-live', dict(cls=spec['name'], when=when, what='ExtractInitializers: model raises', model=ans[:120], real=str(run)[:160]))
            return
        p, v, a = ans[3:].split(' ; ')
        mp = dict(x.split('=') for x in p.split(',') if x)
        mv = [x for x in v.split(',') if x]
        ma = {x.split('=')[0]: int(x.split('=')[1]) for x in a.split(',') if x}
        real = (run['ports'], run['variables'], run['arguments'])
        if (mp, mv, ma) != real:
            res.disagree('transpiler-live', dict(cls=spec['name'], when=when, what='ports / variables / arguments handed to ReplaceWiresAndVariables',
                                                 model=str((mp, mv, ma))[:200], real=str(real)[:200]))
    return chk


# ------------------------------------------------------------------------------------------------ scenario
def stage_values(d):
    st = d['stage']
    return ([d['r'].get()] + [w.value for w in (d['inputs']['a'],)],
            sorted((k, type(v).__name__, v) for k, v in vars(st).items() if isinstance(v, (int, bool))))


def sim_step(rng, W):
    """-> list of ('poke', v) | ('clk', n)"""
    k = rng.randint(0, 5)
    if k == 0:
        return [('poke', rng.bits(W))]                                   # pokes only
    if k == 1:
        return [('clk', rng.choice([1, 2, 3]))]                          # cycles only
    return [('poke', rng.bits(W)), ('clk', rng.choice([1, 1, 2, 4]))] + ([('poke', rng.bits(W))] if rng.chance(1, 3) else [])


def apply(d, sim, ops):
    for op in ops:
        if op[0] == 'poke':
            d['inputs']['a'].put(op[1])
        else:
            with L.quiet():
                sim.clk(op[1])


def arg_values(d, spec):
    return {p: getattr(d['stage'], p, None) for p, _ in spec.get('args', [])}


def run_class(res, rng, spec, tier, sink, fail):
    """fail(what, replay) reports an oracle failure (VIOLATION unless a listed finding matches)"""
    import py4hw
    cls = make_class(spec) if 'src' in spec else None
    try:
        A, B, T = build(spec, cls), build(spec, cls), build(spec, cls)
        with L.quiet():
            simA, simB, simT = A['hw'].getSimulator(), B['hw'].getSimulator(), T['hw'].getSimulator()
    except Exception as e:
        res.hist('behav_gen', f'build failed: {type(e).__name__}')
        return
    for k in spec.get('kinds', ['handwritten']):
        res.hist('behav_attr_kinds', k)
    keep = py4hw.VerilogGenerator(A['hw'])
    ref_cache = {}

    def fresh_with(args):
        key = tuple(sorted(args.items()))
        if key not in ref_cache:
            U = build(spec, cls, args=args)
            ref_cache[key] = request(res, U, None, _NoSink, spec, cls, 'reference')
        return ref_cache[key]

    def rp(**kw):
        d = dict(cls=spec['name'], src=spec.get('src', spec.get('variant')), ctor_args=spec.get('args'), W=spec['W'], seed=res.seed, sim_ops=list(hist))
        d.update(kw)
        return d
    hist = []
    t0 = request(res, A, keep, sink, spec, cls, 0)
    res.hist('behav_gen', 'transpiled' if t0[0] == 'ok' else 'refused: ' + t0[1])
    res.count(('behav', spec['name'], 0))
    nsteps = 3 if tier == 'quick' else 7
    reported = False
    cycles = 0
    # O0: repetition before any simulation (fresh generator, kept generator), with the requests of all the classes generated
    #     earlier in this process in between; the module of the block inside the hierarchy text is its single-module text
    if t0[0] == 'ok' and not t0[3]:
        fail(f'single-module text of transpiled block {spec["name"]} is not the module inside the hierarchy text of the same generator',
             rp(via='context (transpiled block)', hier=str(t0[1])[-500:], module=str(t0[2])[-500:]))
        return
    for how, g in (('fresh generator', None), ('kept generator', keep)):
        tr = request(res, A, g, _NoSink, spec, cls, 'repeat')
        res.count(('behav', spec['name'], 'repeat', how), hist={'behav_requests': 'repeat before simulation'})
        if tr != t0:
            fail(f'text of transpiled block {spec["name"]} requested again ({how}, no simulation, nothing but generation requests in between) differs',
                 rp(via='repeat (transpiled block)', generator=how, first=str(t0[2:3])[-500:], again=str(tr[2:3])[-500:]))
            return
    for step in range(1, nsteps + 1):
        ops = sim_step(rng, spec['W'])
        try:
            apply(A, simA, ops)
            apply(B, simB, ops)
            apply(T, simT, sim_step(rng, spec['W']) if step % 2 else [])
        except Exception as e:
            res.hist('behav_gen', f'simulation raised: {type(e).__name__}')
            return
        hist += ops
        cycles += sum(o[1] for o in ops if o[0] == 'clk')
        # O3: generation upon A did not disturb its simulation
        va, vb = stage_values(A), stage_values(B)
        if va != vb:
            fail(f'simulation of {spec["name"]} after {step} steps with generation interleaved differs from the never-generated twin',
                 rp(via='twin simulation (transpiled block)', with_generation=str(va)[:300], twin=str(vb)[:300]))
            return
        tk = request(res, A, keep if step % 2 == 0 else None, sink if step in (1, nsteps) else _NoSink, spec, cls, step)
        res.count(('behav', spec['name'], step), hist={'behav_requests': 'after cycles' if cycles else 'after pokes only'})
        if reported:
            continue
        # O1: a function of structure + CURRENT constructor-argument configuration
        cur = arg_values(A, spec)
        if 'src' in spec and all(isinstance(v, int) for v in cur.values()):
            tu = fresh_with(cur)
            if tu != tk:
                reported = True
                fail(f'text of transpiled block {spec["name"]} after {step} simulation steps ({cycles} cycles) differs from the text of a never-simulated '
                     f'circuit constructed with the same constructor-argument values {cur}',
                     rp(via='live attribute', step=step, cycles_between=cycles, generator='kept' if step % 2 == 0 else 'fresh',
                        simulated=str(tk[2:3])[-500:], never_simulated=str(tu[2:3])[-500:]))
                continue
        # O2: the same text as before simulation
        if tk != t0:
            reported = True
            known = bool(spec.get('arg_rw')) and cycles >= 1
            fail(f'text of transpiled block {spec["name"]} after {step} simulation steps ({cycles} cycles) differs from its text before simulation',
                 rp(via=VIA_KNOWN if known else 'live attribute', step=step, cycles_between=cycles, reassigned=spec.get('arg_rw'),
                    generator='kept' if step % 2 == 0 else 'fresh', before=str(t0[2:3])[-500:], after=str(tk[2:3])[-500:]))
    if reported:
        return
    # B: same history, never generated upon; T: a different history
    for nm, X in (('twin with the same simulation history, never generated upon', B), ('twin with a different simulation history', T)):
        tx = request(res, X, None, _NoSink, spec, cls, nm)
        res.count(('behav', spec['name'], nm))
        cur = arg_values(X, spec)
        want = fresh_with(cur) if ('src' in spec and all(isinstance(v, int) for v in cur.values())) else t0
        if tx != want:
            fail(f'text of the {nm} of {spec["name"]} differs from the text of a never-simulated circuit with the same constructor-argument values',
                 rp(via='live attribute', which=nm, got=str(tx[2:3])[-500:], expected=str(want[2:3])[-500:]))
            return
        if tx != t0:
            fail(f'text of the {nm} of {spec["name"]} differs from the text before simulation',
                 rp(via=VIA_KNOWN if spec.get('arg_rw') and cycles >= 1 else 'live attribute', cycles_between=cycles, which=nm,
                    reassigned=spec.get('arg_rw'), before=str(t0[2:3])[-500:], after=str(tx[2:3])[-500:]))
            return


class _NoSink:
    @staticmethod
    def q(line, chk=None):
        pass


class Sink:
    """looks like a Scenario to run_batch: lines + expectations"""

    def __init__(self):
        self.lines, self.expect, self.ok = [], [], True

    def q(self, line, chk=None):
        self.lines.append(line)
        self.expect.append(chk)


def family(res, rng, tier, fail):
    """-> Sink with the queued model comparisons (the caller sends it to the driver)"""
    sink = Sink()
    r2 = rng.fork('behav-gen')
    n = 14 if tier == 'quick' else 120
    for i in range(n):
        spec = gen_spec(r2.fork(i), i)
        if i < 2:
            res.sample(dict(behav_class=spec['name'], kinds=spec['kinds'], src=spec['src']))
        run_class(res, r2.fork(('run', i)), spec, tier, sink, fail)
    for v in sorted(DS.VARIANTS):
        run_class(res, r2.fork(('variant', v)), dict(name=v, variant=v, W=8, kinds=['handwritten:' + v]), tier, sink, fail)
    return sink
