"""
C02: seeded generator of behavioural py4hw classes as Python SOURCE TEXT (the transpiler reads source through
inspect.getsource, so classes are written to a module file and imported).

  gen_class(rng, idx, profile)  -> dict(name, src, ins=[(name,width)], outs=[(name,width)], consts=[(name,value)],
                                        seq=bool, tags=[...], attr_of={port: attr})
  profiles: 'safe'   only constructs of the fragment proved sound (Tp.supported); narrow contexts may still arise and are
                     classified by the Lean side
            'wild'   additionally the constructs the real transpiler accepts and mistranslates (ternary, guarded case, and/or
                     as values, bit-operator as right comparator, narrow comparison, match without default, read-after-put,
                     attribute name != port name, local named like an attribute, put inside clock(), ...)
            'refuse' exactly one construct outside the subset (for/while/call/chained comparison/tuple target/float/
                     ternary inside a call/list literal/**//): the transpiler must raise
  write_module(dirpath, modname, classes) / load_module(dirpath, modname)
"""
import os, sys, importlib

WIDTHS_SAFE = [1, 1, 2, 3, 4, 8, 8, 12, 16, 24, 31]
WIDTHS_WILD = WIDTHS_SAFE + [32, 33, 64]
REFUSE_KINDS = ['for', 'while', 'call', 'chained-compare', 'tuple-target', 'float-const', 'list-literal',
                'pow', 'truediv', 'subscript', 'lambda', 'string-const', 'is-compare', 'unary-plus', 'walrus', 'return-value',
                'nested-def', 'aug-tuple', 'in-compare',
                # match patterns other than a literal value / `_` : no PySyntax constructor exists for them
                'match-capture', 'match-as', 'match-or', 'match-sequence', 'match-star', 'match-class', 'match-mapping',
                'match-guarded-wildcard',
                # the remaining statement / expression / operator / pattern node kinds of `ast` (AST_KINDS below is checked against
                # `ast` itself on every run: a node kind of the running Python that is not classified there is reported)
                'return-bare', 'delete', 'annassign', 'with', 'raise', 'try', 'trystar', 'import', 'importfrom', 'global', 'pass',
                'async-def', 'classdef', 'typealias', 'yield', 'yieldfrom', 'dict', 'set', 'listcomp', 'setcomp', 'dictcomp',
                'genexp', 'fstring', 'starred', 'tuple-value', 'matmult', 'isnot-compare', 'notin-compare', 'match-singleton',
                'other-call', 'call-keyword',
                # FORMS of subset node kinds that are outside the subset (the node kind alone does not tell)
                'chained-compare-3', 'chained-compare-mixed', 'chained-compare-eq', 'chained-compare-value', 'multi-target', 'multi-target-3',
                'aug-pow', 'aug-truediv', 'aug-matmult', 'aug-subscript-target', 'call-starred-arg', 'call-kw-prepare', 'call-get-arg',
                'call-two-args', 'call-self-method', 'call-on-local', 'const-bytes', 'const-none', 'const-ellipsis', 'const-complex',
                'attr-nonself', 'attr-nested-target', 'subscript-target', 'slice', 'subscript-index', 'bare-expr-stmt', 'bare-call-stmt',
                'assign-to-wire-attr', 'match-value-attr', 'compare-tuple', 'boolop-in-call-kw']


CHAIN_OPS = ['+', '-', '+', '-', '*', '|', '&', '^', '>>', '%', '//']


class G:
    def __init__(self, rng, profile, seq):
        self.r, self.profile, self.seq = rng, profile, seq
        self.ins, self.outs, self.state, self.consts = [], [], [], []
        self.locals = []
        self.tags = set()
        self.wild = profile == 'wild'

    # ---- leaves
    def int_leaf(self):
        """a 32-bit signed Verilog operand: constant, state attribute, local, constructor constant"""
        k = self.r.randint(0, 9)
        if getattr(self, 'force_consts', False) and self.consts and self.r.chance(1, 2):
            return f'self.{self.r.choice(self.consts)[0]}'
        if k < 3 or not (self.state or self.locals or self.consts):
            return str(self.r.choice([0, 1, 1, 2, 3, 4, 5, 7, 8, 15, 16, 31, 100, 255, 256, 1000, 65535, 0x7FFFFFFF]
                                     if self.r.chance(1, 6) else [0, 1, 2, 3, 4, 5, 7, 8, 15]))
        pool = [f'self.{n}' for n, _ in self.state] * (2 if self.seq else 1) + list(self.locals) + [f'self.{n}' for n, _ in self.consts]
        if not pool:
            return str(self.r.randint(0, 9))
        return self.r.choice(pool)

    def port_leaf(self):
        n, w = self.r.choice(self.ins + (self.outs if (self.seq and self.r.chance(1, 5)) else []))
        if (n, w) in self.outs:
            self.tags.add('reads-own-output')
        return f'self.{self.attr_of[n]}.get()'

    def leaf(self):
        return self.port_leaf() if self.r.chance(1, 2) else self.int_leaf()

    def small_amount(self):
        """a shift amount that stays small: a narrow input port (leaf), in the wild profile also a sum of two (narrow context)"""
        small = [(n, w) for n, w in self.ins if w <= 3]
        if not small:
            return str(self.r.randint(0, 4))
        n, _ = self.r.choice(small)
        if self.wild and self.r.chance(1, 2):
            m, _ = self.r.choice(small)
            self.tags.add('narrow-shift')
            return f'(self.{self.attr_of[n]}.get() + self.{self.attr_of[m]}.get())'
        return f'self.{self.attr_of[n]}.get()'

    # ---- expressions
    def value(self, d):
        """value-position expression"""
        r = self.r
        if d <= 0 or r.chance(1, 4):
            return self.leaf()
        k = r.randint(0, 99)
        if k < 16:
            return f'({self.value(d - 1)} + {self.value(d - 1)})'
        if k < 24:
            # keep subtraction non-negative most of the time
            if r.chance(2, 3):
                return f'(({self.value(d - 1)} | {r.choice([256, 4096, 65536])}) - ({self.value(d - 1)} & {r.choice([1, 15, 255])}))'
            return f'({self.value(d - 1)} - {self.value(d - 1)})'
        if k < 30:
            return f'(({self.value(d - 1)} & {r.choice([3, 15, 255])}) * ({self.value(d - 1)} & {r.choice([3, 15, 255])}))'
        if k < 36:
            return f'({self.value(d - 1)} // ({self.value(d - 1)} | {r.choice([1, 2, 3])}))'
        if k < 42:
            return f'({self.value(d - 1)} % ({self.value(d - 1)} | {r.choice([1, 2, 5])}))'
        if k < 52:
            return f'({self.value(d - 1)} & {self.value(d - 1)})'
        if k < 58:
            return f'({self.value(d - 1)} | {self.value(d - 1)})'
        if k < 64:
            return f'({self.value(d - 1)} ^ {self.value(d - 1)})'
        if k < 72:
            amt = r.choice([str(r.randint(0, 8)), f'({self.value(d - 1)} & {r.choice([1, 3, 7])})', self.small_amount()])
            return f'(({self.value(d - 1)} & 65535) << {amt})'
        if k < 80:
            amt = r.choice([str(r.randint(0, 8)), f'({self.value(d - 1)} & {r.choice([1, 3, 7, 31])})', self.small_amount()])
            return f'({self.value(d - 1)} >> {amt})'
        if k < 86:
            return self.cond(d - 1) if self.wild else self.cmp(d - 1)     # comparison / boolean used as 0/1 value
        if k < 89:
            self.tags.add('unary-value')
            return r.choice([f'(~{self.value(d - 1)} & {r.choice([255, 65535])})' if self.wild else f'(not {self.cond(d - 1)})',
                             f'(not {self.cond(d - 1)})'])
        if k < 92:
            self.tags.add('ternary')
            if r.chance(1, 2):
                # flag idioms: constant arms under a condition that may be a MULTI-BIT value (bit test, arithmetic): any
                # peephole rewriting of `1 if c else 0` into `c` must keep the 0/1 value
                self.tags.add('ternary-idiom')
                a, b = r.choice([('1', '0'), ('0', '1'), ('True', 'False'), ('False', 'True'), ('1', '1'), ('2', '0'), ('0', '2')])
                cnd = r.choice([self.wide(d - 1), f'({self.value(d - 1)} & {r.choice([2, 4, 6, 12])})', self.cond(d - 1),
                                f'({self.int_leaf()} + {self.value(d - 1)})'])
                return f'({a} if {cnd} else {b})'
            return f'({self.value(d - 1)} if {self.cond(d - 1)} else {self.value(d - 1)})'
        if self.wild:
            if k < 95:
                self.tags.add('bool-value')
                return f'({self.value(d - 1)} {r.choice(["or", "and"])} {self.value(d - 1)})'
            if k < 97:
                self.tags.add('neg-value')
                return f'(-{self.value(d - 1)})'
        if r.chance(1, 3):
            # a left-associated chain whose two right operands are CONSTANTS (literal, ord('c') in clock methods): what a
            # constant-collapsing pass rewrites
            self.tags.add('const-chain')
            o1, o2 = r.choice(CHAIN_OPS), r.choice(CHAIN_OPS)
            return f'(({self.value(d - 1)} {o1} {self.const_txt()}) {o2} {self.const_txt()})'
        return f'({self.value(d - 1)} + {self.int_leaf()})'

    def const_txt(self):
        v = self.r.choice([1, 2, 3, 5, 7, 10, 48, 65, 97])
        if self.seq and 32 < v < 127 and self.r.chance(1, 2):
            return f"ord('{chr(v)}')"
        return str(v)

    def wide(self, d):
        """value expression whose Verilog self-determined width is >= 32 (contains an integer operand at context level)"""
        r = self.r
        k = r.randint(0, 5)
        if k == 0:
            return self.int_leaf()
        if k == 1:
            return f'({self.value(d)} + {self.int_leaf()})'
        if k == 2:
            return f'({self.value(d)} & {r.choice([1, 3, 7, 15, 255])})'
        if k == 3:
            return f'({self.int_leaf()} | {self.value(d)})'
        if k == 4:
            return f'({self.value(d)} ^ {r.choice([0, 1, 5])})'
        return f'({self.value(d)} % {r.choice([2, 3, 5, 16])})'

    def cmp(self, d):
        r = self.r
        op = r.choice(['==', '!=', '<', '<=', '>', '>='])
        k = r.randint(0, 9)
        if k < 3:
            a, b = self.leaf(), self.leaf()
        elif k < 7:
            a, b = self.value(d), self.wide(d)
            if r.chance(1, 2):
                a, b = b, a
        else:
            a, b = self.wide(d), self.wide(d)
        if self.wild and r.chance(1, 6):
            self.tags.add('narrow-compare')
            a, b = f'({self.port_leaf()} + {self.port_leaf()})', self.port_leaf()
        if self.wild and r.chance(1, 8):
            self.tags.add('cmp-rhs-bitop')
            return f'({a} {op} {self.leaf()} {r.choice(["&", "|", "^"])} {self.leaf()})'
        # the right comparator is emitted bare: keep it a leaf or an arithmetic expression in the safe profile
        if not self.wild and b.startswith('(') and any(t in b for t in (' & ', ' | ', ' ^ ', ' == ', ' != ', ' < ', ' <= ', ' > ', ' >= ', ' and ', ' or ', 'not ')):
            a, b = b, (self.leaf() if r.chance(1, 2) else f'({self.int_leaf()} + {self.leaf()})')
        return f'({a} {op} {b})'

    def cond(self, d):
        r = self.r
        if d <= 0:
            return r.choice([self.cmp(0), self.port_leaf(), self.cmp(0)])
        k = r.randint(0, 9)
        if k < 4:
            return self.cmp(d - 1)
        if k < 5:
            return self.port_leaf()
        if k < 7:
            n = r.choice([2, 2, 2, 3, 4])
            return '(' + f' {r.choice(["and", "or"])} '.join(self.cond(d - 1) for _ in range(n)) + ')' if n == 2 else \
                   '(' + f' {r.choice(["and", "or"])} '.join(self.cond(0) for _ in range(n)) + ')'
        if k < 8:
            return f'(not {self.cond(d - 1)})'
        if k < 9:
            return self.wide(d - 1)
        if self.wild:
            self.tags.add('narrow-test')
            return f'({self.port_leaf()} + {self.port_leaf()})'
        return self.cmp(d - 1)

    # ---- statements
    def assign_out(self, d):
        n, w = self.r.choice(self.outs)
        meth = 'prepare' if self.seq else 'put'
        if self.wild and self.r.chance(1, 25):
            meth = 'put' if self.seq else 'prepare'
            self.tags.add('put-in-clock' if self.seq else 'prepare-in-propagate')
        if self.wild:
            val = self.value(d)
        else:
            # proved fragment: the assignment context must be >= 32 bits wide (integer operand at context level or a
            # 32-bit target) or the value a bare port read
            val = self.r.choice([self.wide(d), self.wide(d), self.port_leaf(), self.int_leaf()]) if w < 32 else self.value(d)
        return [f'self.{self.attr_of[n]}.{meth}({val})']

    def stmt(self, d, depth):
        r = self.r
        k = r.randint(0, 99)
        if k < 30 or depth <= 0:
            return self.assign_out(d)
        if k < 45 and self.seq and self.state:
            n, _ = r.choice(self.state)
            if r.chance(1, 4):
                op = r.choice(['+=', '-=', '|=', '&=', '^=', '>>=']) if self.wild else r.choice(['+=', '|=', '&=', '^=', '>>='])
                return [f'self.{n} {op} {self.value(d - 1) if op != ">>=" else str(r.randint(0, 3))}']
            return [f'self.{n} = ({self.value(d)}) & {r.choice([255, 65535, 0xFFFFFF, 0x7FFFFFFF])}']
        if k < 55:
            nm = f't{len(self.locals)}'
            if self.wild and self.state and r.chance(1, 12):
                nm = self.state[0][0]
                self.tags.add('local-named-like-attr')
            e = self.value(d)
            if nm not in self.locals and depth == self.top_depth:
                out = [f'{nm} = {e}']
                self.locals.append(nm)
                return out
            return self.assign_out(d)
        if k < 85:
            out = [f'if {self.cond(d)}:'] + ['    ' + l for l in self.block(d, depth - 1)]
            n_elif = r.choice([0, 0, 1, 2])
            for _ in range(n_elif):
                out += [f'elif {self.cond(d)}:'] + ['    ' + l for l in self.block(d, depth - 1)]
            if r.chance(1, 2):
                out += ['else:'] + ['    ' + l for l in self.block(d, depth - 1)]
            return out
        if k < 96 and self.seq:
            subj = r.choice([f'self.{self.state[0][0]}' if self.state else self.int_leaf(), self.wide(d - 1), self.port_leaf()])
            if self.wild and r.chance(1, 5):
                subj = f'({self.port_leaf()} + {self.port_leaf()})'
                self.tags.add('narrow-subject')
            out = [f'match {subj}:']
            vals = r.shuffle(range(0, 6))[:r.randint(1, 4)]
            for v in vals:
                g = ''
                if self.wild and r.chance(1, 3):
                    g = f' if {self.cond(0)}'
                    self.tags.add('case-guard')
                out += [f'    case {v}{g}:'] + ['        ' + l for l in self.block(d, depth - 1)]
            if not r.chance(1, 3 if self.wild else 4):
                out += ['    case _:'] + ['        ' + l for l in self.block(d, depth - 1)]
            else:
                self.tags.add('match-no-default')       # emitted as `default:;` since /repo b2612d8: part of the proved fragment
            self.tags.add('match')
            return out
        return self.assign_out(d)

    def block(self, d, depth):
        out = []
        for _ in range(self.r.randint(1, 3)):
            out += self.stmt(d, depth)
        return out


def refuse_snippet(kind, rng, g):
    a = f'self.{g.attr_of[g.ins[0][0]]}.get()'
    o = f'self.{g.attr_of[g.outs[0][0]]}'
    wr = 'prepare' if g.seq else 'put'
    return {
        'for': [f'x = 0', f'for i in range(3):', f'    x = x + {a}', f'{o}.{wr}(x)'],
        'while': [f'x = {a}', f'while x > 3:', f'    x = x - 3', f'{o}.{wr}(x)'],
        'call': [f'{o}.{wr}(max({a}, 3))'],
        'chained-compare': [f'if 1 < {a} < 5:', f'    {o}.{wr}(1)', 'else:', f'    {o}.{wr}(0)'],
        'chained-compare-3': [f'if 0 < {a} < 12 < {a} + 9:', f'    {o}.{wr}(1)', 'else:', f'    {o}.{wr}(0)'],
        'chained-compare-mixed': [f'if 0 <= {a} != 3 < 9:', f'    {o}.{wr}(1)', 'else:', f'    {o}.{wr}(0)'],
        'chained-compare-eq': [f'if {a} == {a} == 2:', f'    {o}.{wr}(1)', 'else:', f'    {o}.{wr}(0)'],
        'chained-compare-value': [f'{o}.{wr}((1 < {a} < 5) + 2)'],
        # the value expression READS an earlier target: a transpiler that accepts `x = y = e` and re-evaluates e per target is visible
        'multi-target': [f'x = {a} + 1', 'x = y = x + 3', f'{o}.{wr}(x * 16 + y)'],
        'multi-target-3': [f'x = {a} + 1', 'x = y = z = x * 2 + 1', f'{o}.{wr}((x * 7 + y * 3 + z) & 255)'],
        'aug-pow': [f'x = {a}', 'x **= 2', f'{o}.{wr}(x)'],
        'aug-truediv': [f'x = {a}', 'x /= 2', f'{o}.{wr}(3)'],
        'aug-matmult': [f'x = {a}', 'x @= 2', f'{o}.{wr}(3)'],
        'aug-subscript-target': ['self.tab[0] += 1', f'{o}.{wr}({a})'],
        'call-starred-arg': [f'{o}.{wr}(*[{a}])'],
        'call-kw-prepare': [f'{o}.{wr}(val={a})'],
        'call-get-arg': [f'{o}.{wr}({a[:-2]}(0))'],
        'call-two-args': [f'{o}.{wr}({a}, 2)'],
        'call-self-method': [f'{o}.{wr}(self.helper({a}))'],
        'call-on-local': [f'x = {a}', f'{o}.{wr}(x.bit_length())'],
        'const-bytes': ['x = b"a"', f'{o}.{wr}({a})'],
        'const-none': ['x = None', f'{o}.{wr}({a})'],
        'const-ellipsis': ['x = ...', f'{o}.{wr}({a})'],
        'const-complex': [f'{o}.{wr}({a} + 1j)'],
        'attr-nonself': [f'{o}.{wr}({a} + py4hw.__name__.__len__())'],
        'attr-nested-target': ['self.sub.x = 1', f'{o}.{wr}({a})'],
        'subscript-target': ['self.tab[0] = 1', f'{o}.{wr}({a})'],
        'slice': [f'{o}.{wr}(self.tab[0:1][0])'],
        'subscript-index': [f'{o}.{wr}(({a}, 2)[0])'],
        'bare-expr-stmt': [f'{a} + 1', f'{o}.{wr}({a})'],
        'bare-call-stmt': ['self.helper()', f'{o}.{wr}({a})'],
        'assign-to-wire-attr': [f'{o}.value = {a}'],
        'match-value-attr': [f'match {a} & 3:', '    case py4hw.ZERO:', f'        {o}.{wr}(5)', '    case _:', f'        {o}.{wr}(2)'],
        'compare-tuple': [f'if ({a}, 1) == (2, 1):', f'    {o}.{wr}(1)', 'else:', f'    {o}.{wr}(0)'],
        'boolop-in-call-kw': [f'print({a}, end="")', f'{o}.{wr}({a} and 1, 2)'],
        'tuple-target': [f'x, y = {a}, 2', f'{o}.{wr}(x + y)'],
        'float-const': [f'{o}.{wr}({a} + 1.5)'],
        'list-literal': [f'x = [1, 2, 3]', f'{o}.{wr}(x[0])'],
        'pow': [f'{o}.{wr}({a} ** 2)'],
        'truediv': [f'{o}.{wr}({a} / 2)'],
        'subscript': [f'{o}.{wr}(self.tab[{a} & 1])'],
        'lambda': [f'f = lambda z: z + 1', f'{o}.{wr}(f({a}))'],
        'string-const': [f'x = "abc"', f'{o}.{wr}({a})'],
        'is-compare': [f'if {a} is 0:', f'    {o}.{wr}(1)'],
        'unary-plus': [f'{o}.{wr}(+{a})'],
        'walrus': [f'if (z := {a}) > 2:', f'    {o}.{wr}(z)'],
        'return-value': [f'{o}.{wr}({a})', 'return 5'],
        'nested-def': ['def h(z):', '    return z + 1', f'{o}.{wr}({a})'],
        'aug-tuple': [f'x = {a}', f'x += 1,', f'{o}.{wr}(3)'],
        'in-compare': [f'if {a} in (1, 2):', f'    {o}.{wr}(1)'],
        'match-capture': [f'match {a} & 3:', '    case 0:', f'        {o}.{wr}(7)', '    case other:', f'        {o}.{wr}(other + 1)'],
        'match-as': [f'match {a} & 3:', '    case 1 as v:', f'        {o}.{wr}(v + 4)', '    case _:', f'        {o}.{wr}(2)'],
        'match-or': [f'match {a} & 3:', '    case 1 | 2:', f'        {o}.{wr}(5)', '    case _:', f'        {o}.{wr}(2)'],
        'match-sequence': [f'match {a} & 3:', '    case [1, 2]:', f'        {o}.{wr}(5)', '    case _:', f'        {o}.{wr}(2)'],
        'match-star': [f'match {a} & 3:', '    case [1, *rest]:', f'        {o}.{wr}(5)', '    case _:', f'        {o}.{wr}(2)'],
        'match-class': [f'match {a} & 3:', '    case int():', f'        {o}.{wr}(5)', '    case _:', f'        {o}.{wr}(2)'],
        'match-mapping': [f'match {a} & 3:', '    case {1: v}:', f'        {o}.{wr}(5)', '    case _:', f'        {o}.{wr}(2)'],
        'match-guarded-wildcard': [f'match {a} & 3:', '    case 0:', f'        {o}.{wr}(7)', f'    case _ if {a} > 0:', f'        {o}.{wr}(5)',
                                   '    case _:', f'        {o}.{wr}(2)'],
        'return-bare': [f'{o}.{wr}({a})', 'return'],
        'delete': [f'x = {a}', f'{o}.{wr}(x)', 'del x'],
        'annassign': [f'x: int = {a}', f'{o}.{wr}(x)'],
        'with': ['with self.ctx():', f'    {o}.{wr}({a})'],
        'raise': [f'if {a} > 300:', '    raise ValueError()', f'{o}.{wr}({a})'],
        'try': ['try:', f'    {o}.{wr}({a})', 'except ValueError:', f'    {o}.{wr}(0)'],
        'trystar': ['try:', f'    {o}.{wr}({a})', 'except* ValueError:', f'    {o}.{wr}(0)'],
        'import': ['import math', f'{o}.{wr}({a})'],
        'importfrom': ['from math import floor', f'{o}.{wr}({a})'],
        'global': ['global c02_zz', f'{o}.{wr}({a})'],
        'pass': [f'if {a} > 2:', '    pass', f'{o}.{wr}({a})'],
        'async-def': ['async def h(z):', '    async for q in z:', '        await q', '    async with z as y:', '        pass', f'{o}.{wr}({a})'],
        'classdef': ['class Inner:', '    pass', f'{o}.{wr}({a})'],
        'typealias': ['type Word = int', f'{o}.{wr}({a})'],
        'yield': [f'{o}.{wr}({a})', 'yield 1'],
        'yieldfrom': [f'{o}.{wr}({a})', 'yield from ()'],
        'dict': ['x = {1: 2}', f'{o}.{wr}({a})'],
        'set': ['x = {1, 2}', f'{o}.{wr}({a})'],
        'listcomp': [f'x = [z for z in range(3)]', f'{o}.{wr}({a})'],
        'setcomp': [f'x = {{z for z in range(3)}}', f'{o}.{wr}({a})'],
        'dictcomp': [f'x = {{z: z for z in range(3)}}', f'{o}.{wr}({a})'],
        'genexp': [f'x = (z for z in range(3))', f'{o}.{wr}({a})'],
        'fstring': [f'x = f"v={{{a}}}"', f'{o}.{wr}({a})'],
        'starred': ['x = [*(1, 2)]', f'{o}.{wr}({a})'],
        'tuple-value': ['x = (1, 2)', f'{o}.{wr}({a})'],
        'matmult': [f'{o}.{wr}({a} @ 2)'],
        'isnot-compare': [f'if {a} is not 0:', f'    {o}.{wr}(1)'],
        'notin-compare': [f'if {a} not in (1, 2):', f'    {o}.{wr}(1)'],
        'match-singleton': [f'match {a} & 3:', '    case None:', f'        {o}.{wr}(5)', '    case _:', f'        {o}.{wr}(2)'],
        'other-call': [f'{o}.{wr}(abs({a}))'],
        'call-keyword': [f'{o}.{wr}(int({a}, base=10))'],
    }[kind]


# every statement / expression / operator / pattern node kind of `ast`: part of the subset, or the refusal-stream kind(s) that
# exercise it, or "nested-only" (cannot occur in a method body except inside the named refused construct)
AST_KINDS = {
    # statements
    'FunctionDef': ('refuse', ['nested-def']), 'AsyncFunctionDef': ('refuse', ['async-def']), 'ClassDef': ('refuse', ['classdef']),
    'Return': ('refuse', ['return-value', 'return-bare']), 'Delete': ('refuse', ['delete']), 'Assign': ('subset', 'single Name / self.attr target'),
    'TypeAlias': ('refuse', ['typealias']), 'AugAssign': ('subset', ''), 'AnnAssign': ('refuse', ['annassign']), 'For': ('refuse', ['for']),
    'AsyncFor': ('nested-only', 'AsyncFunctionDef'), 'While': ('refuse', ['while']), 'If': ('subset', ''), 'With': ('refuse', ['with']),
    'AsyncWith': ('nested-only', 'AsyncFunctionDef'), 'Match': ('subset', 'value patterns and `case _`'), 'Raise': ('refuse', ['raise']),
    'Try': ('refuse', ['try']), 'TryStar': ('refuse', ['trystar']), 'Assert': ('subset', 'removed'), 'Import': ('refuse', ['import']),
    'ImportFrom': ('refuse', ['importfrom']), 'Global': ('refuse', ['global']), 'Nonlocal': ('nested-only', 'FunctionDef'),
    'Expr': ('subset', 'put / prepare / print / docstring'), 'Pass': ('refuse', ['pass']), 'Break': ('nested-only', 'While'),
    'Continue': ('nested-only', 'While'),
    # expressions
    'BoolOp': ('subset', ''), 'NamedExpr': ('refuse', ['walrus']), 'BinOp': ('subset', ''), 'UnaryOp': ('subset', ''), 'Lambda': ('refuse', ['lambda']),
    'IfExp': ('subset', '`((c) ? a : b)` since /repo 760fbc8, also inside a call'), 'Dict': ('refuse', ['dict']),
    'Set': ('refuse', ['set']), 'ListComp': ('refuse', ['listcomp']), 'SetComp': ('refuse', ['setcomp']), 'DictComp': ('refuse', ['dictcomp']),
    'GeneratorExp': ('refuse', ['genexp']), 'Await': ('nested-only', 'AsyncFunctionDef'), 'Yield': ('refuse', ['yield']),
    'YieldFrom': ('refuse', ['yieldfrom']), 'Compare': ('subset', 'single comparison; chained: chained-compare'),
    'Call': ('subset', 'w.get() / w.put(e) / w.prepare(e) / getParameterValue / print / ord; others: call, other-call, call-keyword'),
    'FormattedValue': ('nested-only', 'JoinedStr'), 'JoinedStr': ('refuse', ['fstring']),
    'Constant': ('subset', 'int / bool (str as docstring); float: float-const (refused since /repo 61df158), str: string-const'), 'Attribute': ('subset', 'self.x'),
    'Subscript': ('refuse', ['subscript']), 'Starred': ('refuse', ['starred']), 'Name': ('subset', ''), 'List': ('refuse', ['list-literal']),
    'Tuple': ('refuse', ['tuple-target', 'tuple-value']), 'Slice': ('nested-only', 'Subscript'),
    # operators
    'Add': ('subset', ''), 'Sub': ('subset', ''), 'Mult': ('subset', ''), 'MatMult': ('refuse', ['matmult']), 'Div': ('refuse', ['truediv']),
    'Mod': ('subset', ''), 'Pow': ('refuse', ['pow']), 'LShift': ('subset', ''), 'RShift': ('subset', ''), 'BitOr': ('subset', ''),
    'BitXor': ('subset', ''), 'BitAnd': ('subset', ''), 'FloorDiv': ('subset', ''),
    'Invert': ('subset', ''), 'Not': ('subset', ''), 'UAdd': ('refuse', ['unary-plus']), 'USub': ('subset', ''),
    'Eq': ('subset', ''), 'NotEq': ('subset', ''), 'Lt': ('subset', ''), 'LtE': ('subset', ''), 'Gt': ('subset', ''), 'GtE': ('subset', ''),
    'Is': ('refuse', ['is-compare']), 'IsNot': ('refuse', ['isnot-compare']), 'In': ('refuse', ['in-compare']), 'NotIn': ('refuse', ['notin-compare']),
    'And': ('subset', ''), 'Or': ('subset', ''),
    # match patterns
    'MatchValue': ('subset', ''), 'MatchSingleton': ('refuse', ['match-singleton']), 'MatchSequence': ('refuse', ['match-sequence']),
    'MatchMapping': ('refuse', ['match-mapping']), 'MatchClass': ('refuse', ['match-class']), 'MatchStar': ('refuse', ['match-star']),
    'MatchAs': ('subset', 'only the bare wildcard `_`; capture: match-capture, as: match-as, guarded wildcard: match-guarded-wildcard'),
    'MatchOr': ('refuse', ['match-or']),
}


def ast_kind_audit():
    """-> (unclassified node kinds of the running Python's `ast`, classified kinds that no longer exist, refuse kinds without
    snippet, snippet kinds that are not valid Python).  All four must be empty."""
    import ast
    kinds = []
    for base in (ast.stmt, ast.expr, ast.operator, ast.unaryop, ast.cmpop, ast.boolop, ast.pattern):
        kinds += [c.__name__ for c in base.__subclasses__()]
    unclassified = [k for k in kinds if k not in AST_KINDS]
    gone = [k for k in AST_KINDS if k not in kinds]
    missing = [r for k, (st, v) in AST_KINDS.items() if st == 'refuse' for r in v if r not in REFUSE_KINDS]
    return unclassified, gone, missing


def apply_naming(rng, g, scheme):
    """attribute names of the ports: any injective renaming is legal Python (self.<attr> = self.addIn('<port>', w)); the emitted
    text must name every wire by its PORT name.  Schemes: fresh (one attribute renamed), swap (two ports exchange names), chain
    (one attribute is ANOTHER port's name, whose own attribute is fresh), rotate (all ports shifted by one)."""
    ports = [n for n, _ in g.ins + g.outs]
    if scheme == 'fresh' or len(ports) < 2:
        n = rng.choice(ports)
        g.attr_of[n] = n + '_w'
    elif scheme == 'swap':
        p, q = rng.shuffle(ports)[:2]
        g.attr_of[p], g.attr_of[q] = q, p
    elif scheme == 'chain':
        p, q = rng.shuffle(ports)[:2]
        g.attr_of[p], g.attr_of[q] = q, q + '_w'
    else:
        for i, n in enumerate(ports):
            g.attr_of[n] = ports[(i + 1) % len(ports)]
    g.tags.add('attr-ne-port')
    g.tags.add('naming:' + scheme)


NAMING_SCHEMES = ['fresh', 'swap', 'chain', 'rotate']
CONST_VALUES = [0, 1, 2, 3, 7, 10, 255, 1000]


def alt_widths(rng, wires):
    """other port widths for a further instance of the same class, inside the same width class (<= 3 bits: shift amounts,
    4..31: narrow, >= 32: wide), so that the generated body keeps its classification"""
    def alt(w):
        if w <= 3:
            return rng.choice([1, 2, 3])
        if w < 32:
            return rng.choice([4, 8, 12, 16, 24, 31])
        return w
    return [(n, alt(w), d) for n, w, d in wires]


def alt_consts(rng, consts):
    """other constructor arguments for a further instance of the same class: every value differs from the first instance's"""
    return [(n, rng.choice([x for x in CONST_VALUES + [4, 5, 6, 12, 100] if x != v])) for n, v in consts]


def gen_class(rng, idx, profile, refuse_kind=None, force_consts=False, naming=None):
    seq = rng.chance(3, 4)
    g = G(rng, profile, seq)
    wl = WIDTHS_WILD if profile == 'wild' else WIDTHS_SAFE
    g.ins = [(f'i{k}', rng.choice(wl if not refuse_kind else [4, 8, 8])) for k in range(rng.randint(1, 4))]
    g.outs = [(f'o{k}', rng.choice(wl + [32])) for k in range(rng.randint(1, 3))]
    g.attr_of = {n: n for n, _ in g.ins + g.outs}
    if naming is not None or (not refuse_kind and rng.chance(1, 5)):
        # ports referred to by their port name since /repo 53243dd: every naming scheme is inside the proved fragment
        apply_naming(rng, g, naming or rng.choice(NAMING_SCHEMES))
    if seq:
        g.state = [(f's{k}', rng.choice([0, 0, 1, 2, 5, 100])) for k in range(rng.randint(0, 3))]
    elif rng.chance(1, 2):
        # a propagate() may READ integer attributes set in the constructor (never assigns them): they need the `initial` block too
        g.state = [(f's{k}', rng.choice([1, 2, 5, 100, 255])) for k in range(rng.randint(1, 2))]
    g.consts = [(f'k{k}', rng.choice(CONST_VALUES)) for k in range(rng.randint(2, 3) if force_consts else rng.randint(0, 2))]
    g.force_consts = force_consts
    g.top_depth = rng.randint(1, 3)
    d = rng.randint(1, 3)
    if refuse_kind:
        body = refuse_snippet(refuse_kind, rng, g)
        g.tags.add('refuse:' + refuse_kind)
    else:
        body = []
        for _ in range(rng.randint(1, 5)):
            body += g.stmt(d, g.top_depth)
        if profile == 'wild' and not seq and rng.chance(1, 6):
            n, _ = g.outs[0]
            body += [f'self.{g.attr_of[n]}.put(self.{g.attr_of[n]}.get() + 1)']
            g.tags.add('read-after-put')
    name = f'G{idx}'
    args = [n for n, _ in g.ins] + [n for n, _ in g.outs] + [n for n, _ in g.consts]
    L = [f'class {name}(py4hw.Logic):',
         f'    def __init__(self, parent, name, {", ".join(args)}):',
         '        super().__init__(parent, name)']
    for n, _ in g.ins:
        L.append(f"        self.{g.attr_of[n]} = self.addIn('{n}', {n})")
    for n, _ in g.outs:
        L.append(f"        self.{g.attr_of[n]} = self.addOut('{n}', {n})")
    for n, _ in g.consts:
        L.append(f'        self.{n} = {n}')
    init_lines = [(n, v) for n, v in g.state]
    if g.state and rng.chance(1, 3):
        # the constructor assigns some state attribute two or three times (interleaved with the others): the constructed object
        # holds the LAST constant, and so must the emitted `initial` block
        g.tags.add('multi-init')
        final = dict(g.state)
        init_lines = []
        for n, v in g.state:
            k = rng.choice([1, 2, 2, 3])
            for j in range(k - 1):
                init_lines.append((n, rng.choice([x for x in (0, 1, 2, 3, 5, 9, 77, 100) if x != final[n]])))
        init_lines = rng.shuffle(init_lines) + [(n, v) for n, v in rng.shuffle(g.state)]
        # keep declaration (first-assignment) order arbitrary but the LAST assignment of every name = its final value
    for n, v in init_lines:
        # a flag-like initialiser: the literal True/False is the integer 1/0 (Python attributes are untyped: the method stores
        # multi-bit values into the same attribute later, so the declaration must stay `integer`)
        lit = {0: 'False', 1: 'True'}[v] if v in (0, 1) and rng.chance(1, 2) else str(v)
        if lit in ('True', 'False'):
            g.tags.add('bool-init')
        L.append(f'        self.{n} = {lit}')
    if refuse_kind == 'subscript':
        pass
    L.append(f'    def {"clock" if seq else "propagate"}(self):')
    L += ['        ' + l for l in body]
    return dict(name=name, src='\n'.join(L) + '\n', ins=g.ins, outs=g.outs, consts=g.consts, state=g.state, seq=seq,
                tags=sorted(g.tags), attr_of=g.attr_of, profile=profile)


# ------------------------------------------------------------------------------------------------ nesting / precedence stream
PY_BIN = {'add': '+', 'sub': '-', 'mul': '*', 'fdiv': '//', 'fmod': '%', 'band': '&', 'bor': '|', 'bxor': '^', 'shl': '<<', 'shr': '>>',
          'eq': '==', 'ne': '!=', 'lt': '<', 'le': '<=', 'gt': '>', 'ge': '>='}
NEST_BIN = ['add', 'sub', 'mul', 'fdiv', 'fmod', 'band', 'bor', 'bxor', 'shl', 'shr']
NEST_CMP = ['eq', 'ne', 'lt', 'le', 'gt', 'ge']
NEST_POOL = [0, 1, 2, 3, 5, 7, 8, 12, 100, 255]


import operator as _o
_OPF = {'add': _o.add, 'sub': _o.sub, 'mul': _o.mul, 'fdiv': _o.floordiv, 'fmod': _o.mod, 'band': _o.and_, 'bor': _o.or_, 'bxor': _o.xor,
        'shl': _o.lshift, 'shr': _o.rshift, 'eq': _o.eq, 'ne': _o.ne, 'lt': _o.lt, 'le': _o.le, 'gt': _o.gt, 'ge': _o.ge}


def _ap(op, a, b):
    """Python operator inside the domain; None when it raises or leaves [0, 2^31) (shift counts kept <= 20)"""
    if a is None or b is None:
        return None
    if op in ('fdiv', 'fmod') and b == 0:
        return None
    if op in ('shl', 'shr') and b > 20:
        return None
    v = int(_OPF[op](a, b))
    return v if 0 <= v < (1 << 31) else None


def _rhs_safe(outer, inner):
    """expressions kept in a class of their own because Tp.supported excludes them (they must not mask the others):
    a comparison as shift AMOUNT is 1 bit wide, which `Tp.exact` conservatively rejects (narrow-shift).
    (The right comparator is parenthesised like any other operand since /repo 72c6814: no longer a reason.)"""
    return not (outer in ('shl', 'shr') and inner in NEST_CMP)


def nest_vectors(rng, outer, inner, side, n_diff=3, n_rand=2):
    """input triples inside the domain; first those on which the two groupings of `x o (y i z)` / `(x i y) o z` DIFFER"""
    diff, diff2, same = [], [], []
    for x in NEST_POOL:
        for y in NEST_POOL:
            for z in NEST_POOL:
                if side == 'R':
                    want = _ap(outer, x, _ap(inner, y, z))
                    alt = _ap(inner, _ap(outer, x, y), z)
                else:
                    want = _ap(outer, _ap(inner, x, y), z)
                    alt = _ap(inner, x, _ap(outer, y, z))
                if want is None:
                    continue
                (diff if (alt is not None and alt != want) else (diff2 if alt is None else same)).append((x, y, z))
    diff, diff2, same = rng.shuffle(diff), rng.shuffle(diff2), rng.shuffle(same)
    d = (diff + diff2)[:n_diff]
    return d + same[:n_rand], len(diff) + len(diff2)


def gen_nest_classes(rng, n_diff=3, n_rand=2):
    """for every ordered pair (outer, inner) of binary/comparison operators: the inner operator nested on the LEFT and on the
    RIGHT of the outer one (same operator included), operands = integers loaded from 8-bit ports, one expression selected per
    cycle by the port `s`; histories drive, for each expression, operand triples on which the two possible groupings differ.
    Expressions whose right comparator needs parentheses (known finding cmp-rhs-prec) go to classes of their own."""
    out = []
    idx = 0
    for outer in NEST_BIN + NEST_CMP:
        for unsafe in (False, True):
            exprs = []
            for inner in NEST_BIN + NEST_CMP:
                for side in ('L', 'R'):
                    if (side == 'R' and not _rhs_safe(outer, inner)) != unsafe:
                        continue
                    txt = f'(x {PY_BIN[outer]} (y {PY_BIN[inner]} z))' if side == 'R' else f'((x {PY_BIN[inner]} y) {PY_BIN[outer]} z)'
                    vecs, nd = nest_vectors(rng.fork(('nv', outer, inner, side)), outer, inner, side, n_diff, n_rand)
                    if vecs:
                        exprs.append(dict(txt=txt, vecs=vecs, outer=outer, inner=inner, side=side, n_diff=nd))
            if not exprs:
                continue
            name = f'N{idx}'
            idx += 1
            nout = len(exprs)
            args = ['a', 'b', 'c', 's'] + [f'o{j}' for j in range(nout)]
            L = [f'class {name}(py4hw.Logic):', f'    def __init__(self, parent, name, {", ".join(args)}):',
                 '        super().__init__(parent, name)']
            for n in ('a', 'b', 'c', 's'):
                L.append(f"        self.{n} = self.addIn('{n}', {n})")
            for j in range(nout):
                L.append(f"        self.o{j} = self.addOut('o{j}', o{j})")
            L += ['    def clock(self):', '        x = self.a.get()', '        y = self.b.get()', '        z = self.c.get()']
            hist = []
            for j, e in enumerate(exprs):
                L += [f'        if self.s.get() == {j}:', f'            self.o{j}.prepare({e["txt"]})']
                for (x, y, z) in e['vecs']:
                    hist.append({'a': x, 'b': y, 'c': z, 's': j})
            out.append(dict(name=name, src='\n'.join(L) + '\n', ins=[('a', 8), ('b', 8), ('c', 8), ('s', 6)],
                            outs=[(f'o{j}', 32) for j in range(nout)], consts=[], state=[], seq=True,
                            tags=['nest', 'nest-unsafe-rhs'] if unsafe else ['nest'], attr_of={}, profile='nest',
                            history=rng.fork(('nh', name)).shuffle(hist), exprs=exprs))
    return out


# ------------------------------------------------------------------------------------------------ constant-operand nesting stream
CONST_POOL = [0, 1, 2, 3, 5, 7, 8, 10, 12, 48, 65, 97, 100, 255]
CONST_PATTERNS_2 = ['vkk', 'kvk', 'kkv', 'kkk']      # at least two constant operands: what constant folding / collapsing rewrites
CONST_PATTERNS_1 = ['kvv', 'vkv', 'vvk']


def _const_form(rng, v, consts, seq=True):
    """a constant operand as source text: literal, ord('c') (evaluated by PropagateConstants), constructor constant self.k
    (substituted by ReplaceWiresAndVariables)"""
    f = rng.randint(0, 3)
    if f == 0 and seq and 32 < v < 127 and chr(v) not in "'\\":
        return f"ord('{chr(v)}')"
    if f == 1:
        for n, x in consts:
            if x == v:
                return f'self.{n}'
        if len(consts) < 12:
            consts.append((f'k{len(consts)}', v))
            return f'self.k{len(consts) - 1}'
    return str(v)


def constnest_vectors(rng, outer, inner, side, pattern, n_diff=1, n_rand=1, tries=10):
    """constants for the 'k' positions of (x, y, z) and values of the remaining variables, inside the domain; preferred: constants
    for which some variable values make the two groupings of the expression DIFFER.  -> (consts {pos: v}, vectors, n_diff_found)"""
    kpos = [i for i, ch in enumerate(pattern) if ch == 'k']
    vpos = [i for i, ch in enumerate(pattern) if ch == 'v']
    best = None
    for _ in range(tries):
        cs = {i: rng.choice(CONST_POOL) for i in kpos}
        diff, same = [], []
        combos = [[]]
        for _i in vpos:
            combos = [c + [v] for c in combos for v in NEST_POOL]
        for combo in combos:
            t = [0, 0, 0]
            for i in kpos:
                t[i] = cs[i]
            for i, v in zip(vpos, combo):
                t[i] = v
            x, y, z = t
            if side == 'R':
                want, alt = _ap(outer, x, _ap(inner, y, z)), _ap(inner, _ap(outer, x, y), z)
            else:
                want, alt = _ap(outer, _ap(inner, x, y), z), _ap(inner, x, _ap(outer, y, z))
            if want is None:
                continue
            (diff if alt != want else same).append((x, y, z))
        if best is None or len(diff) > len(best[1]) or (not best[1] and len(same) > len(best[2])):
            best = (cs, diff, same)
        if diff:
            break
    cs, diff, same = best
    diff, same = rng.shuffle(diff), rng.shuffle(same)
    return cs, diff[:n_diff] + same[:(n_rand if diff else max(1, n_rand))], len(diff)


def gen_constnest_classes(rng, patterns=CONST_PATTERNS_2, n_diff=1, n_rand=1):
    """the nesting stream with CONSTANT operands: for every ordered pair (outer, inner) of binary/comparison operators, nested left
    and right, and every pattern of which of the three operands are constants (each constant written as a literal, ord('c') or a
    constructor constant): the emitted expression must keep the Python value for variable values on which the two groupings differ.
    One class per (outer operator, pattern)."""
    out = []
    idx = 0
    for outer in NEST_BIN + NEST_CMP:
        for pattern in patterns:
            exprs, consts = [], []
            for inner in NEST_BIN + NEST_CMP:
                for side in ('L', 'R'):
                    if side == 'R' and not _rhs_safe(outer, inner):
                        continue
                    r = rng.fork(('cnv', outer, inner, side, pattern))
                    cs, vecs, nd = constnest_vectors(r, outer, inner, side, pattern, n_diff, n_rand)
                    if not vecs:
                        continue
                    names = ['x', 'y', 'z']
                    ops = [(_const_form(r, cs[i], consts) if i in cs else names[i]) for i in range(3)]
                    txt = f'({ops[0]} {PY_BIN[outer]} ({ops[1]} {PY_BIN[inner]} {ops[2]}))' if side == 'R' else \
                          f'(({ops[0]} {PY_BIN[inner]} {ops[1]}) {PY_BIN[outer]} {ops[2]})'
                    exprs.append(dict(txt=txt, vecs=vecs, outer=outer, inner=inner, side=side, pattern=pattern, n_diff=nd))
            if not exprs:
                continue
            name = f'K{idx}'
            idx += 1
            nout = len(exprs)
            args = ['a', 'b', 'c', 's'] + [f'o{j}' for j in range(nout)] + [n for n, _ in consts]
            L = [f'class {name}(py4hw.Logic):', f'    def __init__(self, parent, name, {", ".join(args)}):',
                 '        super().__init__(parent, name)']
            for n in ('a', 'b', 'c', 's'):
                L.append(f"        self.{n} = self.addIn('{n}', {n})")
            for j in range(nout):
                L.append(f"        self.o{j} = self.addOut('o{j}', o{j})")
            for n, _ in consts:
                L.append(f'        self.{n} = {n}')
            L += ['    def clock(self):', '        x = self.a.get()', '        y = self.b.get()', '        z = self.c.get()']
            hist = []
            for j, e in enumerate(exprs):
                L += [f'        if self.s.get() == {j}:', f'            self.o{j}.prepare({e["txt"]})']
                for (x, y, z) in e['vecs']:
                    hist.append({'a': x, 'b': y, 'c': z, 's': j})
            out.append(dict(name=name, src='\n'.join(L) + '\n', ins=[('a', 8), ('b', 8), ('c', 8), ('s', 6)],
                            outs=[(f'o{j}', 32) for j in range(nout)], consts=consts, state=[], seq=True,
                            tags=['constnest', 'constnest:' + pattern], attr_of={}, profile='nest',
                            history=rng.fork(('cnh', name)).shuffle(hist), exprs=exprs))
    return out


# ------------------------------------------------------------------------------------------------ idiom stream (ternaries / flags)
IDIOM_ARMS = [('1', '0'), ('0', '1'), ('True', 'False'), ('False', 'True'), ('1', '1'), ('0', '0'), ('2', '0'), ('0', '2'),
              ('x', '0'), ('0', 'x'), ('x', 'x'), ('y', 'x'), ('1', 'x'), ('x', '1')]
IDIOM_VALS = [0, 1, 2, 3, 4, 6, 8, 12, 255]


def gen_idiom_classes(rng):
    """conditional idioms whose condition is a VALUE, not a flag: for every operator `x op y` (and the bare variable, `not x`) as the
    condition, and every pair of arms drawn from 0/1/True/False/2/x/y: the ternary `A if cond else B` in value position, inside an
    arithmetic context, and the statement form `if cond: o.prepare(A) else: o.prepare(B)`.  The history drives (x, y) on which the
    condition value is 0, 1 and a multi-bit truthy value."""
    out = []
    conds = [(op, f'(x {PY_BIN[op]} y)') for op in NEST_BIN + NEST_CMP] + [('var', 'x'), ('not', '(not x)'),
                                                                           ('and', '(x and y)'), ('or', '(x or y)')]
    for ci, (op, ctxt) in enumerate(conds):
        # (x, y) with condition value 0 / 1 / > 1, inside the domain
        def cv(x, y):
            try:
                v = eval(ctxt, {}, {'x': x, 'y': y})
            except Exception:
                return None
            v = int(v)
            if op in ('shl',) and y > 20:
                return None
            return v if 0 <= v < (1 << 31) else None
        groups = {0: [], 1: [], 2: []}
        for x in IDIOM_VALS:
            for y in IDIOM_VALS:
                v = cv(x, y)
                if v is not None:
                    groups[min(v, 2)].append((x, y))
        vecs = []
        r = rng.fork(('idiom', op))
        for gk in (2, 1, 0):
            vecs += r.shuffle(groups[gk])[:2 if gk == 2 else 1]
        exprs = []
        for (a, b) in IDIOM_ARMS:
            exprs.append(('tern', f'({a} if {ctxt} else {b})'))
        for (a, b) in IDIOM_ARMS[:4]:
            exprs.append(('tern-arith', f'(y + ({a} if {ctxt} else {b}))'))
            exprs.append(('if-stmt', (ctxt, a, b)))
        name = f'I{ci}'
        nout = len(exprs)
        args = ['a', 'b', 's'] + [f'o{j}' for j in range(nout)]
        L = [f'class {name}(py4hw.Logic):', f'    def __init__(self, parent, name, {", ".join(args)}):',
             '        super().__init__(parent, name)']
        for n in ('a', 'b', 's'):
            L.append(f"        self.{n} = self.addIn('{n}', {n})")
        for j in range(nout):
            L.append(f"        self.o{j} = self.addOut('o{j}', o{j})")
        L += ['    def clock(self):', '        x = self.a.get()', '        y = self.b.get()']
        hist = []
        for j, (kind, e) in enumerate(exprs):
            if kind == 'if-stmt':
                L += [f'        if self.s.get() == {j}:', f'            if {e[0]}:', f'                self.o{j}.prepare({e[1]})',
                      '            else:', f'                self.o{j}.prepare({e[2]})']
            else:
                L += [f'        if self.s.get() == {j}:', f'            self.o{j}.prepare({e})']
            for (x, y) in vecs:
                hist.append({'a': x, 'b': y, 's': j})
        out.append(dict(name=name, src='\n'.join(L) + '\n', ins=[('a', 8), ('b', 8), ('s', 6)],
                        outs=[(f'o{j}', 32) for j in range(nout)], consts=[], state=[], seq=True,
                        tags=['idiom', 'idiom:' + op], attr_of={}, profile='nest',
                        history=rng.fork(('idh', name)).shuffle(hist), exprs=exprs, n_multibit=len(groups[2])))
    return out


def write_module(dirpath, modname, classes):
    with open(os.path.join(dirpath, modname + '.py'), 'w') as f:
        f.write('import py4hw\n\n')
        for c in classes:
            f.write(c['src'] + '\n')


def load_module(dirpath, modname):
    if dirpath not in sys.path:
        sys.path.insert(0, dirpath)
    importlib.invalidate_caches()
    return importlib.import_module(modname)
